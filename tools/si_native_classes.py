"""Maintenance tool: minimal failing feature classes of a strided-interval transfer function by native
exhaustive enumeration at widths <= 3 (to seed known_findings; the symbolic check then proves the rest)."""
import sys, itertools, signal, json
sys.path.insert(0, "/verif")
from vf.bounded import si_enum as B
from vf.contracts import si as S
from claripy.backends.backend_vsa import StridedInterval as SI
from claripy.backends.backend_vsa.bool_result import BoolResult
op = sys.argv[1]
widths = [int(x) for x in sys.argv[2:]] or [2, 3]
def h(*a): raise TimeoutError()
signal.signal(signal.SIGALRM, h)
fails = {}
for w in widths:
    ivs = list(B.all_intervals(w))
    for a, b in itertools.product(ivs, ivs):
        sa = SI(bits=w, stride=a[2], lower_bound=a[0], upper_bound=a[1]); sb = SI(bits=w, stride=b[2], lower_bound=b[0], upper_bound=b[1])
        feats = S.py_features("a", *a, w) | S.py_features("b", *b, w)
        if "shift" not in op:
            feats.discard("b_gew")
        signal.alarm(3)
        try:
            r = getattr(sa, op)(sb); signal.alarm(0)
        except Exception as e:
            signal.alarm(0)
            fails.setdefault(frozenset(feats), (w, a, b, type(e).__name__)); continue
        mem = r.value if isinstance(r, BoolResult) else S.py_members(r)
        for x in B._members(*a, w):
            for y in B._members(*b, w):
                if op in S.NEEDS_NONZERO and y == 0: continue
                if S.PY_REF[op](x, y, w) not in mem:
                    fails.setdefault(frozenset(feats), (w, a, b, x, y, str(r)))
mins = [f for f in fails if not any(g < f for g in fails)]
print(json.dumps({"op": op, "classes": sorted(sorted(m) for m in mins), "witnesses": {",".join(sorted(m)): fails[m] for m in mins}}, default=str))
