#!/usr/bin/env python3
"""maintenance (not run by checks): run the registered quick checks against seeded changes WITHOUT touching /repo.

For each seeded/<id>:  a scratch git worktree of /repo's HEAD is created under /tmp, patch.diff is applied there, (unless
--noverify) the 331 tests are run on it and demo.py is run on the changed and on the unchanged tree, then the checks are run
with VERIF_REPO=<worktree> PYTHONPATH=<worktree> (so the loader re-reads the changed sources and `import claripy` resolves to the
changed package) and VERIF_OUT=<scratch> (so /verif/evidence and /verif/replays are not overwritten).  The worktree is removed
afterwards.  The outcome is recorded in seeded/<id>/meta.json.  The sanctioned in-place procedure (git -C /repo apply ...; ./check;
git -C /repo checkout -- .) is tools/seed_try.sh; both give the same verdicts, this one can run while /repo is being used.

usage: tools/seed_campaign.py [--noverify] [-j N] [--tier quick] <id>[:Cxx,Cyy] ...   (no ids = all)
"""
import json, os, re, shutil, subprocess, sys, time

V = "/verif"
args = sys.argv[1:]
noverify = "--noverify" in args
jobs = "16"
tier = "quick"
ids = []
it = iter(args)
for a in it:
    if a == "-j":
        jobs = next(it)
    elif a == "--tier":
        tier = next(it)
    elif a.startswith("--"):
        pass
    else:
        ids.append(a)
if not ids:
    ids = sorted(d for d in os.listdir(f"{V}/seeded") if os.path.isfile(f"{V}/seeded/{d}/patch.diff"))


def sh(cmd, **kw):
    return subprocess.run(cmd, shell=True, capture_output=True, text=True, **kw)


head = sh("git -C /repo rev-parse --short HEAD").stdout.strip()
for spec in ids:
    sid, _, props = spec.partition(":")
    d = f"{V}/seeded/{sid}"
    meta = json.load(open(f"{d}/meta.json"))
    props = props.split(",") if props else meta.get("checks_run_on") or [meta["property"]]
    W = f"/tmp/sc.{sid}.{os.getpid()}"
    O = W + ".out"
    r = sh(f"git -C /repo worktree add --detach -q {W} HEAD")
    if r.returncode:
        print(sid, "worktree failed", r.stderr[-200:]); continue
    try:
        r = sh(f"git -C {W} apply {d}/patch.diff")
        if r.returncode:
            print(sid, "APPLY FAILED", r.stderr[-300:], flush=True)
            meta["confirmed"] = {"head": head, "ok": False, "output": ["APPLY: FAILED " + r.stderr[-300:]]}
            json.dump(meta, open(f"{d}/meta.json", "w"), indent=1)
            continue
        if not noverify:
            t = sh(f"cd {W} && PYTHONPATH={W} /venv/bin/python -m pytest -q -p no:cacheprovider --timeout=900 -n 6 2>&1 | tail -1").stdout.strip()
            m = sh(f"cd /tmp && PYTHONPATH={W} timeout 600 /venv/bin/python {d}/demo.py 2>&1 | tail -n 3; echo rc=${{PIPESTATUS[0]}}", executable="/bin/bash").stdout.strip()
            c = sh(f"cd /tmp && PYTHONPATH=/repo timeout 600 /venv/bin/python {d}/demo.py 2>&1 | tail -n 1; echo rc=${{PIPESTATUS[0]}}", executable="/bin/bash").stdout.strip()
            mrc = int(m.rsplit("rc=", 1)[1]); crc = int(c.rsplit("rc=", 1)[1])
            ok = bool(re.search(r"\b331 passed", t)) and "failed" not in t and mrc != 0 and crc == 0
            meta["confirmed"] = {"head": head, "ok": ok, "tests": t, "demo_on_changed_tree": m[-400:], "demo_on_unchanged_tree": c[-200:]}
            print(f"{sid} confirm: ok={ok} tests='{t}' demo changed rc={mrc} unchanged rc={crc}", flush=True)
            if not ok:
                json.dump(meta, open(f"{d}/meta.json", "w"), indent=1)
                continue
        res = {}
        for p in props:
            t0 = time.time()
            env = dict(os.environ, VERIF_REPO=W, PYTHONPATH=W, VERIF_OUT=O, VERIF_JOBS=jobs)
            r = sh(f"cd {V} && ./check {p} --tier {tier}", env=env)
            lines = [l for l in r.stdout.splitlines() if l.startswith("VIOLATION")]
            uniq = list(dict.fromkeys(lines))
            obl = [l.strip()[:300] for l in r.stdout.splitlines() if l.strip().startswith("obligation ")]
            res[p] = {"exit": r.returncode, "seconds": round(time.time() - t0), "violation_lines": uniq[:6], "n_violation_lines": len(uniq),
                      "failed_obligations": list(dict.fromkeys(obl))[:6],
                      "summary": (r.stdout.strip().splitlines() or [""])[-1][:300]}
            print(f"{sid} on {p}: exit {r.returncode} in {res[p]['seconds']}s; {len(uniq)} VIOLATION lines; {uniq[0][:160] if uniq else res[p]['summary'][:160]}", flush=True)
        meta["checks_run_on"] = props
        meta["ran"] = {"head": head, "how": f"scratch worktree of /repo HEAD + patch.diff; VERIF_REPO=<worktree> ./check <prop> --tier {tier} for each of {props}; worktree removed",
                       "results": res}
        meta["caught_by"] = sorted(p for p, x in res.items() if x["exit"] == 1)
        meta["missed_by"] = sorted(p for p, x in res.items() if x["exit"] == 0)
        meta["other_exit"] = {p: x["exit"] for p, x in res.items() if x["exit"] not in (0, 1)}
        json.dump(meta, open(f"{d}/meta.json", "w"), indent=1)
    finally:
        sh(f"git -C /repo worktree remove --force {W}")
        shutil.rmtree(W, ignore_errors=True)
        shutil.rmtree(O, ignore_errors=True)
