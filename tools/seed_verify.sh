#!/bin/bash
# maintenance (not run by checks): confirm a candidate seeded change in a scratch worktree.
#   tools/seed_verify.sh <patch.diff> <demo.py> [notests]
# prints: apply / tests / demo-on-mutant (must fail) / demo-on-clean (must pass)
set -u
P=$(readlink -f "$1"); D=$(readlink -f "$2"); NT=${3:-}
W=/tmp/sv.$$
git -C /repo worktree add --detach -q "$W" HEAD || exit 3
trap 'git -C /repo worktree remove --force "$W" >/dev/null 2>&1; rm -rf "$W"' EXIT
if ! git -C "$W" apply "$P"; then echo "APPLY: FAILED"; exit 3; fi
echo "APPLY: ok ($(git -C "$W" diff --stat | tail -1))"
if [ -z "$NT" ]; then
  (cd "$W" && PYTHONPATH="$W" /venv/bin/python -m pytest -q -p no:cacheprovider --timeout=900 -n 6 2>&1 | tail -1) > "$W/.t" 2>&1 || true
  echo "TESTS: $(cat "$W/.t")"
fi
(cd /tmp && PYTHONPATH="$W" timeout 600 /venv/bin/python "$D" > "$W/.m" 2>&1); echo "DEMO on mutant: rc=$? :: $(tail -n 2 "$W/.m" | tr '\n' ' ' | cut -c1-300)"
(cd /tmp && PYTHONPATH=/repo timeout 600 /venv/bin/python "$D" > "$W/.c" 2>&1); echo "DEMO on clean : rc=$? :: $(tail -n 1 "$W/.c" | cut -c1-200)"
