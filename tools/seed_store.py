#!/usr/bin/env python3
"""maintenance (not run by checks): store candidate seeded changes from /tmp/mutout under /verif/seeded/<id>/."""
import json, os, shutil, sys
SRC = "/tmp/mutout"
NEEDS = {
 "C01-1": ("Base._arg_serialize packs integer arguments into 8 bytes (arg & 2^64-1)", "two constants of the same width > 64 whose values agree modulo 2^64, the first still alive: BVV(2**64+5, 128) comes back as BVV(5, 128)"),
 "C01-2": ("rotate_shift_mask_simplifier also accepts the arithmetic shift (__rshift__) in the rotate idiom", "((x << c1) | (x >> c2)) & mask with c1+c2 in {32,64}, the mask 0xffff/0xffffffff rotated by c1, and the sign bit of x set"),
 "C02-1": ("FPV comparison methods replaced by functools.total_ordering", "a concrete fpGT/fpGEQ with a NaN operand folds to True"),
 "C02-2": ("fptofp_simplifier collapses fpToFP(rm, fpToFP(rm2, y, wider), sort) to one conversion without checking that y is a float", "int -> double -> float chain on a symbolic bitvector wider than 53 bits with a value where double rounding differs"),
 "C03-1": ("concrete StrSubstr computes the end index as a 64-bit BVV sum", "all operands concrete and start + count >= 2**64 (e.g. count = -1)"),
 "C03-2": ("BackendZ3.StringV escapes only the braced form \\u{", "a constant containing backslash, u and exactly four hex digits (\\u0048) reaches Z3 as 'H'"),
 "C04-1": ("concrete fpToFP double->float narrows through struct.pack('<f')", "a finite double of magnitude >= 3.4028235677973366e38 narrowed to FLOAT raises OverflowError"),
 "C04-2": ("De Morgan slip in rotate_shift_mask_simplifier's constant-amount guard", "((X << a) | LShR(X, b)) & const with exactly one of a, b constant raises TypeError/ClaripyOperationError"),
 "C05-1": ("Base.__new__ computes the maximum argument depth inside the loop that is skipped for skip_child_annotations=True", "an annotation edit that reaches __new__ with skip_child_annotations=True (any edit on a compound Bool; clear/remove on a compound BV): depth 1 for a compound node"),
 "C05-2": ("replace_dict passes annotations=/skip_child_annotations=True to make_like, reaching its fast path with NEW arguments", "a substitution below a non-leaf BV node that carries an annotation: stale variables/depth/symbolic"),
 "C06-1": ("_arg_serialize uses the minimal signed byte width for integers", "the constant 15 and an empty strided interval (BVV(None, w)) of the same width alive together: one-byte serialisation collides with the tag of None"),
 "C06-2": ("StridedIntervalAnnotation.__hash__ becomes an XOR of the three field hashes", "two different SI annotations with colliding XOR (e.g. singleton intervals with the same stride) put on the same leaf while the first result is alive"),
 "C07-1": ("_handle_annotations returns early when no argument has top-level annotations", "a non-eliminatable, non-relocatable annotation on an INNER node of an operand whose own .annotations is empty, and an operation that eliminates the operands (e ^ e)"),
 "C07-2": ("algorithm.simplify stores the backend result in simplification_cache before re-attaching annotations", "simplify(e) twice on an annotated expression that Z3 changes, with the un-annotated result still alive: the second call returns it without annotations"),
 "C08-1": ("ite_cases skips a case whose value equals the DEFAULT instead of the value built so far", "a case whose value equals the default, shadowing a later overlapping case with a different value"),
 "C08-2": ("replace() returns expr unchanged when old.variables is disjoint from expr.variables", "old is a variable-free constant that occurs in expr"),
 "C09-1": ("op_map maps Z3_OP_BSDIV_I to __floordiv__", "a signed division that goes through Z3's simplifier (which rewrites bvsdiv to bvsdiv_i) with a negative operand"),
 "C09-2": ("ConstrainedFrontend.simplify selects constraints with no annotations at all for simplification", "a constraint with a non-avoidance annotation next to a plain one: it lands in neither list and is dropped"),
 "C10-1": ("BackendZ3._is_true/_is_false answer True when the expression (its negation) is one of solver.assertions()", "the answer is memoised per expression hash by Backend.is_true and then served to other solvers / the bare backend"),
 "C10-2": ("Backend.downsize rebinds both truth caches to ONE dict; is_true/is_false write the cross entry first", "after any downsize(), a True answer for is_true(e) makes is_false(e) True (and vice versa)"),
 "C11-1": ("ModelCacheMixin._add no longer clears the signed min/max exhausted flags", "signed min/max, then an add that kills the cached model realising the optimum while another survives, then the same signed query"),
 "C11-2": ("FullFrontend._copy gives the branch an empty _to_add", "parent already queried, add on the parent, branch before any query, query the branch without adding to it"),
 "C12-1": ("CompositeFrontend._add_dependent_constraints does not copy a combined solver that came from the _merged_solvers cache", "two independent children, a query spanning them, branch(), an add over exactly the cached name set on one side, a query on the other side"),
 "C12-2": ("CompositedCacheMixin._store_child skips the purge of _merged_solvers when the child is already registered", "a spanning query, then an in-place add to an owned child touching a strict subset of the variables, then the same spanning query"),
 "C13-1": ("add_replacement invalidates the replacement cache only if old itself has a cached entry", "a replacement, a query of an expression mixing the replaced term with another one, a further replacement-creating add, the same query again"),
 "C13-2": ("ReplacementFrontend._copy shares the replacement dicts; the VSA-bounds branch of _add writes with invalidate_cache=False", "approximate queries (exact=False) after branch(): a bound added on one side narrows the other side's answers"),
 "C14-1": ("ReplacementFrontend._copy hands the parent's _replacements/_replacement_cache dicts to the branch", "a SolverReplacement with a replacement, a branch, then downsize() or add_replacement(invalidate_cache=False) on one side"),
 "C14-2": ("FullFrontend._copy flushes pending constraints into the shared Z3 solver before branching", "queried solver, branch b1, add on the parent without query, second branch(): the constraint leaks into the solver b1 still shares"),
 "C15-1": ("ModelCacheMixin.combine checks overlap of variables only between the receiver and each other solver", "a three-way combine where two of the OTHERS share a variable and hold conflicting cached models"),
 "C15-2": ("CompositeFrontend._shared_solvers takes the union instead of the intersection of the others' child ids", "a three-way composite merge without common_ancestor where only some of the others constrained a child of the ancestor"),
 "C16-1": ("SatCacheMixin._add caches clear_annotations() of the new constraint in the unsat core", "cheap pairwise contradiction where the newly added constraint carries a non-eliminatable annotation: the core holds an AST that was never added"),
 "C16-2": ("BackendZ3.add registers the tracked Z3 term -> AST mapping only if the term is not cached yet", "two structurally different ASTs converting to one Z3 term, the other form tracked first by another solver: the core names a constraint this solver never received"),
 "C17-1": ("BackendZ3._extrema asserts the extra constraints inside push() and pops only on the normal path", "a timeout at the 3rd or later check of Solver.max/min leaves the frame in the Z3 solver shared with branches"),
 "C17-2": ("ModelCacheMixin.batch_eval treats ClaripySolverInterruptError like UnsatError", "a timeout during eval on a solver that holds a cached model: partial answer returned and the expression marked exhausted"),
 "C18-1": ("ReplacementFrontend.__getstate__ pickles _replacement_cache in the slot of _replacements", "a replacement, a query of a compound expression (memoised), pickle round trip, then change the replacement: stale memo entries are permanent"),
 "C18-2": ("CompositeFrontend.__getstate__ emits _track and _unsat in the opposite order of __setstate__", "a composite that received a concretely false constraint (or built with track=True) pickled before any query"),
 "C19-1": ("_enter_z3 fast path: if the counter is non-zero only increment it (check outside the lock)", "thread B passes the check, A exits and re-enables GC, B increments without disabling GC"),
 "C19-2": ("_exit_z3 re-enables GC after releasing the lock", "A releases the lock before gc.enable(), B enters and samples GC as disabled, A enables GC during B's call"),
 "C21-1": ("rshift_logical steps through the shift-amount range by the amount's stride", "shift amount with stride > 1 whose clamped upper end (>= width, result 0) is off the stride grid: 0 missing from the result"),
 "C21-2": ("warren max_or rejects the boundary candidate temp == a", "operand bounds hitting exactly the boundary pattern: or/and/xor lose values at the interval end"),
}
ids = sys.argv[1:] or sorted(NEEDS)
for sid in ids:
    c, k = sid.split("-")
    d = f"/verif/seeded/{sid}"
    os.makedirs(d, exist_ok=True)
    ported = f"{SRC}/{c}/patch{k}.ported.diff"
    src = ported if os.path.exists(ported) else f"{SRC}/{c}/patch{k}.diff"
    if not os.path.exists(src):
        print("missing", sid); continue
    shutil.copy(src, f"{d}/patch.diff")
    shutil.copy(f"{SRC}/{c}/demo{k}.py", f"{d}/demo.py")
    if os.path.exists(f"{SRC}/{c}/notes{k}.md"):
        shutil.copy(f"{SRC}/{c}/notes{k}.md", f"{d}/notes.md")
    mp = f"{d}/meta.json"
    meta = json.load(open(mp)) if os.path.exists(mp) else {}
    meta.update({"id": sid, "property": c, "change": NEEDS[sid][0], "needs_to_manifest": NEEDS[sid][1],
                 "origin": "written by a sub-agent that was given only the property text and a scratch worktree of /repo; confirmed by tools/seed_verify.sh "
                           "(applies to HEAD, the 331 tests pass with it, demo.py fails on the changed tree and passes on the unchanged one)"
                           + ("; re-based by hand onto the tree after a later fix: commit touched the same lines" if os.path.exists(ported) else "")})
    json.dump(meta, open(mp, "w"), indent=1)
    print("stored", sid)
