#!/usr/bin/env python3
"""maintenance (not run by checks): enumerate natively, on the CURRENT /repo tree, every input on which a strided-interval operation is unsound /
inexact at the small widths, and write them to vf/contracts/si_known_cases.json.gz - the one-by-one list behind the C21/C22 known findings that
vf/bounded/si_pairs.py reads.  Run only on the unchanged tree, after a fix: a case that stops failing simply drops out of the list."""
import gzip, json, os, sys, time
from multiprocessing import Pool
sys.path.insert(0, "/verif")
from vf.bounded import si_pairs as P
if os.environ.get("PYTHONHASHSEED") != "0":
    # StridedInterval.sdiv / mul / ... join a SET of partial results: the result (and so the set of failing inputs) depends on the string hash
    # seed.  ./check pins PYTHONHASHSEED=0; the list must be made under the same seed.
    os.environ["PYTHONHASHSEED"] = "0"
    os.execv(sys.executable, [sys.executable] + sys.argv)
WIDTHS = [1, 2, 3]


def job(t):
    op, w = t
    return op, w, P.run(op, w, budget_s=3600, collect=True)


if __name__ == "__main__":
    t0 = time.time()
    out = {}
    with Pool(14) as pool:
        for op, w, found in pool.imap_unordered(job, [(op, w) for w in WIDTHS for op in P.OPS]):
            if found:
                out[f"{op}@w{w}"] = found
            print(op, w, len(found), flush=True)
    with gzip.open(P.KNOWN_FILE, "wt") as fh:
        json.dump(out, fh, separators=(",", ":"), sort_keys=True)
    print("cases:", sum(len(v) for v in out.values()), "file", os.path.getsize(P.KNOWN_FILE), "bytes", round(time.time() - t0), "s")
