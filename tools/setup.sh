#!/bin/bash
# Build the overlay venv /verif/.venv offline: python 3.12 (same as /venv) + /venv's site-packages
# through a .pth + the contract/verification wheels from the offline wheelhouse.
set -e
cd "$(dirname "$0")/.."
if [ -x .venv/bin/python ] && .venv/bin/python -c "import claripy, z3, jsonschema" 2>/dev/null; then
  echo "venv ok"; exit 0
fi
rm -rf .venv
/venv/bin/python -m venv .venv
SP=$(.venv/bin/python -c "import site; print(site.getsitepackages()[0])")
echo "import site; site.addsitedir('/venv/lib/python3.12/site-packages')" > "$SP/_overlay.pth"
PIP_NO_INDEX=1 .venv/bin/python -m pip install --no-index --find-links /opt/veriftools/wheels -q jsonschema icontract deal crosshair-tool cvc5 2>&1 | tail -3 || true
.venv/bin/python -c "import claripy, z3, jsonschema; print('setup ok', z3.get_version_string())"
