#!/bin/bash
# maintenance: run every claimed check in the thorough tier, evidence/replays redirected (VERIF_OUT) so that the committed quick evidence stays;
# one summary line per property in $1 (default /tmp/thorough.log)
cd "$(dirname "$0")/.."
LOG=/tmp/thorough.log   # usage: tools/run_thorough.sh [--write-ledger]
export VERIF_OUT=/tmp/thorough_out
mkdir -p $VERIF_OUT
for P in $(.venv/bin/python -c "import json;print(' '.join(c['property_id'] for c in json.load(open('MANIFEST.json'))['checks']))"); do
  s=$(date +%s)
  nice -n 5 ./check $P --tier thorough "$@" > $VERIF_OUT/$P.log 2>&1
  rc=$?
  echo "$P rc=$rc $(( $(date +%s) - s ))s :: $(tail -n 1 $VERIF_OUT/$P.log | cut -c1-220)" | tee -a $LOG
done
