#!/usr/bin/env python3
"""maintenance: every evidence/<id>.json validates against the schema, names the level claimed in MANIFEST.json,
and (proof level) has discharged == obligations.   tools/validate_evidence.py [schema]"""
import json, os, sys
import jsonschema
ROOT = os.path.dirname(os.path.dirname(os.path.abspath(__file__)))
schema = json.load(open(sys.argv[1] if len(sys.argv) > 1 else "/root/.vp/EVIDENCE.schema.json"))
man = json.load(open(os.path.join(ROOT, "MANIFEST.json")))
bad = 0
for c in man["checks"]:
    p = os.path.join(ROOT, c["evidence_file"])
    try:
        ev = json.load(open(p))
        jsonschema.validate(ev, schema)
        cov = ev["coverage"]
        assert ev["property_id"] == c["property_id"], "property_id"
        assert ev["level"] == c["level_claimed"]["category"], f"level {ev['level']} != manifest {c['level_claimed']['category']}"
        if ev["level"] == "proof":
            assert cov["obligations"] == cov["discharged"] >= 1, f"discharged {cov['discharged']} != obligations {cov['obligations']}"
        assert ev.get("violations", 0) == 0, f"violations {ev.get('violations')}"
        print(c["property_id"], "ok", ev["level"], cov.get("obligations"), cov.get("discharged"), cov.get("evaluations"), cov.get("distinct_nontrivial"))
    except Exception as e:  # noqa
        bad += 1
        print(c["property_id"], "INVALID:", str(e).splitlines()[0][:300])
sys.exit(1 if bad else 0)
