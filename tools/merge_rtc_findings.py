"""Maintenance tool: merge vf/rtc/proposed_findings.json into known_findings.json - only entries whose
witness still reproduces natively on the current /repo (the others were repaired by fix: commits)."""
import json, sys, os
sys.path.insert(0, "/verif")
from vf.rtc import findings as F
p = "/verif/known_findings.json"
kf = json.load(open(p))
prop = json.load(open("/verif/vf/rtc/proposed_findings.json"))
keep = [f for f in kf["findings"] if not f["id"].startswith("rtc:")]
for e in prop["findings"]:
    r = F.replay(e)
    print(("KEEP " if r.get("reproduced") else "drop ") + e["id"], "|", str(r.get("text"))[:160].replace("\n", " "))
    if r.get("reproduced"):
        keep.append({"id": "rtc:" + e["id"], "property": e["property"], "labels": e["labels"], "what": e["what"],
                     "witness_label": e.get("witness_label"), "witness": e["witness"], "replay": "vf.rtc.findings:replay"})
kf["findings"] = keep
json.dump(kf, open(p, "w"), indent=1)
