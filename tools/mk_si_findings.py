"""Maintenance tool: turn /tmp/infer/<op>.json (output of infer_si_classes.py) into proposed
known_findings entries (printed; reviewed by hand before they go into known_findings.json)."""
import json, sys, glob, os
sys.path.insert(0, "/verif")
from vf.contracts import si
SHIFT = {"lshift", "rshift_logical", "rshift_arithmetic"}
out = []
for p in sorted(glob.glob("/tmp/infer/*.json")):
    op = os.path.basename(p)[:-5]
    try:
        d = json.load(open(p))
    except Exception:
        continue
    if not d["classes"]:
        continue
    classes = set()
    wits = []
    for x in d["witnesses"]:
        w, wit = x["w"], x["witness"]
        f = si.py_features("a", wit["a_lb"], wit["a_ub"], wit["a_stride"] if wit["a_lb"] != wit["a_ub"] else 0, w)
        if "b_lb" in wit:
            f |= si.py_features("b", wit["b_lb"], wit["b_ub"], wit["b_stride"] if wit["b_lb"] != wit["b_ub"] else 0, w)
        if op not in SHIFT:
            f.discard("b_gew")
        # core generalisation: a misaligned wrapping operand (wraps with a stride that does not divide 2^w)
        core = None
        for n in "ab":
            if {f"{n}_wrap", f"{n}_np2"} <= f:
                core = (f"{n}_np2", f"{n}_wrap")
                break
        cl = core or tuple(sorted(f))
        if cl not in classes:
            classes.add(cl)
            wits.append({"w": w, "class": list(cl), **wit})
    classes = sorted(classes)
    classes = [c for c in classes if not any(set(o) < set(c) for o in classes)]
    out.append({"op": op, "n": len(classes), "classes": [list(c) for c in classes], "witnesses": wits[:40]})
json.dump(out, open("/tmp/infer/summary.json", "w"), indent=1)
for o in out:
    print(o["op"], o["n"], o["classes"][:12])
