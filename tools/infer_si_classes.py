"""Maintenance tool (NOT run by any check): proposes the failing input classes of a strided-interval
obligation by repeatedly running the obligation with the classes found so far excluded.
usage: tools/infer_si_classes.py <fn> <op> <widths...>   -> prints JSON {"classes": [...], "witnesses": [...]}"""
import json, sys
sys.path.insert(0, "/verif")
from vf import common
from vf.contracts import si

def main():
    fn, op = sys.argv[1], sys.argv[2]
    widths = [int(x) for x in sys.argv[3:]]
    ob = f"si.{op}/gamma"
    classes, wits = [], []
    fake = {"id": "INFER", "property": "C21", "obligation": ob, "classes": classes, "what": "infer"}
    common.load_findings()["findings"] = [f for f in common.load_findings()["findings"] if f.get("obligation") != ob] + [fake]
    orig_opts = si._opts
    si._opts = lambda w, tier, **kw: orig_opts(w, tier, max_failures=400, **kw)
    for w in widths:
        for it in range(40):
            r = getattr(si, fn)(op=op, w=w)
            if r.status == "undecided":
                print(f"# w={w} undecided: {r.reason}", file=sys.stderr); break
            if not r.failures:
                print(f"# w={w} discharged after {it} rounds, paths={r.paths}, classes={len(classes)}", file=sys.stderr); break
            new = 0
            for f in r.failures:
                if not f.label.endswith("/gamma"):
                    print("# non-gamma failure", f.label, f.model, file=sys.stderr); continue
                cl = sorted(k[2:] for k, v in f.model.items() if k.startswith("F_") and v is True)
                cl = [k for k in cl if not k.endswith("_has0") or op in si.NEEDS_NONZERO]
                if cl not in classes:
                    classes.append(cl); new += 1
                    wits.append({"w": w, "class": cl, "witness": {k: v for k, v in f.model.items() if not k.startswith("F_")}})
            print(f"# w={w} round {it}: {len(r.failures)} failures, {new} new classes", file=sys.stderr)
            if new == 0:
                print("# no progress", file=sys.stderr); break
    # drop classes subsumed by a more general one
    keep = [c for c in classes if not any(set(o) < set(c) for o in classes)]
    print(json.dumps({"op": op, "classes": keep, "witnesses": [x for x in wits if x["class"] in keep]}))

main()
