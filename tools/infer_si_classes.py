"""Maintenance tool (NOT run by any check): proposes the failing input classes of a strided-interval
obligation by repeatedly running it with the classes found so far excluded.
usage: tools/infer_si_classes.py <fn> <obligation> '<json kwargs>' <widths...>"""
import json, sys
sys.path.insert(0, "/verif")
from vf import common
from vf.contracts import si

def main():
    fn, ob, kw = sys.argv[1], sys.argv[2], json.loads(sys.argv[3])
    widths = [int(x) for x in sys.argv[4:]]
    classes, wits = [], []
    fake = {"id": "INFER", "property": "C21", "obligations": [ob], "classes": classes, "what": "infer"}
    fs = common.load_findings()
    fs["findings"] = [f for f in fs["findings"] if ob not in f.get("obligations", [])] + [fake]
    orig_opts = si._opts
    si._opts = lambda w, tier, **k: orig_opts(w, tier, **{**k, "max_failures": 400, "budget_s": 1500})
    for w in widths:
        for it in range(40):
            r = getattr(si, fn)(w=w, **kw)
            if r.status in ("undecided", "partial") and not (r.failures or r.spurious):
                print(f"# w={w} {r.status}: {r.reason}", file=sys.stderr); break
            fails = list(r.failures) + list(r.spurious)
            if not fails:
                print(f"# w={w} discharged after {it} rounds, paths={r.paths}, classes={len(classes)}", file=sys.stderr); break
            new = 0
            for f in fails:
                cl = sorted(k[2:] for k, v in f.model.items() if k.startswith("F_") and v is True)
                if "shift" not in ob:
                    cl = [c for c in cl if c != "b_gew"]
                for n in "ab":
                    if {f"{n}_wrap", f"{n}_np2"} <= set(cl):
                        cl = [f"{n}_np2", f"{n}_wrap"]
                        break
                if cl not in classes:
                    classes.append(cl); new += 1
                    wits.append({"w": w, "class": cl, "label": f.label, "detail": f.detail,
                                 **{k: v for k, v in f.model.items() if not k.startswith("F_")}})
            print(f"# w={w} round {it}: {len(fails)} failures, {new} new classes", file=sys.stderr)
            if new == 0:
                print("# no progress", file=sys.stderr); break
    keep = [c for c in classes if not any(set(o) < set(c) for o in classes)]
    print(json.dumps({"obligation": ob, "fn": fn, "kwargs": kw, "classes": keep, "witnesses": [x for x in wits if x["class"] in keep]}))

main()
