#!/usr/bin/env python3
"""maintenance (not run by checks): for each seeded change  (1) confirm it in a scratch worktree (applies to HEAD, tests pass,
demo fails with it and passes without), (2) apply it to /repo (git -C /repo apply), run the listed checks, undo it straight
afterwards (git -C /repo checkout -- .), (3) record the outcome in seeded/<id>/meta.json.
usage: tools/seed_run.py [--noverify] <id>[:Cxx,Cyy] ..."""
import json, os, subprocess, sys, time, re
V = "/verif"
args = sys.argv[1:]
noverify = "--noverify" in args
args = [a for a in args if not a.startswith("--")]


def sh(cmd, **kw):
    return subprocess.run(cmd, shell=True, capture_output=True, text=True, **kw)


for spec in args:
    sid, _, props = spec.partition(":")
    d = f"{V}/seeded/{sid}"
    meta = json.load(open(f"{d}/meta.json"))
    props = props.split(",") if props else meta.get("checks_run_on") or [meta["property"]]
    head = sh("git -C /repo rev-parse --short HEAD").stdout.strip()
    if sh("git -C /repo status --porcelain").stdout.strip():
        print("/repo not clean"); sys.exit(3)
    if not noverify:
        r = sh(f"{V}/tools/seed_verify.sh {d}/patch.diff {d}/demo.py")
        out = r.stdout
        ok = "APPLY: ok" in out and re.search(r"TESTS: 331 passed", out) and re.search(r"DEMO on mutant: rc=[1-9]", out) and "DEMO on clean : rc=0" in out
        meta["confirmed"] = {"head": head, "output": out.strip().splitlines()}
        if not ok:
            meta["confirmed"]["ok"] = False
            json.dump(meta, open(f"{d}/meta.json", "w"), indent=1)
            print(sid, "NOT CONFIRMED", out[-300:]); continue
        meta["confirmed"]["ok"] = True
    r = sh(f"git -C /repo apply {d}/patch.diff")
    if r.returncode:
        print(sid, "apply failed", r.stderr[-200:]); continue
    res = {}
    try:
        for p in props:
            t0 = time.time()
            r = sh(f"cd {V} && ./check {p}")
            lines = [l for l in r.stdout.splitlines() if l.startswith("VIOLATION")]
            uniq = list(dict.fromkeys(lines))
            res[p] = {"exit": r.returncode, "seconds": round(time.time() - t0), "violation_lines": uniq[:6], "n_violation_lines": len(uniq),
                      "summary": (r.stdout.strip().splitlines() or [""])[-1][:300]}
            print(f"{sid} on {p}: exit {r.returncode} in {res[p]['seconds']}s; {len(uniq)} distinct VIOLATION lines; {uniq[0][:150] if uniq else ''}", flush=True)
    finally:
        sh("git -C /repo checkout -- .")
    dirty = sh("git -C /repo status --porcelain").stdout.strip()
    meta["checks_run_on"] = props
    meta["ran"] = {"head": head, "how": f"git -C /repo apply seeded/{sid}/patch.diff; ./check <prop> (quick tier) for each of {props}; git -C /repo checkout -- .",
                   "results": res, "repo_clean_afterwards": not dirty}
    meta["caught_by"] = sorted(p for p, x in res.items() if x["exit"] == 1)
    meta["missed_by"] = sorted(p for p, x in res.items() if x["exit"] == 0)
    meta["other_exit"] = {p: x["exit"] for p, x in res.items() if x["exit"] not in (0, 1)}
    json.dump(meta, open(f"{d}/meta.json", "w"), indent=1)
