#!/usr/bin/env python3
"""maintenance: how close does each ledger obligation come to its time limits?

  tools/budget_margin.py [EVIDENCE_DIR] [--ratio 0.15]

Reads evidence/<id>.json (written by the checks) and vf/ledger.json and lists every ledger obligation whose wall time
exceeds RATIO of its effective exploration budget, or whose slowest single solver query exceeds RATIO of the per-query
timeout it ran with, or that had solver `unknown` answers.  Such an obligation is one a slower machine could turn into
"undecided" (exit 2): give it a larger budget, split it, or take it out of the ledger (then it is reported as partial when
it does not complete, and is not counted as proved on that run).  Exit 1 if anything is listed."""
import glob
import json
import os
import sys

ROOT = os.path.dirname(os.path.dirname(os.path.abspath(__file__)))


def main():
    args = [a for a in sys.argv[1:] if not a.startswith("--")]
    ratio = float(sys.argv[sys.argv.index("--ratio") + 1]) if "--ratio" in sys.argv else 0.15
    evdir = args[0] if args else os.path.join(ROOT, "evidence")
    ledger = json.load(open(os.path.join(ROOT, "vf", "ledger.json")))
    bad = 0
    for f in sorted(glob.glob(os.path.join(evdir, "C*.json"))):
        e = json.load(open(f))
        led = set(ledger.get(f"{e['property_id']}/{e['tier']}", []))
        for t in e["coverage"].get("tasks", []):
            if t["id"] not in led:
                continue
            b = t.get("budget_s")
            why = []
            if b and (t.get("wall_s") or 0) > ratio * b:
                why.append(f"wall {t['wall_s']} s of {b} s")
            if t.get("solver_unknowns"):
                why.append(f"{t['solver_unknowns']} solver unknowns")
            if (t.get("slowest_solver_query_s") or 0) > 5:      # plain per-query timeouts are 10-30 s (x6 for ledger obligations)
                why.append(f"slowest query {t['slowest_solver_query_s']} s")
            if t.get("status") not in ("discharged", "ok"):
                why.append(f"status {t.get('status')}")
            if why:
                bad += 1
                print(e["property_id"], t["id"], "; ".join(why))
    print(f"{bad} ledger obligations near a time limit (ratio {ratio})")
    return 1 if bad else 0


if __name__ == "__main__":
    sys.exit(main())
