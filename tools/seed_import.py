#!/usr/bin/env python3
"""maintenance: import a sub-agent's deliverables (patch.diff, demo.py, notes.md) as the next seeded/<Cxx>-<n> directory.
usage: tools/seed_import.py <Cxx> <source-dir> <wave>"""
import json, os, re, shutil, sys
prop, src, wave = sys.argv[1], sys.argv[2], int(sys.argv[3])
V = "/verif/seeded"
n = 1 + max([int(d.split("-")[1]) for d in os.listdir(V) if d.startswith(prop + "-")] or [0])
sid = f"{prop}-{n}"
d = f"{V}/{sid}"
os.makedirs(d)
for f in ("patch.diff", "demo.py", "notes.md"):
    shutil.copy(f"{src}/{f}", f"{d}/{f}")
notes = open(f"{d}/notes.md").read()
g = lambda k: (re.search(rf"^\s*{k}:\s*(.+)$", notes, re.M) or [None, ""])[1].strip()
meta = {"id": sid, "property": prop, "change": g("change"), "needs_to_manifest": g("needs_to_manifest"), "wave": wave,
        "origin": f"written by a sub-agent (wave {wave}) that was given only the property text, one-line descriptions of the changes already tried, and a scratch worktree of /repo; "
                  "confirmed by tools/seed_campaign.py"}
json.dump(meta, open(f"{d}/meta.json", "w"), indent=1)
print(sid, "|", meta["change"][:150])
