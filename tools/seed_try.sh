#!/bin/bash
# maintenance (not run by checks): run checks against a seeded change applied to /repo, and undo it straight afterwards.
#   tools/seed_try.sh <patch.diff> <Cxx> [<Cyy> ...]      (env TIER=quick|thorough)
set -u
P=$(readlink -f "$1"); shift
cd /verif
if [ -n "$(git -C /repo status --porcelain)" ]; then echo "/repo not clean"; exit 3; fi
git -C /repo apply "$P" || exit 3
trap 'git -C /repo checkout -- . ; echo "[undone: $(git -C /repo status --porcelain | wc -l) dirty files]"' EXIT
for c in "$@"; do
  s=$(date +%s)
  ./check "$c" --tier "${TIER:-quick}" > /tmp/seedtry.$c.log 2>&1; rc=$?
  echo "== $c rc=$rc $(( $(date +%s)-s ))s"
  grep -E '^VIOLATION' /tmp/seedtry.$c.log | cut -c1-250 | head -5
  tail -n 1 /tmp/seedtry.$c.log | cut -c1-220
done
