#!/bin/bash
# maintenance: run every claimed check (quick) and print the summary lines;  ./tools/run_all.sh [--write-ledger]
cd "$(dirname "$0")/.."
for P in $(.venv/bin/python -c "import json;print(' '.join(c['property_id'] for c in json.load(open('MANIFEST.json'))['checks']))"); do
  s=$(date +%s)
  ./check $P "$@" > /tmp/runall_$P.log 2>&1
  rc=$?
  echo "$P rc=$rc $(( $(date +%s) - s ))s :: $(tail -n 1 /tmp/runall_$P.log | cut -c1-200)"
done
