"""Shared plumbing: known findings, task pool, verdicts, replay files, evidence files."""
from __future__ import annotations

import importlib
import json
import multiprocessing as mp
import os
import sys
import time
import traceback

ROOT = os.path.dirname(os.path.dirname(os.path.abspath(__file__)))
REPO = os.environ.get("VERIF_REPO", "/repo")
FINDINGS_FILE = os.path.join(ROOT, "known_findings.json")
# maintenance only (seeded-change campaigns against scratch worktrees): redirect evidence/replay output so that the committed
# evidence files, which must come from runs against /repo itself, are never overwritten by such a run
OUT = os.environ.get("VERIF_OUT") or ROOT

_findings = None


def load_findings():
    global _findings
    if _findings is None:
        try:
            data = json.load(open(FINDINGS_FILE))
        except FileNotFoundError:
            data = {"findings": [], "fixed": []}
        _findings = data
    return _findings


def active_findings():
    """id -> entry, for findings recorded (not repaired).  Read-only at run time."""
    return {f["id"]: f for f in load_findings().get("findings", [])}


def si_classes(obligation):
    """Input classes (feature conjunctions) excluded for a strided-interval obligation: entries of
    known_findings.json with 'obligation' == obligation and a 'classes' list."""
    out = []
    for f in load_findings().get("findings", []):
        if f.get("obligation") == obligation or obligation in f.get("obligations", []):
            for cl in f.get("classes", []):
                out.append({"finding": f["id"], "class": cl})
    for u in unproved_classes():
        if obligation in u.get("obligations", []):
            for cl in u.get("classes", []):
                out.append({"finding": "NOT-PROVED:" + u["id"], "class": cl})
    return out


_unproved = None


def unproved_classes():
    """Input classes on which an obligation is neither proved nor claimed to fail (vf/contracts/si_unproved_classes.json)."""
    global _unproved
    if _unproved is None:
        try:
            _unproved = json.load(open(os.path.join(ROOT, "vf", "contracts", "si_unproved_classes.json"))).get("classes", [])
        except FileNotFoundError:
            _unproved = []
    return _unproved


def findings_for(prop):
    return [f for f in load_findings().get("findings", []) if f["property"] == prop]


# ------------------------------------------------------------------------------------------------
# tasks

def task(mod, fn, id, props, kind="proof", replay=None, **kwargs):
    return {"mod": mod, "fn": fn, "id": id, "props": props, "kind": kind, "kwargs": kwargs, "replay": replay}


# factor applied to every time limit of an obligation that the ledger lists (it is known to complete as a proof on the unchanged
# tree); the probe run that motivated it was > 3.5 times slower on one such obligation than the run that wrote the ledger
LEDGER_BUDGET_SCALE = float(os.environ.get("VERIF_LEDGER_BUDGET_SCALE", "6") or 6)


def _run_task(t):
    t0 = time.time()
    try:
        from vf.engine import paths
        paths.BUDGET_SCALE = LEDGER_BUDGET_SCALE if t.get("ledger") else 1.0
        m = importlib.import_module(t["mod"])
        out = getattr(m, t["fn"])(**t["kwargs"])
        d = out if isinstance(out, dict) else out.as_dict()
    except Exception as e:  # engine crash: never a violation
        d = {"status": "error", "reason": f"{type(e).__name__}: {e}", "trace": traceback.format_exc()[-3000:]}
    d["id"] = t["id"]
    d["kind"] = t["kind"]
    d["task_wall_s"] = round(time.time() - t0, 3)
    try:
        from vf.engine import loader
        d["sources"] = dict(loader.SOURCES)
    except Exception:
        pass
    return d


def run_tasks(tasks, nproc=None, progress=True):
    nproc = nproc or int(os.environ.get("VERIF_JOBS", "16"))
    if not tasks:
        return []
    if nproc == 1 or len(tasks) == 1:
        return [_run_task(t) for t in tasks]
    ctx = mp.get_context("fork")
    res = []
    with ctx.Pool(min(nproc, len(tasks)), maxtasksperchild=8) as pool:
        for i, d in enumerate(pool.imap_unordered(_run_task, tasks, chunksize=1)):
            res.append(d)
            if progress and d.get("status") not in ("discharged", "ok"):
                print(f"  [{i+1}/{len(tasks)}] {d['id']}: {d.get('status')} {d.get('reason','')[:200]}", flush=True)
    order = {t["id"]: i for i, t in enumerate(tasks)}
    res.sort(key=lambda d: order.get(d["id"], 0))
    return res


# ------------------------------------------------------------------------------------------------
# replay files

def write_replay(prop, ob_id, payload):
    d = os.path.join(OUT, "replays", prop)
    os.makedirs(d, exist_ok=True)
    name = "".join(c if c.isalnum() or c in "._-" else "_" for c in ob_id)[:150] + ".json"
    p = os.path.join(d, name)
    with open(p, "w") as f:
        json.dump(payload, f, indent=1, default=str)
    return os.path.relpath(p, OUT)


def write_evidence(prop, tier, level, coverage, assumptions, wall_s, violations, seed=0):
    ev = {"property_id": prop, "tier": tier, "seed": seed, "level": level, "coverage": coverage,
          "assumptions": assumptions, "wall_s": round(wall_s, 2), "violations": violations}
    d = os.path.join(OUT, "evidence")
    os.makedirs(d, exist_ok=True)
    with open(os.path.join(d, f"{prop}.json"), "w") as f:
        json.dump(ev, f, indent=1, default=str)
    return ev
