"""./check <Cxx> [--tier quick|thorough] [--replay FILE] [--only SUBSTR] [-j N] [--write-ledger]

exit 0: every obligation generated from /repo's current source was discharged (bounded parts ran clean)
exit 1: VIOLATION property=<id> replay=<path>   (a failed obligation; counter-model replayed natively)
exit 2: undecided (solver unknown / budget / lost coverage) - never reported as a violation
exit 3: checker error
"""
from __future__ import annotations

import argparse
import importlib
import json
import os
import signal
import sys
import time
import traceback

from vf import common


def _call_replay(spec, *args, timeout=120):
    """spec 'module:function' -> dict(reproduced: bool, text: str).  Runs natively on real claripy."""
    mod, _, fn = spec.partition(":")

    def _alarm(*_):
        raise TimeoutError("replay timed out")
    old = signal.signal(signal.SIGALRM, _alarm)
    signal.alarm(timeout)
    try:
        m = importlib.import_module(mod)
        out = getattr(m, fn)(*args)
        return out
    except TimeoutError as e:
        return {"reproduced": False, "text": str(e)}
    except Exception as e:
        return {"reproduced": False, "text": "replay raised: " + "".join(traceback.format_exception_only(type(e), e)).strip(),
                "trace": traceback.format_exc()[-2000:]}
    finally:
        signal.alarm(0)
        signal.signal(signal.SIGALRM, old)


def main(argv=None):
    ap = argparse.ArgumentParser()
    ap.add_argument("prop")
    ap.add_argument("--tier", default=os.environ.get("VERIF_TIER", "quick"), choices=["quick", "thorough"])
    ap.add_argument("--replay")
    ap.add_argument("--only")
    ap.add_argument("-j", type=int, default=None)
    ap.add_argument("--write-ledger", action="store_true")
    ap.add_argument("--list", action="store_true")
    a = ap.parse_args(argv)
    seed = int(os.environ.get("VERIF_SEED", "0") or 0)
    t0 = time.time()
    try:
        P = importlib.import_module(f"vf.props.{a.prop}")
    except ModuleNotFoundError:
        print(f"no check for property {a.prop}")
        return 3

    if a.replay:
        payload = json.load(open(a.replay if os.path.isabs(a.replay) else os.path.join(common.ROOT, a.replay)))
        spec = payload.get("replay_spec")
        if not spec:
            print("replay file carries no native reproducer; verifier output follows")
            print(json.dumps(payload.get("failure"), indent=1))
            return 1
        out = _call_replay(spec, payload["task"], payload["failure"])
        print(json.dumps(out, indent=1, default=str))
        if out.get("reproduced"):
            print(f"VIOLATION property={a.prop} replay={a.replay}")
            return 1
        return 0

    tasks = P.tasks(a.tier, seed)
    from vf.contracts import purity
    tasks = tasks + [t for t in purity.tasks_for(a.prop) if t["id"] not in {x["id"] for x in tasks}]      # frame: no hidden state in the modules this property's contracts quantify over
    if a.only:
        tasks = [t for t in tasks if a.only in t["id"]]
        if not os.environ.get("VERIF_OUT"):
            # a partial run (maintenance) must not overwrite the evidence / replay files of the registered full check
            import tempfile
            common.OUT = tempfile.mkdtemp(prefix="vf_only_")
            print(f"[--only] evidence and replay files of this partial run go to {common.OUT}")
    if a.list:
        for t in tasks:
            print(t["id"], t["kind"])
        return 0
    ids = [t["id"] for t in tasks]
    assert len(ids) == len(set(ids)), "duplicate obligation ids"
    bytask = {t["id"]: t for t in tasks}
    print(f"[{a.prop}] tier={a.tier} tasks={len(tasks)}", flush=True)

    # ---- ledger: obligations that are discharged on the unchanged tree must still be generated
    ledger_path = os.path.join(common.ROOT, "vf", "ledger.json")
    try:
        ledger = json.load(open(ledger_path))
    except FileNotFoundError:
        ledger = {}
    key = f"{a.prop}/{a.tier}"
    # a ledger obligation has to be decided on every run, so the speed of the machine must not decide it: its time limits are
    # multiplied by common.LEDGER_BUDGET_SCALE (see vf/engine/paths.py BUDGET_SCALE).  Obligations outside the ledger keep the plain
    # budget: running out of it is reported as partial / NOT-DECIDED, never as an alarm.
    in_ledger = set(ledger.get(key, []))
    for t in tasks:
        t["ledger"] = t["id"] in in_ledger
    results = common.run_tasks(tasks, a.j)
    lost = []
    if not a.only and key in ledger:
        lost = [i for i in ledger[key] if i not in bytask]
        # an obligation that is a proof in the ledger must still complete as a proof
        for r in results:
            if r["id"] in ledger[key] and r.get("status") == "partial":
                r["status"] = "undecided"
                r["reason"] = "ledger obligation no longer completes within its budget: " + str(r.get("reason"))

    violations, undecided, errors, partial, unproved = [], [], [], [], []
    n_proof = n_disch = n_bounded = 0
    evals = distinct = 0
    by_solver_s = 0.0
    paths = vcs = 0
    samples = []
    ext_vcs = {}
    known_used = set()
    sources = {}
    for r in results:
        t = bytask[r["id"]]
        sources.update(r.get("sources", {}))
        known_used |= set(r.get("known_used", []))
        st = r.get("status")
        if t["kind"] == "proof" and st == "unproved":
            unproved.append({"obligation": r["id"], "paths_explored": r.get("paths", 0), "reason": r.get("reason"),
                             "sample": (r.get("spurious") or [{}])[0].get("replay")})
            if r["id"] in ledger.get(key, []) and not a.only:
                # it WAS a proof on the unchanged tree and now fails: report, although no input reproduces
                f = (r.get("spurious") or [{}])[0]
                payload = {"property": a.prop, "obligation": r["id"], "failed_clause": f.get("label"), "failure": f,
                           "task": t, "replay_spec": t.get("replay"), "native_replay": f.get("replay"),
                           "verifier_output": {k: r.get(k) for k in ("status", "paths", "vcs", "reason", "n_spurious")}}
                path = common.write_replay(a.prop, r["id"] + "__" + str(f.get("label", "")), payload)
                violations.append((r["id"], f, {"reproduced": False, "text": (f.get("replay") or {}).get("text")}, path))
            continue
        if t["kind"] == "proof" and st == "partial":
            # exploration hit its budget without a failure: a bounded result, never counted as proved
            partial.append({"obligation": r["id"], "paths_explored": r.get("paths", 0), "vcs_discharged": r.get("vcs", 0),
                            "reason": r.get("reason")})
            evals += r.get("paths", 0)
            distinct += r.get("paths", 0)
            continue
        if t["kind"] == "proof":
            n_proof += 1
            paths += r.get("paths", 0)
            vcs += r.get("vcs", 0)
            by_solver_s += r.get("solver_s", 0)
            for k, v in (r.get("ext_discharged") or {}).items():
                ext_vcs[k] = ext_vcs.get(k, 0) + v
            if st == "discharged":
                n_disch += 1
        else:
            n_bounded += 1
            evals += r.get("evaluations", 0)
            distinct += r.get("distinct_nontrivial", 0)
        if len(samples) < 6 and (r.get("samples") or r.get("failures")):
            samples.append({"obligation": r["id"], "status": st, "paths": r.get("paths"), "vcs": r.get("vcs"),
                            "sample": (r.get("samples") or r.get("failures"))[:1]})
        if st in ("discharged", "ok"):
            continue
        if st == "violated":
            for f in (r.get("failures") or [{}])[:3]:
                rep = f.get("replay") or {"reproduced": False, "text": "no native reproducer for this obligation"}
                if t.get("replay") and not f.get("replay"):
                    rep = _call_replay(t["replay"], t, f)
                payload = {"property": a.prop, "obligation": r["id"], "failed_clause": f.get("label"),
                           "failure": f, "task": t, "replay_spec": t.get("replay"), "native_replay": rep,
                           "verifier_output": {k: r.get(k) for k in ("status", "paths", "vcs", "reason", "n_failures")}}
                path = common.write_replay(a.prop, r["id"] + "__" + str(f.get("label", "")), payload)
                violations.append((r["id"], f, rep, path))
        elif st == "undecided":
            undecided.append(r)
        else:
            errors.append(r)

    # ---- known findings (read-only): replay each listed witness natively
    kf_lines = []
    for f in common.findings_for(a.prop):
        spec = f.get("replay")
        still = None
        if spec:
            out = _call_replay(spec, f)
            still = bool(out.get("reproduced"))
            f["_replay_text"] = out.get("text")
        if still is False:
            print(f"NOTE: listed finding {f['id']} no longer reproduces natively: {f.get('_replay_text')}")
        else:
            line = f"KNOWN-FINDING: property={a.prop} {f['id']}: {f['what']}"
            kf_lines.append(line)
            print(line)

    rc = 0
    for (oid, f, rep, path) in violations:
        tail = "" if rep.get("reproduced") else " no-failing-input-found"
        print(f"  obligation {oid} clause {f.get('label')} FAILED; witness {json.dumps(f.get('witness'), default=str)[:400]}")
        print(f"  native replay: {str(rep.get('text'))[:400]}")
        print(f"VIOLATION property={a.prop} replay={path}{tail}")
        rc = 1
    # an obligation that ran out of its time / solver budget and that the ledger does not list (it has never been established on the
    # unchanged tree within budget: an attempt beyond the guaranteed set, e.g. the larger widths of the thorough tier) is reported as
    # not decided and listed in the evidence; it is not proved, and it does not make the check fail.  Every ledger obligation must be decided.
    RES = ("time budget", "exceeded its time budget", "solver unknown", "path budget", "timeout")
    soft = [r for r in undecided if any(k in str(r.get("reason")) for k in RES)
            and (a.write_ledger or (key in ledger and r["id"] not in ledger[key])) and not a.only]
    undecided = [r for r in undecided if r not in soft]
    n_proof -= sum(1 for r in soft if bytask[r["id"]]["kind"] == "proof")       # not an obligation this run claims anything about
    for r in soft:
        print(f"NOT-DECIDED (outside the ledger, not counted as proved) obligation={r['id']} reason={r.get('reason')}")
    for r in undecided:
        print(f"UNDECIDED obligation={r['id']} reason={r.get('reason')}")
    for i in lost:
        print(f"UNDECIDED obligation={i} reason=obligation of the ledger was not generated (function moved or renamed?)")
    for r in errors:
        print(f"CHECKER-ERROR obligation={r['id']} {r.get('reason')}\n{r.get('trace','')}")
    if rc == 0 and (undecided or lost):
        rc = 2
    if rc == 0 and errors:
        rc = 3

    if a.write_ledger and rc == 0 and not a.only:
        # only obligations that finish well inside their budget are *required* to stay proofs (so that a
        # busy machine cannot flip the verdict); slower ones are still reported when they complete
        lim = 45 if a.tier == "quick" else 600
        ledger[key] = sorted(r["id"] for r in results if r.get("status") in ("discharged", "ok") and r.get("task_wall_s", 0) <= lim)
        print(f"ledger written: {len(ledger[key])} obligations")
        json.dump(ledger, open(ledger_path, "w"), indent=0, sort_keys=True)

    wall = time.time() - t0
    cov = {
        "obligations": n_proof, "discharged": n_disch,
        "checker_cmd": f"./check {a.prop} --tier {a.tier}",
        "trusted_base": list(getattr(P, "TRUSTED", [])),
        "paths": paths, "verification_conditions": vcs, "solver_s": round(by_solver_s, 2),
        "by_backend": {"z3-4.13 (python API), obligations": n_disch, "VCs z3 4.13 left open that were discharged by": ext_vcs},
        "bounded_tasks": n_bounded, "evaluations": evals, "distinct_nontrivial": distinct,
        "time_limits": (f"obligations of the ledger (vf/ledger.json, {len(in_ledger)} for this check) run with every time limit x{common.LEDGER_BUDGET_SCALE:g}; "
                        "others with the plain limit, and running out of it is partial / not decided, never a violation"),
        "rule": getattr(P, "RULE", ""),
        "explanation": getattr(P, "EXPLANATION", ""),
        "undecided": len(undecided) + len(lost), "checker_errors": len(errors),
        "not_decided_within_budget_outside_ledger": [{"obligation": r["id"], "reason": r.get("reason")} for r in soft],
        "partial_explorations_bounded_not_proved": partial,
        "unproved_contract_too_weak": unproved,
        "functions_under_contract": sorted(getattr(P, "FUNCTIONS", [])),
        "source_sha256": sources,
        "known_findings_matched": kf_lines, "known_exclusions_used": sorted(known_used),
        "samples": samples or [{"note": "no samples"}],
        "tasks": [{"id": r["id"], "kind": r["kind"], "status": r.get("status"), "paths": r.get("paths"),
                   "vcs": r.get("vcs"), "wall_s": r.get("task_wall_s"),
                   **({"budget_s": r["budget_s"], "slowest_solver_query_s": r.get("max_check_s"), "solver_unknowns": r.get("n_unknown")}
                      if r.get("budget_s") else {})} for r in results],
    }
    if not cov["evaluations"]:
        cov.pop("evaluations"); cov.pop("distinct_nontrivial")
    assumptions = list(getattr(P, "ASSUMPTIONS", []))
    for u in common.unproved_classes():
        if "NOT-PROVED:" + u["id"] in known_used:
            assumptions.append(f"NOT PROVED (excluded, not a finding) for obligations {u['obligations']} on input classes {u['classes']}: {u['why']}")
    common.write_evidence(a.prop, a.tier, P.LEVEL, cov, assumptions, wall,
                          len(violations), seed)
    print(f"[{a.prop}] proof obligations {n_disch}/{n_proof} discharged, partial (bounded) {len(partial)}, unproved {len(unproved)}, bounded tasks {n_bounded}, "
          f"violations {len(violations)}, undecided {len(undecided)+len(lost)}, errors {len(errors)}, {wall:.1f}s -> exit {rc}")
    return rc


if __name__ == "__main__":
    sys.exit(main())
