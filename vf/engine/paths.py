"""pyvc path explorer: depth-first enumeration of the feasible paths of a real Python function
body executed under CPython with symbolic proxies (see DESIGN.md 1.2).

A *run* executes `body(ctx)` once, following a decision prefix and extending it by
first-feasible choices.  After the run, the last decision with an unexplored alternative is
flipped.  Enumeration is complete or the obligation is undecided (budget, unknown).
"""
from __future__ import annotations

import time
import z3

CUR = None  # the Ctx of the run in progress (proxies reach it through cur())

# Time limits are the only part of a verdict that depends on the machine.  An obligation of the ledger (vf/ledger.json: it completed as a
# proof on the unchanged tree well inside its budget) gets every time limit - exploration budget, per-path alarm, per-query solver timeout -
# multiplied by this factor (set per task by common._run_task), so that a slower or busier machine cannot turn an established proof into
# "undecided".  The limits bound patience, not the claim: nothing is proved or refuted by a limit, whatever its size.
BUDGET_SCALE = 1.0


def scaled(seconds):
    return seconds * BUDGET_SCALE


def cur():
    if CUR is None:
        raise RuntimeError("symbolic proxy used outside an exploration")
    return CUR


class PathEnd(Exception):
    """Raised to end the current path silently (infeasible after an assumption)."""


class Undecided(Exception):
    """The engine cannot decide this obligation (budget, unsupported feature, solver unknown)."""


class Unsupported(Undecided):
    pass


class Partial(Exception):
    pass


class Failure:
    __slots__ = ("label", "kind", "model", "detail", "path", "replay")

    def __init__(self, label, kind, model, detail, path):
        self.label, self.kind, self.model, self.detail, self.path = label, kind, model, detail, path
        self.replay = None     # native replay outcome, when the obligation has a reproducer

    def as_dict(self):
        return {"label": self.label, "kind": self.kind, "witness": self.model, "detail": self.detail,
                "path": self.path, "replay": self.replay}


class Ctx:
    def __init__(self, prefix, opts, solver=None, keep=0):
        """solver/keep: incremental mode - `solver` still holds scopes 0..keep-1 of the previous run
        (scope i = everything assumed after decision i-1 and before decision i, plus decision i-1's
        alternative); re-execution is deterministic, so while fewer than `keep` decisions have been
        replayed the assumptions are already in the solver and are not added again."""
        self.opts = opts
        if solver is None:
            solver = z3.Solver()
            solver.set("timeout", int(scaled(opts.get("timeout_ms", 10000))))
            keep = 0
        self.solver = solver
        self.keep = keep
        self.prefix = prefix
        self.pos = 0
        self.decisions = []       # [choice, remaining alternatives, n_total]
        self.adequacy = []        # (z3 bool, text) conditions under which the IW-bit model is exact
        self.watch = {}           # name -> z3 term, evaluated in counter-models
        self.failures = []
        self.spurious = []
        self.n_checks = 0
        self.n_vcs = 0
        self.solver_s = 0.0
        self.max_check_s = 0.0
        self.n_unknown = 0
        self.notes = []
        self.ghost = {}           # free-form per-path ghost state for contracts
        self.unknown_seen = False
        self.known_used = set()
        self.ext_discharged = {}
        self.describers = []      # callables(model) -> dict, merged into counter-model witnesses
        self.prefer = []          # z3 Bools we would like true in counter-models (better replays)

    # --- solver helpers -------------------------------------------------------------------
    def _check(self, *extra):
        t = time.perf_counter()
        self.solver.push()
        try:
            for e in extra:
                self.solver.add(e)
            r = self.solver.check()
            m = self.solver.model() if r == z3.sat else None
            if r == z3.unknown:
                self.n_unknown += 1
        finally:
            self.solver.pop()
            dt = time.perf_counter() - t
            self.solver_s += dt
            if dt > self.max_check_s:
                self.max_check_s = dt
            self.n_checks += 1
        return r, m

    def _add(self, c):
        if len(self.decisions) < self.keep:
            return      # replaying a scope that the incremental solver still holds
        self.solver.add(c)

    def assume(self, c):
        if isinstance(c, bool):
            if not c:
                raise PathEnd()
            return
        self._add(c)

    def feasible(self, c):
        r, _ = self._check(c)
        if r == z3.unknown:
            self.unknown_seen = True
            return True
        return r == z3.sat

    def path_feasible(self):
        r, _ = self._check()
        return r != z3.unsat

    # --- decisions ------------------------------------------------------------------------
    def choose(self, alts, label=""):
        """alts: list of z3 conditions (or True).  Returns the index of the alternative taken; the
        alternative's condition is added to the path condition.  Alternatives must be exhaustive
        under the path condition (the caller's responsibility; `branch` passes c and Not(c))."""
        if self.pos < len(self.prefix):
            d = self.prefix[self.pos]
            self.pos += 1
            i = d[0]
            if len(self.decisions) >= self.keep:
                self.solver.push()
                self.decisions.append(d)
                if alts[i] is not True:
                    self.solver.add(alts[i])
            else:
                self.decisions.append(d)
            return i
        feas = []
        for i, a in enumerate(alts):
            if a is True or self.feasible(a):
                feas.append(i)
        if not feas:
            raise PathEnd()
        i = feas[0]
        d = [i, feas[1:], len(alts), label]
        self.decisions.append(d)
        self.pos += 1
        if len(self.decisions) > self.opts.get("max_depth", 400):
            raise Undecided("decision depth budget exceeded")
        self.solver.push()
        if alts[i] is not True:
            self.solver.add(alts[i])
        return i

    def branch(self, cond, label=""):
        if isinstance(cond, bool):
            return cond
        cond = z3.simplify(cond)
        if z3.is_true(cond):
            return True
        if z3.is_false(cond):
            return False
        return self.choose([cond, z3.Not(cond)], label) == 0

    # --- obligations ----------------------------------------------------------------------
    def model_dict(self, m):
        out = {}
        for k, t in self.watch.items():
            try:
                v = m.eval(t, model_completion=True)
                if z3.is_bv_value(v):
                    out[k] = v.as_long()
                elif z3.is_true(v) or z3.is_false(v):
                    out[k] = z3.is_true(v)
                elif z3.is_int_value(v):
                    out[k] = v.as_long()
                else:
                    out[k] = str(v)
            except Exception as e:  # pragma: no cover
                out[k] = f"<{e}>"
        for fn in self.describers:
            try:
                out.update(fn(m))
            except Exception as e:  # pragma: no cover
                out["describe_error"] = repr(e)
        return out

    def path_desc(self):
        return [(d[3] or "?") + "=" + str(d[0]) for d in self.decisions][-40:]

    def check_adequacy(self):
        """The integer model is exact only if every recorded adequacy condition holds."""
        if not self.adequacy:
            return
        conds = [c for c, _ in self.adequacy]
        self.n_vcs += 1
        r, m = self._check(z3.Not(z3.And(*conds)) if len(conds) > 1 else z3.Not(conds[0]))
        if r == z3.unsat:
            self.adequacy = []
            return
        if r == z3.unknown:
            raise Undecided("adequacy check unknown")
        which = [t for c, t in self.adequacy if z3.is_false(m.eval(c, model_completion=True))]
        if self.opts.get("size_obligation"):
            self.failures.append(Failure(self.opts["size_obligation"], "size", self.model_dict(m),
                                         "integer exceeds modelled size: " + "; ".join(which[:3]), self.path_desc()))
            self.solver.add(z3.And(*conds))
            self.adequacy = []
            if not self.path_feasible():
                raise PathEnd()
            return
        raise Undecided("integer model width too small: " + "; ".join(which[:3]) + " " + str(self.model_dict(m)))

    def check(self, label, cond, detail="", kind="ensures"):
        """Proof obligation `pc => cond`."""
        self.check_adequacy()
        self.n_vcs += 1
        if isinstance(cond, bool):
            if cond:
                return True
            r, m = self._check()
            if r == z3.unsat:
                return True
        else:
            r, m = self._check(z3.Not(cond))
        if r == z3.unsat:
            return True
        if r == z3.unknown:
            why = self.solver.reason_unknown()
            alt = self._external(cond)
            if alt == "unsat":
                return True
            raise Undecided(f"solver unknown on {label}: {why}; external solvers: {alt}")
        if self.prefer:
            m = self._preferred_model(cond, m)
        f = Failure(label, kind, self.model_dict(m), detail, self.path_desc())
        rp = self.opts.get("replay")
        if rp is not None:
            # replay the counter-model on the real, unmodified code right away: a counter-model that does
            # not reproduce comes from an over-approximating callee contract - the obligation is then
            # *unproved* (never counted as discharged), not violated, and exploration goes on
            try:
                _arm(0)
                f.replay = rp(f.as_dict())
            except Exception as e:  # noqa
                f.replay = {"reproduced": False, "text": f"replay raised {type(e).__name__}: {e}"}
            finally:
                _arm(scaled(self.opts.get("path_budget_s", 120)))
            if not f.replay.get("reproduced"):
                self.spurious.append(f)
                raise PathEnd()
        self.failures.append(f)
        if self.opts.get("stop_at_first_failure", True):
            raise PathEnd()
        if not isinstance(cond, bool):
            self.solver.add(cond)
        return False

    def _external(self, cond):
        """z3 4.13 left the VC open: hand the same query (SMT-LIB 2) to z3 5.1 and cvc5.  Only an `unsat`
        answer is used (the VC is then discharged by that back end); anything else stays undecided."""
        import subprocess, tempfile, os
        self.solver.push()
        try:
            if not isinstance(cond, bool):
                self.solver.add(z3.Not(cond))
            smt = self.solver.to_smt2()
        finally:
            self.solver.pop()
        t = int(scaled(self.opts.get("external_timeout_s", 60)))
        with tempfile.NamedTemporaryFile("w", suffix=".smt2", delete=False, dir=os.environ.get("TMPDIR", "/tmp")) as f:
            f.write(smt)
            path = f.name
        out = []
        try:
            for name, cmd in (("z3-5.1", ["z3-new", f"-T:{t}", path]), ("cvc5", ["/usr/bin/cvc5", f"--tlimit={t * 1000}", path])):
                try:
                    r = subprocess.run(cmd, capture_output=True, text=True, timeout=t + 10).stdout.strip().splitlines()
                    ans = r[0] if r else "?"
                except Exception as e:  # noqa
                    ans = type(e).__name__
                out.append(f"{name}:{ans}")
                if ans == "unsat":
                    self.ext_discharged[name] = self.ext_discharged.get(name, 0) + 1
                    return "unsat"
        finally:
            os.unlink(path)
        return ",".join(out)

    def _preferred_model(self, cond, m):
        """A counter-model that makes as many of the preferred Booleans true as possible (greedy)."""
        self.solver.push()
        try:
            if not isinstance(cond, bool):
                self.solver.add(z3.Not(cond))
            for p in self.prefer[:40]:
                if z3.is_true(m.eval(p, model_completion=True)):
                    self.solver.add(p)
                    continue
                self.solver.push()
                self.solver.add(p)
                if self.solver.check() == z3.sat:
                    m = self.solver.model()
                    self.solver.pop()
                    self.solver.add(p)
                else:
                    self.solver.pop()
            return m
        finally:
            self.solver.pop()

    def fail(self, label, detail="", kind="raises"):
        """The path itself is a violation (e.g. a forbidden exception on a feasible path)."""
        return self.check(label, False, detail, kind)

    def known(self, finding_id, pred):
        """Exclude the input class of a *listed* known finding (known_findings.json); a finding that
        is not listed excludes nothing."""
        from vf import common
        if finding_id in common.active_findings() or (
                finding_id.startswith("NOT-PROVED:") and finding_id[11:] in {u["id"] for u in common.unproved_classes()}):
            self.known_used.add(finding_id)
            self.assume(z3.Not(pred) if not isinstance(pred, bool) else (not pred))
            if not self.path_feasible():
                raise PathEnd()


class Result:
    def __init__(self):
        self.paths = 0
        self.vcs = 0
        self.checks = 0
        self.solver_s = 0.0
        self.max_check_s = 0.0     # slowest single solver query (margin to the per-query timeout)
        self.n_unknown = 0         # solver queries answered `unknown` (treated as feasible / handed to the external solvers)
        self.budget_s = 0.0
        self.wall_s = 0.0
        self.failures = []
        self.status = "discharged"   # discharged | violated | undecided | error
        self.reason = ""
        self.covers = {}
        self.known_used = set()
        self.samples = []
        self.spurious = []
        self.ext_discharged = {}

    def as_dict(self):
        return {"status": self.status, "paths": self.paths, "vcs": self.vcs, "solver_checks": self.checks,
                "solver_s": round(self.solver_s, 3), "wall_s": round(self.wall_s, 3), "reason": self.reason,
                "budget_s": round(self.budget_s, 1), "max_check_s": round(self.max_check_s, 3), "n_unknown": self.n_unknown,
                "failures": [f.as_dict() for f in self.failures[:5]], "n_failures": len(self.failures),
                "covers": self.covers, "known_used": sorted(self.known_used), "samples": self.samples[:2],
                "ext_discharged": self.ext_discharged, "n_spurious": len(self.spurious), "spurious": [f.as_dict() for f in self.spurious[:3]]}


def _on_alarm(*_):
    raise Undecided("a single path exceeded its time budget (loop in the code under verification?) " + " ".join(CUR.path_desc()[-6:] if CUR else []))


def _arm(seconds):
    import signal
    import threading
    if threading.current_thread() is not threading.main_thread():
        return
    signal.signal(signal.SIGALRM, _on_alarm)
    signal.setitimer(signal.ITIMER_REAL, seconds)


def explore(body, opts=None):
    """Run `body(ctx)` along every feasible path.  body returns an optional cover label (str or
    list of str) naming what the path exercised."""
    global CUR
    opts = dict(opts or {})
    max_paths = opts.get("max_paths", 20000)
    max_fail = opts.get("max_failures", 3)
    budget_s = scaled(opts.get("budget_s", 600))
    deadline = time.time() + budget_s
    res = Result()
    res.budget_s = budget_s
    t0 = time.time()
    prefix = []
    solver, keep = None, 0
    try:
        while True:
            ctx = Ctx(prefix, opts, solver, keep)
            solver = ctx.solver
            CUR = ctx
            _arm(scaled(opts.get("path_budget_s", 120)))
            try:
                cov = body(ctx)
                ctx.check_adequacy()
                for c in ([cov] if isinstance(cov, str) else (cov or [])):
                    res.covers[c] = res.covers.get(c, 0) + 1
                if len(res.samples) < 2:
                    res.samples.append({"path": ctx.path_desc(), "vcs": ctx.n_vcs, "cover": cov})
            except PathEnd:
                pass
            finally:
                _arm(0)
                CUR = None
            res.paths += 1
            res.vcs += ctx.n_vcs
            res.checks += ctx.n_checks
            res.solver_s += ctx.solver_s
            res.max_check_s = max(res.max_check_s, ctx.max_check_s)
            res.n_unknown += ctx.n_unknown
            res.failures.extend(ctx.failures)
            if len(res.spurious) < 50:
                res.spurious.extend(ctx.spurious)
            elif ctx.spurious:
                res.spurious.append(ctx.spurious[0])
                res.spurious = res.spurious[:3] + res.spurious[-40:]
            res.known_used |= ctx.known_used
            for k, v in ctx.ext_discharged.items():
                res.ext_discharged[k] = res.ext_discharged.get(k, 0) + v
            if len(res.failures) >= max_fail:
                break
            dec = ctx.decisions
            while dec and not dec[-1][1]:
                dec.pop()
            if not dec:
                break
            last = dec[-1]
            dec[-1] = [last[1][0], last[1][1:]] + list(last[2:])
            prefix = dec
            # incremental solver: drop the scopes of the flipped decision and everything after it
            nscopes = solver.num_scopes()
            keep = len(dec) - 1
            if nscopes > keep:
                solver.pop(nscopes - keep)
            elif nscopes < keep:   # cannot happen; fall back to a fresh solver
                solver, keep = None, 0
            if res.paths >= max_paths:
                raise Partial(f"path budget {max_paths} exhausted")
            if time.time() > deadline:
                raise Partial(f"time budget {budget_s:g} s exhausted")
    except Partial as e:
        # exploration incomplete: what was explored is a *bounded* result, never counted as proved
        res.status = "partial"
        res.reason = str(e)
        CUR = None
    except Undecided as e:
        res.status = "undecided"
        res.reason = str(e)
        CUR = None
    if res.failures:
        res.status = "violated"
    elif res.spurious and res.status in ("discharged", "partial"):
        res.status = "unproved"
        res.reason = (f"{len(res.spurious)} counter-model(s) that do not reproduce on the real code "
                      "(a callee contract over-approximates); not counted as discharged")
    elif res.status in ("discharged", "partial") and (res.paths == 0 or res.vcs == 0):
        res.status = "undecided"
        res.reason = "vacuous: zero paths or zero verification conditions"
    res.wall_s = time.time() - t0
    return res
