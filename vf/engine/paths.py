"""pyvc path explorer: depth-first enumeration of the feasible paths of a real Python function
body executed under CPython with symbolic proxies (see DESIGN.md 1.2).

A *run* executes `body(ctx)` once, following a decision prefix and extending it by
first-feasible choices.  After the run, the last decision with an unexplored alternative is
flipped.  Enumeration is complete or the obligation is undecided (budget, unknown).
"""
from __future__ import annotations

import time
import z3

CUR = None  # the Ctx of the run in progress (proxies reach it through cur())


def cur():
    if CUR is None:
        raise RuntimeError("symbolic proxy used outside an exploration")
    return CUR


class PathEnd(Exception):
    """Raised to end the current path silently (infeasible after an assumption)."""


class Undecided(Exception):
    """The engine cannot decide this obligation (budget, unsupported feature, solver unknown)."""


class Unsupported(Undecided):
    pass


class Failure:
    __slots__ = ("label", "kind", "model", "detail", "path")

    def __init__(self, label, kind, model, detail, path):
        self.label, self.kind, self.model, self.detail, self.path = label, kind, model, detail, path

    def as_dict(self):
        return {"label": self.label, "kind": self.kind, "witness": self.model, "detail": self.detail,
                "path": self.path}


class Ctx:
    def __init__(self, prefix, opts):
        self.opts = opts
        self.solver = z3.Solver()
        self.solver.set("timeout", opts.get("timeout_ms", 10000))
        self.prefix = prefix
        self.pos = 0
        self.decisions = []       # [choice, remaining alternatives, n_total]
        self.adequacy = []        # (z3 bool, text) conditions under which the IW-bit model is exact
        self.watch = {}           # name -> z3 term, evaluated in counter-models
        self.failures = []
        self.n_checks = 0
        self.n_vcs = 0
        self.solver_s = 0.0
        self.notes = []
        self.ghost = {}           # free-form per-path ghost state for contracts
        self.unknown_seen = False
        self.known_used = set()

    # --- solver helpers -------------------------------------------------------------------
    def _check(self, *extra):
        t = time.perf_counter()
        self.solver.push()
        try:
            for e in extra:
                self.solver.add(e)
            r = self.solver.check()
            m = self.solver.model() if r == z3.sat else None
        finally:
            self.solver.pop()
            self.solver_s += time.perf_counter() - t
            self.n_checks += 1
        return r, m

    def assume(self, c):
        if isinstance(c, bool):
            if not c:
                raise PathEnd()
            return
        self.solver.add(c)

    def feasible(self, c):
        r, _ = self._check(c)
        if r == z3.unknown:
            self.unknown_seen = True
            return True
        return r == z3.sat

    def path_feasible(self):
        r, _ = self._check()
        return r != z3.unsat

    # --- decisions ------------------------------------------------------------------------
    def choose(self, alts, label=""):
        """alts: list of z3 conditions (or True).  Returns the index of the alternative taken; the
        alternative's condition is added to the path condition.  Alternatives must be exhaustive
        under the path condition (the caller's responsibility; `branch` passes c and Not(c))."""
        if self.pos < len(self.prefix):
            d = self.prefix[self.pos]
            self.pos += 1
            self.decisions.append(d)
            i = d[0]
            if alts[i] is not True:
                self.solver.add(alts[i])
            return i
        feas = []
        for i, a in enumerate(alts):
            if a is True or self.feasible(a):
                feas.append(i)
        if not feas:
            raise PathEnd()
        i = feas[0]
        d = [i, feas[1:], len(alts), label]
        self.decisions.append(d)
        self.pos += 1
        if len(self.decisions) > self.opts.get("max_depth", 400):
            raise Undecided("decision depth budget exceeded")
        if alts[i] is not True:
            self.solver.add(alts[i])
        return i

    def branch(self, cond, label=""):
        if isinstance(cond, bool):
            return cond
        cond = z3.simplify(cond)
        if z3.is_true(cond):
            return True
        if z3.is_false(cond):
            return False
        return self.choose([cond, z3.Not(cond)], label) == 0

    # --- obligations ----------------------------------------------------------------------
    def model_dict(self, m):
        out = {}
        for k, t in self.watch.items():
            try:
                v = m.eval(t, model_completion=True)
                if z3.is_bv_value(v):
                    out[k] = v.as_long()
                elif z3.is_true(v) or z3.is_false(v):
                    out[k] = z3.is_true(v)
                elif z3.is_int_value(v):
                    out[k] = v.as_long()
                else:
                    out[k] = str(v)
            except Exception as e:  # pragma: no cover
                out[k] = f"<{e}>"
        return out

    def path_desc(self):
        return [(d[3] or "?") + "=" + str(d[0]) for d in self.decisions][-40:]

    def check_adequacy(self):
        """The integer model is exact only if every recorded adequacy condition holds."""
        if not self.adequacy:
            return
        conds = [c for c, _ in self.adequacy]
        self.n_vcs += 1
        r, m = self._check(z3.Not(z3.And(*conds)) if len(conds) > 1 else z3.Not(conds[0]))
        if r == z3.unsat:
            self.adequacy = []
            return
        if r == z3.unknown:
            raise Undecided("adequacy check unknown")
        which = [t for c, t in self.adequacy if z3.is_false(m.eval(c, model_completion=True))]
        if self.opts.get("size_obligation"):
            self.failures.append(Failure(self.opts["size_obligation"], "size", self.model_dict(m),
                                         "integer exceeds modelled size: " + "; ".join(which[:3]), self.path_desc()))
            self.solver.add(z3.And(*conds))
            self.adequacy = []
            if not self.path_feasible():
                raise PathEnd()
            return
        raise Undecided("integer model width too small: " + "; ".join(which[:3]) + " " + str(self.model_dict(m)))

    def check(self, label, cond, detail="", kind="ensures"):
        """Proof obligation `pc => cond`."""
        self.check_adequacy()
        self.n_vcs += 1
        if isinstance(cond, bool):
            if cond:
                return True
            r, m = self._check()
            if r == z3.unsat:
                return True
        else:
            r, m = self._check(z3.Not(cond))
        if r == z3.unsat:
            return True
        if r == z3.unknown:
            raise Undecided(f"solver unknown on {label}: {self.solver.reason_unknown()}")
        self.failures.append(Failure(label, kind, self.model_dict(m), detail, self.path_desc()))
        if self.opts.get("stop_at_first_failure", True):
            raise PathEnd()
        if not isinstance(cond, bool):
            self.solver.add(cond)
        return False

    def fail(self, label, detail="", kind="raises"):
        """The path itself is a violation (e.g. a forbidden exception on a feasible path)."""
        return self.check(label, False, detail, kind)

    def known(self, finding_id, pred):
        """Exclude the input class of a *listed* known finding (known_findings.json); a finding that
        is not listed excludes nothing."""
        from vf import common
        if finding_id in common.active_findings():
            self.known_used.add(finding_id)
            self.assume(z3.Not(pred) if not isinstance(pred, bool) else (not pred))
            if not self.path_feasible():
                raise PathEnd()


class Result:
    def __init__(self):
        self.paths = 0
        self.vcs = 0
        self.checks = 0
        self.solver_s = 0.0
        self.wall_s = 0.0
        self.failures = []
        self.status = "discharged"   # discharged | violated | undecided | error
        self.reason = ""
        self.covers = {}
        self.known_used = set()
        self.samples = []

    def as_dict(self):
        return {"status": self.status, "paths": self.paths, "vcs": self.vcs, "solver_checks": self.checks,
                "solver_s": round(self.solver_s, 3), "wall_s": round(self.wall_s, 3), "reason": self.reason,
                "failures": [f.as_dict() for f in self.failures[:5]], "n_failures": len(self.failures),
                "covers": self.covers, "known_used": sorted(self.known_used), "samples": self.samples[:2]}


def explore(body, opts=None):
    """Run `body(ctx)` along every feasible path.  body returns an optional cover label (str or
    list of str) naming what the path exercised."""
    global CUR
    opts = dict(opts or {})
    max_paths = opts.get("max_paths", 20000)
    max_fail = opts.get("max_failures", 3)
    deadline = time.time() + opts.get("budget_s", 600)
    res = Result()
    t0 = time.time()
    prefix = []
    try:
        while True:
            ctx = Ctx(prefix, opts)
            CUR = ctx
            try:
                cov = body(ctx)
                ctx.check_adequacy()
                for c in ([cov] if isinstance(cov, str) else (cov or [])):
                    res.covers[c] = res.covers.get(c, 0) + 1
                if len(res.samples) < 2:
                    res.samples.append({"path": ctx.path_desc(), "vcs": ctx.n_vcs, "cover": cov})
            except PathEnd:
                pass
            finally:
                CUR = None
            res.paths += 1
            res.vcs += ctx.n_vcs
            res.checks += ctx.n_checks
            res.solver_s += ctx.solver_s
            res.failures.extend(ctx.failures)
            res.known_used |= ctx.known_used
            if len(res.failures) >= max_fail:
                break
            dec = ctx.decisions
            while dec and not dec[-1][1]:
                dec.pop()
            if not dec:
                break
            last = dec[-1]
            dec[-1] = [last[1][0], last[1][1:]] + list(last[2:])
            prefix = dec
            if res.paths >= max_paths:
                raise Undecided(f"path budget {max_paths} exhausted")
            if time.time() > deadline:
                raise Undecided("time budget exhausted")
    except Undecided as e:
        res.status = "undecided"
        res.reason = str(e)
        CUR = None
    if res.failures:
        res.status = "violated"
    elif res.status == "discharged" and (res.paths == 0 or res.vcs == 0):
        res.status = "undecided"
        res.reason = "vacuous: zero paths or zero verification conditions"
    res.wall_s = time.time() - t0
    return res
