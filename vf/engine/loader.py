"""Loads a real claripy source file from /repo's working tree on every run, applies the three
mechanical rewrites of DESIGN.md 1.3, self-checks that un-applying them gives back the original
AST, and executes the result in a fresh namespace (with a few builtins shadowed so that they accept
proxies).  Nothing of the source is dropped."""
from __future__ import annotations

import ast
import hashlib
import os
import sys
import types

from . import proxies

REPO = os.environ.get("VERIF_REPO", "/repo")
SOURCES = {}   # relpath -> sha256, for the evidence files


class _Fwd(ast.NodeTransformer):
    def __init__(self):
        self.n_is = 0
        self.n_lit = 0

    def visit_Compare(self, node):
        self.generic_visit(node)
        if len(node.ops) == 1 and isinstance(node.ops[0], (ast.Is, ast.IsNot)):
            l, r = node.left, node.comparators[0]
            if any(isinstance(x, ast.Constant) and x.value is None for x in (l, r)):
                return node
            self.n_is += 1
            call = ast.Call(func=ast.Name(id="__vf_is__", ctx=ast.Load()), args=[l, r], keywords=[])
            if isinstance(node.ops[0], ast.IsNot):
                call = ast.UnaryOp(op=ast.Not(), operand=call)
                call._vf_isnot = True
            return ast.copy_location(call, node)
        # `x in "literal"` / `x not in "literal"`: membership in a literal string is the literal's __contains__; routed through
        # __vf_litcall__ (rewrite 2) so that a symbolic character can answer it
        if len(node.ops) == 1 and isinstance(node.ops[0], (ast.In, ast.NotIn)) and isinstance(node.comparators[0], ast.Constant) \
                and isinstance(node.comparators[0].value, str):
            self.n_lit += 1
            call = ast.Call(func=ast.Name(id="__vf_litcall__", ctx=ast.Load()),
                            args=[node.comparators[0], ast.Constant(value="__contains__"), node.left], keywords=[])
            call._vf_in = True
            if isinstance(node.ops[0], ast.NotIn):
                call = ast.UnaryOp(op=ast.Not(), operand=call)
                call._vf_notin = True
            return ast.copy_location(call, node)
        return node

    def visit_Call(self, node):
        self.generic_visit(node)
        f = node.func
        if isinstance(f, ast.Attribute) and isinstance(f.value, ast.Constant) and isinstance(f.value.value, (str, bytes)):
            self.n_lit += 1
            new = ast.Call(func=ast.Name(id="__vf_litcall__", ctx=ast.Load()),
                           args=[f.value, ast.Constant(value=f.attr), *node.args], keywords=node.keywords)
            return ast.copy_location(new, node)
        return node


class _Back(ast.NodeTransformer):
    def visit_UnaryOp(self, node):
        if isinstance(node.op, ast.Not) and isinstance(node.operand, ast.Call) and \
                isinstance(node.operand.func, ast.Name) and node.operand.func.id == "__vf_is__" and \
                getattr(node, "_vf_isnot", False):
            c = node.operand
            self.generic_visit(c)
            return ast.Compare(left=c.args[0], ops=[ast.IsNot()], comparators=[c.args[1]])
        if isinstance(node.op, ast.Not) and getattr(node, "_vf_notin", False):
            c = node.operand
            self.generic_visit(c)
            return ast.Compare(left=c.args[2], ops=[ast.NotIn()], comparators=[c.args[0]])
        self.generic_visit(node)
        return node

    def visit_Call(self, node):
        self.generic_visit(node)
        if isinstance(node.func, ast.Name) and node.func.id == "__vf_is__":
            return ast.Compare(left=node.args[0], ops=[ast.Is()], comparators=[node.args[1]])
        if isinstance(node.func, ast.Name) and node.func.id == "__vf_litcall__" and getattr(node, "_vf_in", False):
            return ast.Compare(left=node.args[2], ops=[ast.In()], comparators=[node.args[0]])
        if isinstance(node.func, ast.Name) and node.func.id == "__vf_litcall__":
            return ast.Call(func=ast.Attribute(value=node.args[0], attr=node.args[1].value, ctx=ast.Load()),
                            args=node.args[2:], keywords=node.keywords)
        return node


def vf_is(a, b):
    """Semantic answer to `a is b` (DESIGN.md 1.2 'Identity')."""
    if a is b:
        return True
    h = getattr(a, "__vf_is__", None) if not isinstance(a, type) else None
    if h is not None:
        return h(b)
    h = getattr(b, "__vf_is__", None) if not isinstance(b, type) else None
    if h is not None:
        return h(a)
    if isinstance(a, proxies.SymBool) and isinstance(b, (bool, proxies.SymBool)):
        return bool(a == b)
    if isinstance(b, proxies.SymBool) and isinstance(a, bool):
        return bool(b == a)
    if isinstance(a, proxies.SymInt) or isinstance(b, proxies.SymInt):
        if isinstance(a, (int, proxies.SymInt)) and isinstance(b, (int, proxies.SymInt)):
            return bool(a == b)
        return False
    return False


def vf_litcall(lit, name, *args, **kw):
    if name == "__contains__" and len(args) == 1 and hasattr(args[0], "__vf_in_literal__"):
        return args[0].__vf_in_literal__(lit)
    if name == "join" and args:
        items = list(args[0])
        if any(hasattr(x, "__vf_join__") for x in items):
            return items[0].__vf_join__(lit, items)
        return lit.join(items)
    return getattr(lit, name)(*args, **kw)


class SelfCheckError(Exception):
    pass


def load(relpath, modname, overrides=None, shadow=None, extra_shadow=None):
    """Execute /repo/<relpath> as module `modname` (package-relative imports resolve against the
    real, imported claripy) and return its namespace dict."""
    path = os.path.join(REPO, relpath)
    src = open(path, "rb").read()
    SOURCES[relpath] = hashlib.sha256(src).hexdigest()
    tree = ast.parse(src, filename=path)
    orig_dump = ast.dump(tree)
    fwd = _Fwd()
    new = fwd.visit(ast.parse(src, filename=path))
    ast.fix_missing_locations(new)
    code = compile(new, path, "exec")
    # self-check: un-apply on the transformed tree and compare with the original
    back = _Back().visit(new)
    if ast.dump(back) != orig_dump:
        raise SelfCheckError(f"rewrite self-check failed for {relpath}")
    ns = {"__name__": modname, "__package__": modname.rpartition(".")[0], "__file__": path,
          "__builtins__": __builtins__ if isinstance(__builtins__, dict) else __builtins__.__dict__}
    sh = dict(proxies.SHADOW_BUILTINS if shadow is None else shadow)
    sh.update(extra_shadow or {})
    ns.update(sh)
    ns["__vf_is__"] = vf_is
    ns["__vf_litcall__"] = vf_litcall
    exec(code, ns)
    # the module's own definitions must not have been clobbered by shadows
    for k, v in (overrides or {}).items():
        ns[k] = v
    ns["__vf_rewrites__"] = {"is": fwd.n_is, "litcall": fwd.n_lit}
    return ns


def as_module(ns):
    m = types.SimpleNamespace(**{k: v for k, v in ns.items() if not k.startswith("__")})
    return m


def fn_source_hash(relpath, name):
    """sha256 of the source segment of a top-level function or Class.method (for the ledger)."""
    path = os.path.join(REPO, relpath)
    src = open(path).read()
    tree = ast.parse(src)
    parts = name.split(".")
    body = tree.body
    node = None
    for p in parts:
        node = next((n for n in body if isinstance(n, (ast.FunctionDef, ast.ClassDef, ast.AsyncFunctionDef)) and n.name == p), None)
        if node is None:
            return None
        body = node.body
    return hashlib.sha256(ast.get_source_segment(src, node).encode()).hexdigest()[:16]
