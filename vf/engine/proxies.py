"""Symbolic proxies for Python scalars (DESIGN.md 1.2).

SymBool  : z3 Bool; __bool__ is the fork point.
SymInt   : a Python int modelled as a signed bit-vector of IW bits; every operation that could
           leave the IW-bit range records an *adequacy condition* that is proved at the end of the
           path (paths.Ctx.check_adequacy), so the unbounded-integer semantics is never assumed.
All operators follow CPython semantics (floor division, sign of %, arithmetic >>, two's
complement bitwise operators on negative numbers, exceptions).
"""
from __future__ import annotations

import numbers
import z3

from . import paths
from .paths import cur, Undecided, Unsupported

FORMAT_CONCRETIZE = False
IW = 24  # default modelling width; set per obligation with set_iw()


def set_iw(n):
    global IW
    IW = n


def get_iw():
    return IW


class SymBool:
    __slots__ = ("z",)

    def __init__(self, z):
        self.z = z

    def __bool__(self):
        return cur().branch(self.z, "if")

    def _o(self, o):
        if isinstance(o, SymBool):
            return o.z
        if isinstance(o, bool):
            return z3.BoolVal(o)
        if isinstance(o, int) and o in (0, 1):
            return z3.BoolVal(bool(o))
        return None

    def __eq__(self, o):
        z = self._o(o)
        if z is None:
            if isinstance(o, SymInt):
                return o == self
            return False
        return SymBool(self.z == z)

    def __ne__(self, o):
        r = self.__eq__(o)
        return (not r) if isinstance(r, bool) else SymBool(z3.Not(r.z))

    def __and__(self, o):
        z = self._o(o)
        return NotImplemented if z is None else SymBool(z3.And(self.z, z))

    __rand__ = __and__

    def __or__(self, o):
        z = self._o(o)
        return NotImplemented if z is None else SymBool(z3.Or(self.z, z))

    __ror__ = __or__

    def __xor__(self, o):
        z = self._o(o)
        return NotImplemented if z is None else SymBool(z3.Xor(self.z, z))

    __rxor__ = __xor__

    def __invert__(self):  # ~True == -2 in Python; nobody should do this on a bool
        raise Unsupported("~ on SymBool")

    def __hash__(self):
        return hash(bool(self))

    def __index__(self):
        return int(bool(self))

    __int__ = __index__

    def __repr__(self):
        return "<SymBool>"

    def __add__(self, o):
        return SymInt(z3.If(self.z, z3.BitVecVal(1, IW), z3.BitVecVal(0, IW))) + o

    __radd__ = __add__


def symbool(x):
    return x if isinstance(x, (SymBool, bool)) else SymBool(x)


def zbool(x):
    """z3 Bool of a Python bool / SymBool."""
    if isinstance(x, SymBool):
        return x.z
    if isinstance(x, bool):
        return z3.BoolVal(x)
    raise TypeError(f"not a boolean: {x!r}")


def _fits(v):
    return -(1 << (IW - 1)) <= v < (1 << (IW - 1))


def _bv(o):
    """z3 IW-bit term of an int-like operand, or None."""
    if isinstance(o, SymInt):
        return o.z
    if isinstance(o, bool):
        return z3.BitVecVal(int(o), IW)
    if isinstance(o, int):
        if not _fits(o):
            raise Undecided(f"integer constant {o:#x} does not fit the modelling width {IW}")
        return z3.BitVecVal(o, IW)
    if isinstance(o, SymBool):
        return z3.If(o.z, z3.BitVecVal(1, IW), z3.BitVecVal(0, IW))
    return None


def _adeq(cond, text):
    cur().adequacy.append((cond, text))


class SymInt:
    __slots__ = ("z",)

    def __init__(self, z):
        if z.size() != IW:
            raise RuntimeError("SymInt width mismatch")
        self.z = z

    # ---- construction helpers
    @staticmethod
    def fresh(name, lo=None, hi=None):
        z = z3.BitVec(name, IW)
        c = cur()
        c.watch[name] = z
        if lo is not None:
            c.assume(z >= lo)
        if hi is not None:
            c.assume(z <= hi)
        return SymInt(z)

    # ---- arithmetic
    def __add__(self, o):
        b = _bv(o)
        if b is None:
            return NotImplemented
        _adeq(z3.And(z3.BVAddNoOverflow(self.z, b, True), z3.BVAddNoUnderflow(self.z, b)), "add")
        return SymInt(self.z + b)

    __radd__ = __add__

    def __sub__(self, o):
        b = _bv(o)
        if b is None:
            return NotImplemented
        _adeq(z3.And(z3.BVSubNoOverflow(self.z, b), z3.BVSubNoUnderflow(self.z, b, True)), "sub")
        return SymInt(self.z - b)

    def __rsub__(self, o):
        b = _bv(o)
        if b is None:
            return NotImplemented
        _adeq(z3.And(z3.BVSubNoOverflow(b, self.z), z3.BVSubNoUnderflow(b, self.z, True)), "rsub")
        return SymInt(b - self.z)

    def __mul__(self, o):
        b = _bv(o)
        if b is None:
            return NotImplemented
        _adeq(z3.And(z3.BVMulNoOverflow(self.z, b, True), z3.BVMulNoUnderflow(self.z, b)), "mul")
        return SymInt(self.z * b)

    __rmul__ = __mul__

    def __neg__(self):
        _adeq(self.z != z3.BitVecVal(1 << (IW - 1), IW), "neg")
        return SymInt(-self.z)

    def __pos__(self):
        return self

    def __abs__(self):
        _adeq(self.z != z3.BitVecVal(1 << (IW - 1), IW), "abs")
        return SymInt(z3.If(self.z < 0, -self.z, self.z))

    @staticmethod
    def _floordiv(a, b):
        # Python: floor(a / b).  bvsdiv truncates toward zero.
        q = a / b
        r = z3.SRem(a, b)
        adj = z3.And(r != 0, (r < 0) != (b < 0))
        return z3.If(adj, q - 1, q)

    @staticmethod
    def _mod(a, b):
        r = z3.SRem(a, b)
        adj = z3.And(r != 0, (r < 0) != (b < 0))
        return z3.If(adj, r + b, r)

    def _divcheck(self, b):
        if cur().branch(b == 0, "div0"):
            raise ZeroDivisionError("integer division or modulo by zero")

    def __floordiv__(self, o):
        b = _bv(o)
        if b is None:
            return NotImplemented
        self._divcheck(b)
        _adeq(z3.Not(z3.And(self.z == z3.BitVecVal(1 << (IW - 1), IW), b == -1)), "floordiv")
        return SymInt(SymInt._floordiv(self.z, b))

    def __rfloordiv__(self, o):
        a = _bv(o)
        if a is None:
            return NotImplemented
        self._divcheck(self.z)
        return SymInt(SymInt._floordiv(a, self.z))

    def __mod__(self, o):
        b = _bv(o)
        if b is None:
            return NotImplemented
        self._divcheck(b)
        return SymInt(SymInt._mod(self.z, b))

    def __rmod__(self, o):
        a = _bv(o)
        if a is None:
            return NotImplemented
        self._divcheck(self.z)
        return SymInt(SymInt._mod(a, self.z))

    def __divmod__(self, o):
        return (self // o, self % o)

    def __rdivmod__(self, o):
        return (o // self, o % self)

    def __truediv__(self, o):
        raise Unsupported("true division of symbolic integers (float result)")

    __rtruediv__ = __truediv__

    def __pow__(self, o, mod=None):
        if mod is not None:
            raise Unsupported("3-arg pow")
        e = concretize(o)
        if e < 0:
            raise Unsupported("negative power")
        r = 1
        for _ in range(e):
            r = self * r
        return r

    def __rpow__(self, base):
        if isinstance(base, int) and base > 0 and base & (base - 1) == 0:
            k = base.bit_length() - 1
            if cur().branch(self.z < 0, "pow<0"):
                raise Unsupported("negative power")
            return 1 << (self * k) if k != 1 else (1 << self)
        e = concretize(self)
        return base ** e

    # ---- shifts
    def _shiftamt(self, b):
        if cur().branch(b < 0, "shift<0"):
            raise ValueError("negative shift count")

    def __lshift__(self, o):
        b = _bv(o)
        if b is None:
            return NotImplemented
        self._shiftamt(b)
        r = self.z << b
        _adeq(z3.Or(self.z == 0, z3.And(z3.ULT(b, IW), (r >> b) == self.z)), "lshift")
        return SymInt(r)

    def __rlshift__(self, o):
        a = _bv(o)
        if a is None:
            return NotImplemented
        self._shiftamt(self.z)
        r = a << self.z
        _adeq(z3.Or(a == 0, z3.And(z3.ULT(self.z, IW), (r >> self.z) == a)), "rlshift")
        return SymInt(r)

    def __rshift__(self, o):
        b = _bv(o)
        if b is None:
            return NotImplemented
        self._shiftamt(b)
        return SymInt(self.z >> b)  # z3 >> on BitVecRef is arithmetic, saturating for b >= IW

    def __rrshift__(self, o):
        a = _bv(o)
        if a is None:
            return NotImplemented
        self._shiftamt(self.z)
        return SymInt(a >> self.z)

    # ---- bitwise
    def __and__(self, o):
        b = _bv(o)
        return NotImplemented if b is None else SymInt(self.z & b)

    __rand__ = __and__

    def __or__(self, o):
        b = _bv(o)
        return NotImplemented if b is None else SymInt(self.z | b)

    __ror__ = __or__

    def __xor__(self, o):
        b = _bv(o)
        return NotImplemented if b is None else SymInt(self.z ^ b)

    __rxor__ = __xor__

    def __invert__(self):
        return SymInt(~self.z)

    # ---- comparisons
    def __eq__(self, o):
        b = _bv(o)
        if b is None:
            if o is None:
                return False
            return NotImplemented
        return symbool(z3.simplify(self.z == b)) if False else SymBool(self.z == b)

    def __ne__(self, o):
        b = _bv(o)
        if b is None:
            if o is None:
                return True
            return NotImplemented
        return SymBool(self.z != b)

    def __lt__(self, o):
        b = _bv(o)
        return NotImplemented if b is None else SymBool(self.z < b)

    def __le__(self, o):
        b = _bv(o)
        return NotImplemented if b is None else SymBool(self.z <= b)

    def __gt__(self, o):
        b = _bv(o)
        return NotImplemented if b is None else SymBool(self.z > b)

    def __ge__(self, o):
        b = _bv(o)
        return NotImplemented if b is None else SymBool(self.z >= b)

    # ---- conversions
    def __bool__(self):
        return cur().branch(self.z != 0, "nz")

    def __index__(self):
        return concretize(self)

    __int__ = __index__
    __trunc__ = __index__

    def __hash__(self):
        return hash(concretize(self))

    def __float__(self):
        raise Unsupported("float() of a symbolic integer")

    def __round__(self, n=None):
        return self

    def __floor__(self):
        return self

    def __ceil__(self):
        return self

    def bit_length(self):
        a = z3.If(self.z < 0, -self.z, self.z)
        _adeq(self.z != z3.BitVecVal(1 << (IW - 1), IW), "bit_length")
        r = z3.BitVecVal(0, IW)
        for i in range(IW - 1):
            r = z3.If(z3.Extract(i, i, a) == 1, z3.BitVecVal(i + 1, IW), r)
        return SymInt(r)

    def bit_count(self):
        a = z3.If(self.z < 0, -self.z, self.z)
        r = z3.BitVecVal(0, IW)
        for i in range(IW - 1):
            r = r + z3.ZeroExt(IW - 1, z3.Extract(i, i, a))
        return SymInt(r)

    def __format__(self, spec):
        # FORMAT_CONCRETIZE: the text is semantically relevant (StridedInterval.__hash__ formats its fields and
        # the hash decides which members a Python set keeps), so fork over the feasible values; elsewhere
        # (messages of exceptions, logging) a placeholder avoids forking on text nobody reads
        if FORMAT_CONCRETIZE:
            return format(concretize(self, label="format"), spec)
        return "<sym>"

    def __repr__(self):
        return "<SymInt>"

    __str__ = __repr__

    @property
    def real(self):
        return self

    @property
    def imag(self):
        return 0

    @property
    def numerator(self):
        return self

    @property
    def denominator(self):
        return 1


numbers.Integral.register(SymInt)


def concretize(x, limit=70, label="concretize"):
    """A real int for x: forks over the feasible values (at most `limit`)."""
    if isinstance(x, bool):
        return int(x)
    if isinstance(x, int):
        return x
    if isinstance(x, SymBool):
        return int(bool(x))
    if not isinstance(x, SymInt):
        raise TypeError(f"cannot concretize {type(x)}")
    c = cur()
    z = z3.simplify(x.z)
    if z3.is_bv_value(z):
        return z.as_signed_long()
    if c.pos < len(c.prefix):
        # re-execution: the recorded alternative list is replayed
        d = c.prefix[c.pos]
        vals = d[4]
        i = c.choose([x.z == v for v in vals], label)
        c.decisions[-1] = d
        return vals[i]
    vals = []
    s = c.solver
    s.push()
    try:
        while len(vals) <= limit:
            r = s.check()
            if r == z3.unknown:
                raise Undecided("unknown while concretizing")
            if r == z3.unsat:
                break
            v = s.model().eval(x.z, model_completion=True).as_signed_long()
            vals.append(v)
            s.add(x.z != v)
    finally:
        s.pop()
    if len(vals) > limit:
        raise Undecided(f"forced concretization of an integer with more than {limit} feasible values")
    if not vals:
        raise paths.PathEnd()
    vals.sort()
    i = c.choose([x.z == v for v in vals], label)
    c.decisions[-1].append(vals)  # index 4: values, replayed on re-execution
    return vals[i]


def is_intlike(x):
    return isinstance(x, (int, SymInt)) and not isinstance(x, bool) or isinstance(x, SymInt)


# ---- builtins that must accept proxies (bound into the namespace of loaded modules) -------------
import builtins as _b


def vf_isinstance(obj, cls):
    if isinstance(obj, SymInt):
        if cls is int or cls is numbers.Number or cls is numbers.Integral or cls is SymInt:
            return True
        if isinstance(cls, tuple):
            return any(vf_isinstance(obj, c) for c in cls)
        if hasattr(cls, "__args__") and not isinstance(cls, type):  # X | Y unions
            return any(vf_isinstance(obj, c) for c in cls.__args__)
        return _b.isinstance(obj, cls)
    if isinstance(obj, SymBool):
        if cls is bool or cls is int or cls is SymBool:
            return True
        if isinstance(cls, tuple):
            return any(vf_isinstance(obj, c) for c in cls)
        if hasattr(cls, "__args__") and not isinstance(cls, type):
            return any(vf_isinstance(obj, c) for c in cls.__args__)
        return False
    return _b.isinstance(obj, cls)


def vf_int(x=0, *a):
    if isinstance(x, (SymInt,)):
        return x
    if isinstance(x, SymBool):
        return SymInt(_bv(x))
    return _b.int(x, *a)


def vf_bool(x=False):
    if isinstance(x, SymBool):
        return x
    if isinstance(x, SymInt):
        return SymBool(x.z != 0)
    return _b.bool(x)


def vf_abs(x):
    return x.__abs__() if isinstance(x, SymInt) else _b.abs(x)


def _minmax(args, key, want_max, kw):
    if len(args) == 1:
        args = (list(args[0]),)          # materialise generators exactly once
        items = args[0]
    else:
        items = list(args)
    if key is not None or not any(isinstance(a, SymInt) for a in items):
        f = _b.max if want_max else _b.min
        return f(*args, key=key, **kw) if key is not None else f(*args, **kw)
    best = items[0]
    for a in items[1:]:
        za, zb = _bv(a), _bv(best)
        cond = (za > zb) if want_max else (za < zb)
        best = SymInt(z3.If(cond, za, zb))
    return best


def vf_min(*args, key=None, **kw):
    return _minmax(args, key, False, kw)


def vf_max(*args, key=None, **kw):
    return _minmax(args, key, True, kw)


def vf_range(*args):
    return _b.range(*[concretize(a) if isinstance(a, (SymInt, SymBool)) else a for a in args])


def vf_pow(a, b, m=None):
    if m is None:
        return a ** b
    return _b.pow(a, b, m)


def vf_divmod(a, b):
    if isinstance(a, SymInt) or isinstance(b, SymInt):
        return (a // b, a % b)
    return _b.divmod(a, b)


def vf_sum(it, start=0):
    r = start
    for x in it:
        r = r + x
    return r


def vf_hash(x):
    return _b.hash(x)


# `int`/`bool` are NOT shadowed by default: code such as `type(x) in {bool, int}` needs the real types.
SHADOW_BUILTINS = {
    "isinstance": vf_isinstance, "abs": vf_abs, "min": vf_min, "max": vf_max,
    "range": vf_range, "pow": vf_pow, "divmod": vf_divmod, "sum": vf_sum,
}
