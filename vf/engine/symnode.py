"""Symbolic claripy AST nodes (DESIGN.md 1.2 'SymNode').

A SymNode has a concrete sort and a *denotation* (a z3 constant of that sort).  Its shape (op, args)
is decided lazily and only as far as the code under verification distinguishes it:

  * `node.op == "X"` is a binary decision ("is X" / "is not X") through the LazyOp object;
  * anything that needs the actual string (hashing, formatting, getattr) or `node.args` forces a
    complete decision among the operations that remain possible for the sort;
  * children are fresh SymNodes of the sorts the operation requires; `den(node) = [[op]](den(children))`
    (vf/contracts/sem.py) is added to the path condition.

Because every shape is reachable by some sequence of choices and the denotation is unconstrained
until a shape is chosen, a discharged obligation holds for every input AST of the enumerated widths
and arities.  Public constructors called by the code under verification are answered by their
contract (`mk`): a fresh node of undecided shape with the reference meaning.
"""
from __future__ import annotations

import itertools
import z3

from . import paths, proxies
from .paths import cur, Undecided, Unsupported, PathEnd
from .proxies import SymInt, SymBool, _bv
from vf.contracts import sem as S

from claripy.errors import ClaripyOperationError, ClaripyTypeError, ClaripyZeroDivisionError

BV_NARY = ["__add__", "__mul__", "__and__", "__or__", "__xor__"]
BV_SUBLIKE = ["__sub__"]            # n-ary in principle, binary through the public operator
BV_BIN = ["__floordiv__", "__mod__", "SDiv", "SMod", "__lshift__", "__rshift__", "LShR", "RotateLeft", "RotateRight"]
BV_UN = ["__neg__", "__invert__"]
BV_VSA = ["union", "intersection", "widen"]
BV_FROM_FP = ["fpToIEEEBV", "fpToSBV", "fpToUBV"]
BV_FROM_STR = ["StrLen", "StrIndexOf", "StrToInt"]
BOOL_CMP = ["ULT", "ULE", "UGT", "UGE", "SLT", "SLE", "SGT", "SGE"]
BOOL_FP = ["fpLT", "fpLEQ", "fpGT", "fpGEQ", "fpEQ", "fpNEQ", "fpIsNaN", "fpIsInf"]
BOOL_STR = ["StrContains", "StrPrefixOf", "StrSuffixOf", "StrIsDigit"]
DIV_OPS = {"__floordiv__", "__truediv__", "__mod__", "SDiv", "SMod"}


def world():
    c = cur()
    w = c.ghost.get("world")
    if w is None:
        w = c.ghost["world"] = World(c)
    return w


class World:
    def __init__(self, c):
        self.c = c
        self.n = 0
        self.distinct = set()
        self.nodes = {}
        self.consts = {}
        o = c.opts
        self.max_arity = o.get("max_arity", 3)
        self.child_widths = o.get("child_widths") or (lambda w: sorted({w, w + 1, 2 * w}))
        self.cmp_widths = o.get("cmp_widths") or [1, 8]
        self.annotations = o.get("annotations", False)
        self.fp_ops = o.get("fp_ops", True)
        # operation names the function under verification (and its callees) can distinguish; None = all.
        # When a NESTED node's operation must be decided completely, unmentioned operations are
        # represented by one *opaque* operation per signature class (meaning unconstrained), which
        # covers every unmentioned operation of that class because the code cannot tell them apart.
        self.mentioned = o.get("mentioned")
        self.nested_arity = o.get("nested_arity", self.max_arity)

    def uid(self):
        self.n += 1
        return self.n


class NameTok:
    """The (unknown) name of a symbolic leaf."""
    def __init__(self, node):
        self.node = node

    def __repr__(self):
        return f"<name{self.node.uid}>"

    def encode(self):
        return repr(self).encode()


class VTok:
    """Ghost token for 'the variables of node'."""
    __slots__ = ("node",)

    def __init__(self, node):
        self.node = node.root()

    def __hash__(self):
        return hash(("vt", self.node.root().uid))

    def __eq__(self, o):
        return isinstance(o, VTok) and o.node.root() is self.node.root()

    def __repr__(self):
        return f"vars({self.node.root().uid})"


_BY_UID = {}


def expand_vars(tokens, through_contracts=False):
    """Expand variable tokens through decided shapes down to leaves / undecided nodes.  With
    through_contracts, a constructor-contract result expands to its arguments (its variables are a
    subset of theirs) - an upper bound, used only on the 'needed' side."""
    out = set()
    stack = [t.node.root() for t in tokens]
    wid = id(world())
    while stack:
        n = stack.pop().root()
        if n._op is not None and n._args is not None:
            if n._op in ("BVV", "BoolV", "FPV", "StringV"):
                continue
            kids = [a.root() for a in n._args if isinstance(a, SymNode)]
            if kids:
                stack.extend(kids)
                continue
        gf = getattr(n, "ghost_from", None)
        if through_contracts and gf is not None:
            stack.extend(a.root() for a in gf[1] if isinstance(a, SymNode))
            continue
        _BY_UID[(wid, n.uid)] = n
        out.add(n.uid)
    return out


class HashKey:
    """node.hash(): equal iff the nodes are the same hash-consed node (forks when undecided)."""
    __slots__ = ("node",)

    def __init__(self, node):
        self.node = node

    def __hash__(self):
        return 0

    def __eq__(self, o):
        if isinstance(o, HashKey):
            return self.node.__vf_is__(o.node)
        return False

    def __ne__(self, o):
        return not self.__eq__(o)


class LazyOp:
    """The `op` attribute of a node whose shape is not (completely) decided."""
    __slots__ = ("node",)

    def __init__(self, node):
        self.node = node

    def _s(self):
        return self.node.root()._force_op()

    def __eq__(self, o):
        if isinstance(o, LazyOp):
            return self._s() == o._s()
        if not isinstance(o, str):
            return False
        return self.node.root()._op_is(o)

    def __ne__(self, o):
        return not self.__eq__(o)

    def __hash__(self):
        return hash(self._s())

    def __str__(self):
        return self._s()

    def __repr__(self):
        n = self.node.root()
        return repr(n._op) if n._op else "<op?>"

    def __format__(self, spec):
        return format(self._s(), spec)

    def __getattr__(self, name):
        return getattr(self._s(), name)

    def __vf_str__(self):
        return self._s()


def alphabet(sort, wd):
    if sort[0] == "bv":
        w = sort[1]
        ops = ["BVV", "BVS"] + BV_NARY + BV_SUBLIKE + BV_BIN + BV_UN + ["If"]
        if w >= 2:
            ops += ["Concat", "ZeroExt", "SignExt"]
        ops += ["Extract"]
        if w % 8 == 0 and w > 0:
            ops.append("Reverse")
        ops += BV_VSA
        if wd.fp_ops:
            if w in (32, 64):
                ops.append("fpToIEEEBV")
            ops += ["fpToSBV", "fpToUBV"]
            if w == 64:
                ops += BV_FROM_STR
        return ops
    if sort[0] == "bool":
        ops = ["BoolV", "BoolS", "And", "Or", "Not", "__eq__", "__ne__", "If"] + BOOL_CMP + ["intersection"]
        if wd.fp_ops:
            ops += BOOL_FP + BOOL_STR
        return ops
    if sort[0] == "fp":
        return ["FPV", "FPS", "fpToFP", "fpToFPUnsigned", "fpFP", "fpNeg", "fpAbs", "fpAdd", "fpSub", "fpMul", "fpDiv", "fpSqrt", "If"]
    if sort[0] == "str":
        return ["StringV", "StringS", "StrConcat", "StrSubstr", "StrReplace", "IntToStr", "If"]
    raise Unsupported(f"sort {sort}")


def sig_class(op, sort):
    """signature class of an operation (arity and child sorts) for the opaque-representative rule"""
    if op in ("BVV", "BoolV", "FPV", "StringV"):
        return "val"
    if op in ("BVS", "BoolS", "FPS", "StringS"):
        return "sym"
    if op in BV_NARY or op in ("And", "Or"):
        return "nary"
    if op in BV_SUBLIKE or op in BV_BIN or op in BV_VSA or op == "intersection":
        return "bin"
    if op in BV_UN or op in ("Reverse", "Not"):
        return "un"
    if op in BOOL_CMP:
        return "cmp"
    if op in ("fpIsNaN", "fpIsInf"):
        return "fp1"
    if op in BOOL_FP:
        return "fp2"
    if op == "StrIsDigit":
        return "str1"
    if op in BOOL_STR:
        return "str2"
    return op   # If, Concat, ZeroExt, SignExt, Extract, __eq__, __ne__, fp/str conversions: classes of their own


def zsort(sort):
    if sort[0] == "bv":
        return z3.BitVecSort(sort[1])
    if sort[0] == "bool":
        return z3.BoolSort()
    if sort[0] == "fp":
        return z3.Float32() if sort[1] == "FLOAT" else z3.Float64()
    if sort[0] == "str":
        return z3.StringSort()
    raise Unsupported(str(sort))


class NodeMeta(type):
    """`BV("If", args, length=...)` / `type(x)(op, args, ...)` inside verified code is the raw node
    constructor Base.__new__: answered by its contract (node_constructor_contract)."""
    def __call__(cls, *a, **kw):
        if a and isinstance(a[0], (str, LazyOp)):
            return node_constructor_contract(cls, str(a[0]), tuple(a[1]), **kw)
        return super().__call__(*a, **kw)


class SymNode(metaclass=NodeMeta):
    """Base of the symbolic AST classes (stands for claripy.ast.Base)."""

    def __init__(self, sort, den=None, label="n"):
        wd = world()
        self.uid = wd.uid()
        self.sort = sort
        self._parent = None
        self.den = den if den is not None else z3.Const(f"{label}{self.uid}", zsort(sort))
        self.zsym = z3.Bool(f"symb{self.uid}")
        self._op = None
        self._args = None
        self._excl = set()
        self._annos = None if wd.annotations else ()     # None: not decided yet (annotation mode)
        self.label = label
        self._opaque = False
        self.level = 0            # distance from a root argument (children: parent + 1)
        wd.nodes[self.uid] = self
        cur().prefer.append(self.zsym)

    # ---- union-find (aliasing decided by __vf_is__)
    def root(self):
        n = self
        while n._parent is not None:
            n = n._parent
        return n

    # ---- shape decisions
    def _alphabet(self):
        wd = world()
        a = [o for o in alphabet(self.sort, wd) if o not in self._excl]
        b = wd.c.opts.get("if_depth_bound")
        if b is not None and self.level >= b:
            a = [o for o in a if o != "If"]        # stated bound on the nesting depth of If trees
        for o_, b_ in (wd.c.opts.get("op_depth_bound") or {}).items():
            if self.level >= b_:
                a = [o for o in a if o != o_]      # stated bound on the nesting depth of these operations
        return a

    def _op_is(self, name):
        r = self.root()
        if r._op is not None:
            return r._op == name
        alpha = r._alphabet()
        if name not in alpha:
            return False
        if len(alpha) == 1:
            r._decide(name)
            return True
        if cur().choose([True, True], f"op{r.uid}=={name}") == 0:
            r._decide(name)
            return True
        r._excl.add(name)
        return False

    def _force_op(self):
        r = self.root()
        if r._op is None:
            alpha = r._alphabet()
            wd = world()
            opaque = set()
            if wd.mentioned is not None:
                keep, seen = [], set()
                for o in alpha:
                    if o in wd.mentioned:
                        keep.append(o)
                for o in alpha:
                    if o not in wd.mentioned:
                        k = sig_class(o, r.sort)
                        if k not in seen:
                            seen.add(k)
                            keep.append(o)
                            opaque.add(o)
                alpha = keep
            i = cur().choose([True] * len(alpha), f"op{r.uid}")
            r._opaque = alpha[i] in opaque
            r._decide(alpha[i])
        return r._op

    def _decide(self, op):
        self._op = op
        c = cur()
        if op in ("BVV", "BoolV"):
            # hash-consing: two distinct nodes cannot both be the same constant
            wd = world()
            for (x, y) in wd.distinct:
                if self.uid in (x, y):
                    o = wd.nodes[y if x == self.uid else x].root()
                    if o is not self and o._op == op and o.sort == self.sort:
                        c.assume(self.den != o.den)
        if op in ("BVV", "BoolV", "FPV", "StringV"):
            c.assume(z3.Not(self.zsym))
        elif op in ("BVS", "BoolS", "FPS", "StringS"):
            c.assume(self.zsym)
        else:
            return
        if not c.path_feasible():
            raise PathEnd()

    @property
    def op(self):
        r = self.root()
        if r._op is not None:
            return r._op
        return LazyOp(r)

    @property
    def args(self):
        r = self.root()
        if r._args is None:
            r._force_op()
            r._materialize()
        return r._args

    def _set_shape(self, op, args):
        self._op = op
        self._args = tuple(args)

    def _kid(self, sort, label="k"):
        k = new_node(sort, label=label)
        k.level = self.level + 1
        return k

    def _materialize(self):
        c = _DenGuard(cur(), self)
        wd = world()
        op, sort = self._op, self.sort
        kids_sym = None
        if sort[0] == "bv":
            w = sort[1]
            if op == "BVV":
                need = w + 2
                if proxies.get_iw() < need:
                    raise Undecided(f"modelling width {proxies.get_iw()} too small for a {w}-bit constant")
                v = SymInt.fresh(f"val{self.uid}", 0, (1 << w) - 1)
                c.assume(self.den == z3.Extract(w - 1, 0, v.z))
                self._args = (v, w)
                return
            if op == "BVS":
                self._args = (NameTok(self), w)
                return
            if op in BV_NARY or op in BV_SUBLIKE:
                # __sub__ is only ever built binary by the public operators and by Z3 abstraction
                n = 2 if op in BV_SUBLIKE else 2 + c.choose([True] * (wd.nested_arity - 1), f"arity{self.uid}")
                kids = [self._kid(sort) for _ in range(n)]
                c.assume(self.den == S.sem(op, [k.den for k in kids]))
            elif op in BV_BIN or op in BV_VSA:
                kids = [self._kid(sort), self._kid(sort)]
                t = S.sem(op, [k.den for k in kids])
                if t is not None:
                    c.assume(self.den == t)
            elif op in BV_UN or op == "Reverse":
                kids = [self._kid(sort)]
                c.assume(self.den == S.sem(op, [kids[0].den]))
            elif op == "If":
                kids = [self._kid(("bool",)), self._kid(sort), self._kid(sort)]
                c.assume(self.den == z3.If(kids[0].den, kids[1].den, kids[2].den))
            elif op == "Concat":
                comps = []
                for n in range(2, min(wd.c.opts.get("concat_arity", wd.nested_arity), w) + 1):
                    comps += [cc for cc in _compositions(w, n)]
                comps = wd.c.opts.get("concat_filter", lambda w, cs: cs)(w, comps)
                i = c.choose([True] * len(comps), f"concat{self.uid}")
                kids = [self._kid(("bv", k)) for k in comps[i]]
                c.assume(self.den == z3.Concat(*[k.den for k in kids]))
            elif op in ("ZeroExt", "SignExt"):
                amounts = wd.c.opts.get("ext_amounts", lambda w: list(range(1, w)))(w)
                i = c.choose([True] * len(amounts), f"ext{self.uid}")
                n = amounts[i]
                kid = self._kid(("bv", w - n))
                c.assume(self.den == S.sem(op, [n, kid.den]))
                self._args = (n, kid)
                c.assume(self.zsym == kid.zsym)
                return
            elif op == "Extract":
                cws = [x for x in wd.child_widths(w) if x >= w]
                i = c.choose([True] * len(cws), f"exw{self.uid}")
                w2 = cws[i]
                kid = self._kid(("bv", w2))
                if w2 == w:
                    lo = 0
                    hi = w - 1
                    c.assume(self.den == kid.den)
                else:
                    lo = SymInt.fresh(f"lo{self.uid}", 0, w2 - w)
                    hi = lo + (w - 1)
                    c.assume(self.den == S.shift_extract(kid.den, int_to_bv(lo, w2), w))
                self._args = (hi, lo, kid)
                c.assume(self.zsym == kid.zsym)
                return
            elif op == "fpToIEEEBV":
                kids = [self._kid(("fp", "FLOAT" if w == 32 else "DOUBLE"))]
                # the node is A bit pattern of the float (NaN has many): a relation, as in SMT-LIB
                c.assume(z3.fpBVToFP(self.den, zsort(kids[0].sort)) == kids[0].den)
            elif op in ("fpToSBV", "fpToUBV"):
                fs = ["FLOAT", "DOUBLE"][c.choose([True, True], f"fps{self.uid}")]
                kid = self._kid(("fp", fs))
                self._args = (OpaqueRM(), kid, w)
                c.assume(self.zsym == kid.zsym)
                return
            elif op in BV_FROM_STR:
                kids = [self._kid(("str",))]
                if op == "StrIndexOf":
                    kids = [self._kid(("str",)), self._kid(("str",)), self._kid(("bv", 64))]
            else:
                raise Unsupported(f"materialize {op}")
            self._args = tuple(kids)
            c.assume(self.zsym == z3.Or(*[k.zsym for k in kids]))
            return
        if sort[0] == "bool":
            if op == "BoolV":
                b = z3.Bool(f"bval{self.uid}")
                c.watch[f"bval{self.uid}"] = b
                c.assume(self.den == b)
                self._args = (SymBool(b),)
                return
            if op == "BoolS":
                self._args = (NameTok(self),)
                return
            if op in ("And", "Or"):
                n = 2 + c.choose([True] * (wd.nested_arity - 1), f"arity{self.uid}")
                kids = [self._kid(sort) for _ in range(n)]
                c.assume(self.den == S.sem(op, [k.den for k in kids]))
            elif op == "Not":
                kids = [self._kid(sort)]
                c.assume(self.den == z3.Not(kids[0].den))
            elif op == "If":
                kids = [self._kid(sort), self._kid(sort), self._kid(sort)]
                c.assume(self.den == z3.If(kids[0].den, kids[1].den, kids[2].den))
            elif op in ("__eq__", "__ne__", "intersection"):
                sorts = [("bv", x) for x in wd.cmp_widths] + [("bool",)]
                if wd.fp_ops and op != "intersection":
                    sorts += [("str",)]      # FP.__eq__ is the distinct operation fpEQ
                if op == "intersection":
                    sorts = [("bool",)]
                s2 = sorts[c.choose([True] * len(sorts), f"cmps{self.uid}")]
                kids = [self._kid(s2), self._kid(s2)]
                if op != "intersection":
                    c.assume(self.den == S.sem(op, [k.den for k in kids]))
            elif op in BOOL_CMP:
                ws = wd.cmp_widths
                w2 = ws[c.choose([True] * len(ws), f"cmpw{self.uid}")]
                kids = [self._kid(("bv", w2)), self._kid(("bv", w2))]
                c.assume(self.den == S.sem(op, [k.den for k in kids]))
            elif op in BOOL_FP:
                n = 1 if op in ("fpIsNaN", "fpIsInf") else 2
                kids = [self._kid(("fp", "DOUBLE")) for _ in range(n)]
            elif op in BOOL_STR:
                n = 1 if op == "StrIsDigit" else 2
                kids = [self._kid(("str",)) for _ in range(n)]
            else:
                raise Unsupported(f"materialize {op}")
            self._args = tuple(kids)
            c.assume(self.zsym == z3.Or(*[k.zsym for k in kids]))
            return
        # fp / str nodes: opaque shapes (leaf or one opaque operation over children of the same sort)
        if op in ("FPV", "StringV"):
            self._args = (OpaqueVal(self), self.sort)
            return
        if op in ("FPS", "StringS"):
            self._args = (NameTok(self), self.sort)
            return
        if op == "If":
            kids = [self._kid(("bool",)), self._kid(sort), self._kid(sort)]
            c.assume(self.den == z3.If(kids[0].den, kids[1].den, kids[2].den))
            self._args = tuple(kids)
            c.assume(self.zsym == z3.Or(*[k.zsym for k in kids]))
            return
        if op == "fpToFP":
            from claripy.fp import FSORT_FLOAT, FSORT_DOUBLE, RM
            w = 32 if sort[1] == "FLOAT" else 64
            fsort = FSORT_FLOAT if w == 32 else FSORT_DOUBLE
            form = c.choose([True, True, True], f"fptofp-form{self.uid}")
            if form == 0:
                # (bv, sort): reinterpretation of a bit pattern
                kid = self._kid(("bv", w))
                self._args = (kid, fsort)
                c.assume(self.den == z3.fpBVToFP(kid.den, zsort(sort)))
            else:
                rms = list(RM)
                rm = rms[c.choose([True] * len(rms), f"rm{self.uid}")]
                if form == 1:
                    # (rm, fp, sort): conversion between formats with rounding
                    fs = ["FLOAT", "DOUBLE"][c.choose([True, True], f"from-sort{self.uid}")]
                    kid = self._kid(("fp", fs))
                    c.assume(self.den == z3.fpFPToFP(z3_rm(rm), kid.den, zsort(sort)))
                else:
                    # (rm, bv, sort): signed integer to float with rounding
                    ws = world().c.opts.get("fp_from_bv_widths") or [8, 64]
                    wb = ws[c.choose([True] * len(ws), f"from-width{self.uid}")]
                    kid = self._kid(("bv", wb))
                    c.assume(self.den == z3.fpSignedToFP(z3_rm(rm), kid.den, zsort(sort)))
                self._args = (rm, kid, fsort)
            c.assume(self.zsym == kid.zsym)
            return
        kid = self._kid(sort)
        self._args = (kid,)
        c.assume(self.zsym == kid.zsym)

    # ---- identity
    def __vf_is__(self, other):
        a = self.root()
        if not isinstance(other, SymNode):
            return False
        b = other.root()
        if a is b:
            return True
        if a.sort != b.sort:
            return False
        wd = world()
        key = (min(a.uid, b.uid), max(a.uid, b.uid))
        if key in wd.distinct:
            return False
        if _reaches(a, b) or _reaches(b, a):
            return False      # an expression is never its own sub-expression
        c = cur()
        if a._annotations() != b._annotations():
            return False
        da, db = a._op is not None, b._op is not None
        if da and db:
            if a._op != b._op:
                return False
            if a._args is not None and b._args is not None:
                same = _args_identical(a._args, b._args)
                if same:
                    _union(a, b)
                else:
                    wd.distinct.add(key)
                return same
        else:
            # an excluded op on one side and that op decided on the other: cannot be the same node
            if da and a._op in b._excl or db and b._op in a._excl:
                return False
        if c.choose([True, True], f"alias{a.uid},{b.uid}") == 0:
            # alias: the two harness objects stand for the same hash-consed node
            c.assume(a.den == b.den)
            c.assume(a.zsym == b.zsym)
            if not c.path_feasible():
                raise PathEnd()
            if a._args is not None and b._args is not None:
                if not _args_identical(a._args, b._args):
                    raise PathEnd()
            _union(a, b)
            return True
        wd.distinct.add(key)
        if a._op == b._op and a._op in ("BVV", "BoolV"):
            c.assume(a.den != b.den)
            if not c.path_feasible():
                raise PathEnd()
        return False

    # ---- metadata (ghost)
    @property
    def symbolic(self):
        return SymBool(self.root().zsym)

    @property
    def concrete(self):
        return SymBool(z3.Not(self.root().zsym))

    @property
    def variables(self):
        return frozenset({VTok(self)})

    def _annotations(self):
        r = self.root()
        if r._annos is None:
            uni = world().annotations
            k = cur().choose([True] * (1 << len(uni)), f"annotations{r.uid}")
            r._annos = tuple(a for i, a in enumerate(uni) if k >> i & 1)
        return r._annos

    @property
    def annotations(self):
        return self._annotations()

    @property
    def _relocatable_annotations(self):
        return frozenset(a for a in self._annotations() if not a.eliminatable and a.relocatable)

    @property
    def _uneliminatable_annotations(self):
        # as in Base.__new__: the node's own ones plus everything accumulated from its sub-expressions (ghost child_unelim)
        return frozenset(a for a in self._annotations() if not (a.eliminatable or a.relocatable)) | frozenset(getattr(self.root(), "child_unelim", ()))

    @property
    def depth(self):
        raise Unsupported("depth of a symbolic node")

    def hash(self):
        return HashKey(self.root())

    def __hash__(self):
        raise Unsupported("hash() of a symbolic node")

    def __bool__(self):
        raise ClaripyOperationError("testing Expressions for truthiness does not do what you want, as these expressions can be symbolic")

    def __iter__(self):
        raise ClaripyOperationError("Please don't iterate over, or split, AST nodes!")

    def __repr__(self):
        r = self.root()
        return f"<{type(self).__name__} #{r.uid} {r.sort} op={r._op}>"

    def make_like(self, op, args, simplify=False, annotations=None, variables=None, symbolic=None,
                  skip_child_annotations=False, length=None):
        return make_like_contract(self, op, args, simplify, annotations, variables, symbolic, skip_child_annotations, length)

    def _with_annotations(self, annos):
        """contract of Base._apply_to_annotations / make_like(annotations=..., skip_child_annotations=True): the
        same node (same op, args, meaning, metadata) carrying exactly `annos`"""
        annos = tuple(annos)
        r0 = self.root()
        if tuple(r0._annotations()) == annos:
            return self
        r = new_node(r0.sort, label="ann", den=r0.den)
        r._op, r._args, r._excl = r0._op, r0._args, set(r0._excl)
        r._annos = annos
        if hasattr(r0, "child_unelim"):
            r.child_unelim = set(r0.child_unelim)
        cur().assume(r.zsym == r0.zsym)
        r.ghost_from = ("annotate", (r0,))
        return r

    def append_annotations(self, annos):
        return self._with_annotations(tuple(self._annotations()) + tuple(annos))

    def append_annotation(self, a):
        return self._with_annotations(tuple(self._annotations()) + (a,))

    def annotate(self, *annos, remove_annotations=None):
        keep = tuple(a for a in self._annotations() if not remove_annotations or a not in remove_annotations)
        return self._with_annotations(keep + tuple(annos))

    def remove_annotations(self, remove):
        return self._with_annotations(tuple(a for a in self._annotations() if a not in remove))

    def clear_annotations(self):
        return self._with_annotations(())

    def has_annotation_type(self, t):
        return any(isinstance(a, t) for a in self._annotations())

    def get_annotations_by_type(self, t):
        return tuple(a for a in self._annotations() if isinstance(a, t))

    def get_annotation(self, t):
        for a in self._annotations():
            if isinstance(a, t):
                return a
        return None


class SymBoolN(SymNode):
    def size(self):
        return 1

    def __len__(self):
        return 1

    length = None

    def is_true(self):
        return is_true_contract(self)

    def is_false(self):
        return is_false_contract(self)

    def __eq__(self, o):
        return mk("__eq__", self, o)

    def __ne__(self, o):
        return mk("__ne__", self, o)

    def __invert__(self):
        return mk("Not", self)

    def __and__(self, o):
        return mk("And", self, o)

    __rand__ = __and__

    def __or__(self, o):
        return mk("Or", self, o)

    __ror__ = __or__
    __hash__ = SymNode.__hash__


class SymBits(SymNode):
    @property
    def length(self):
        return self.sort[1] if self.sort[0] == "bv" else (32 if self.sort[1] == "FLOAT" else 64)

    def size(self):
        return self.length

    def __len__(self):
        return self.length


def _binop(op):
    def f(self, o):
        return mk(op, self, o)
    return f


def _rbinop(op):
    def f(self, o):
        return mk(op, o, self)
    return f


class SymBV(SymBits):
    __hash__ = SymNode.__hash__

    def __getitem__(self, rng):
        # contract of BV.__getitem__ (the real one has its own obligation)
        if type(rng) is slice:
            left = rng.start if rng.start is not None else len(self) - 1
            right = rng.stop if rng.stop is not None else 0
            if left < 0:
                left = len(self) + left
            if right < 0:
                right = len(self) + right
            return mk("Extract", left, right, self)
        return mk("Extract", rng, rng, self)

    def zero_extend(self, n):
        return mk("ZeroExt", n, self)

    def sign_extend(self, n):
        return mk("SignExt", n, self)

    def concat(self, *args):
        return mk("Concat", self, *args)

    @property
    def reversed(self):
        return mk("Reverse", self)

    def __neg__(self):
        return mk("__neg__", self)

    def __invert__(self):
        return mk("__invert__", self)

    def __pos__(self):
        return self

    @property
    def concrete_value(self):
        raise Unsupported("concrete_value of a symbolic node")


for _o in ["__add__", "__sub__", "__mul__", "__floordiv__", "__truediv__", "__mod__", "__and__", "__or__", "__xor__",
           "__lshift__", "__rshift__", "SDiv", "SMod", "LShR", "ULT", "ULE", "UGT", "UGE", "SLT", "SLE", "SGT", "SGE",
           "__eq__", "__ne__", "union", "intersection", "widen"]:
    setattr(SymBV, _o, _binop(_o if _o != "__truediv__" else "__floordiv__"))
for _o in ["__add__", "__sub__", "__mul__", "__floordiv__", "__truediv__", "__mod__", "__and__", "__or__", "__xor__",
           "__lshift__", "__rshift__"]:
    setattr(SymBV, "__r" + _o[2:], _rbinop(_o if _o != "__truediv__" else "__floordiv__"))
SymBV.__ge__ = SymBV.UGE
SymBV.__le__ = SymBV.ULE
SymBV.__gt__ = SymBV.UGT
SymBV.__lt__ = SymBV.ULT
SymBV.__hash__ = SymNode.__hash__
SymBoolN.__hash__ = SymNode.__hash__


class SymFP(SymBits):
    __hash__ = SymNode.__hash__

    def __eq__(self, o):
        return mk("fpEQ", self, o)

    def __ne__(self, o):
        return mk("fpNEQ", self, o)


class SymStrN(SymNode):
    length = None

    def __eq__(self, o):
        return mk("__eq__", self, o)

    def __ne__(self, o):
        return mk("__ne__", self, o)

    __hash__ = SymNode.__hash__


def z3_rm(rm):
    """claripy.fp.RM member -> z3 rounding mode"""
    return {"RM_NearestTiesEven": z3.RNE(), "RM_NearestTiesAwayFromZero": z3.RNA(), "RM_TowardsZero": z3.RTZ(),
            "RM_TowardsPositiveInf": z3.RTP(), "RM_TowardsNegativeInf": z3.RTN()}[rm.name]


class OpaqueRM:
    def __repr__(self):
        return "<rm?>"


class OpaqueVal:
    def __init__(self, node):
        self.node = node


def int_to_bv(x, width):
    """the low `width` bits of an int / SymInt as a z3 term"""
    if isinstance(x, int):
        return z3.BitVecVal(x, width)
    iw = proxies.get_iw()
    return z3.Extract(width - 1, 0, x.z) if iw >= width else z3.ZeroExt(width - iw, x.z)


def describe(node, m, depth=0):
    """Concrete description of a node under model m: nested [op, args...]; undecided nodes become
    leaves carrying the model value of their denotation."""
    if not isinstance(node, SymNode):
        if isinstance(node, SymInt):
            return m.eval(node.z, model_completion=True).as_signed_long()
        if isinstance(node, SymBool):
            return z3.is_true(m.eval(node.z, model_completion=True))
        if isinstance(node, (NameTok,)):
            return repr(node)
        if isinstance(node, (int, str, bool)) or node is None:
            return node
        return repr(node)
    r = node.root()
    sort = list(r.sort)
    val = None
    try:
        v = m.eval(r.den, model_completion=True)
        val = v.as_long() if z3.is_bv_value(v) else (z3.is_true(v) if z3.is_bool(v) else str(v))
    except Exception:
        pass
    symb = z3.is_true(m.eval(r.zsym, model_completion=True))
    if r._op is None or r._args is None or depth > 12:
        return {"leaf": r.uid, "sort": sort, "value": val, "symbolic": symb, "op_known": r._op, "not_ops": sorted(r._excl)}
    return {"op": r._op, "sort": sort, "uid": r.uid, "value": val, "symbolic": symb,
            "args": [describe(a, m, depth + 1) for a in r._args]}


class _DenGuard:
    """Proxy for the context used while materialising a node: for an opaque representative operation
    the defining equation den(node) = [[op]](children) is dropped (meaning unconstrained)."""
    def __init__(self, c, node):
        self._c, self._n = c, node

    def assume(self, cond):
        if self._n._opaque and not isinstance(cond, bool):
            den_id = self._n.den.get_id()
            # drop only the equation that defines the node's own denotation
            if z3.is_eq(cond) and cond.num_args() == 2 and cond.arg(0).get_id() == den_id:
                return
        self._c.assume(cond)

    def __getattr__(self, n):
        return getattr(self._c, n)


def new_node(sort, label="n", den=None):
    cls = {"bv": SymBV, "bool": SymBoolN, "fp": SymFP, "str": SymStrN}[sort[0]]
    return cls(sort, den=den, label=label)


def _compositions(w, n):
    if n == 1:
        yield (w,)
        return
    for first in range(1, w - n + 2):
        for rest in _compositions(w - first, n - 1):
            yield (first, *rest)


def _reaches(a, b):
    """b is a proper sub-expression of a (through decided shapes)"""
    stack, seen = [a], set()
    while stack:
        n = stack.pop().root()
        if n.uid in seen:
            continue
        seen.add(n.uid)
        for k in (n._args or ()):
            if isinstance(k, SymNode):
                k = k.root()
                if k is b:
                    return True
                stack.append(k)
    return False


def _union(a, b):
    """b joins a (a keeps / adopts the more decided shape)."""
    if a._op is None and b._op is not None:
        a._op = b._op
    if a._args is None and b._args is not None:
        a._args = b._args
    a._excl |= b._excl
    b._parent = a


def _args_identical(xs, ys):
    if len(xs) != len(ys):
        return False
    for x, y in zip(xs, ys):
        if isinstance(x, SymNode) or isinstance(y, SymNode):
            if not (isinstance(x, SymNode) and isinstance(y, SymNode)):
                return False
            if not x.__vf_is__(y):
                return False
        elif isinstance(x, (SymInt, SymBool)) or isinstance(y, (SymInt, SymBool)):
            if not bool(x == y):
                return False
        elif isinstance(x, NameTok) and isinstance(y, NameTok):
            if x.node.root() is not y.node.root():
                return False
        elif x != y:
            return False
    return True


# ------------------------------------------------------------------------------------------------
# contracts of the public constructors

RESULT_BOOL = set(BOOL_CMP) | {"__eq__", "__ne__", "And", "Or", "Not"} | set(BOOL_FP) | set(BOOL_STR)


def const_bool(v):
    wd = world()
    k = ("bool", bool(v))
    n = wd.consts.get(k)
    if n is None:
        n = new_node(("bool",), label="T" if v else "F", den=z3.BoolVal(bool(v)))
        n._set_shape("BoolV", (bool(v),))
        cur().assume(z3.Not(n.zsym))
        wd.consts[k] = n
    return n


def bvv(value, size):
    """contract of claripy.BVV(value, size): the node BVV(value mod 2^size, size)."""
    if isinstance(size, SymInt):
        size = proxies.concretize(size)
    if size is None or isinstance(size, bool) or not isinstance(size, int):
        raise TypeError("BVV() takes either an integer value and a size or a string of bytes")
    if size < 0:
        raise ClaripyOperationError("negative BVV size")
    c = cur()
    if isinstance(value, SymInt):
        if proxies.get_iw() < size + 2:
            raise Undecided("modelling width too small for BVV contract")
        masked = value & ((1 << size) - 1)
        zv = z3.Extract(size - 1, 0, masked.z) if size > 0 else None
        n = new_node(("bv", size), label="c", den=zv)
        n._set_shape("BVV", (masked, size))
        c.assume(z3.Not(n.zsym))
        return n
    if isinstance(value, bool) or not isinstance(value, int):
        raise TypeError("BVV() takes either an integer value and a size or a string of bytes")
    value &= (1 << size) - 1
    wd = world()
    k = ("bv", value, size)
    n = wd.consts.get(k)
    if n is None:
        n = new_node(("bv", size), label="c", den=z3.BitVecVal(value, size) if size > 0 else None)
        n._set_shape("BVV", (value, size))
        c.assume(z3.Not(n.zsym))
        wd.consts[k] = n
    return n


def _coerce(like, v):
    """contract of _type_fixer: Python ints become BVV(v, like.length), bools become BoolV / If(b,1,0)."""
    if isinstance(v, SymNode):
        return v
    if isinstance(v, (bool, SymBool)):
        if isinstance(like, SymBoolN) or like is None:
            if isinstance(v, bool):
                return const_bool(v)
            n = new_node(("bool",), den=v.z)
            n._set_shape("BoolV", (v,))
            cur().assume(z3.Not(n.zsym))
            return n
        raise Unsupported("bool coerced to BV")
    if isinstance(v, (int, SymInt)):
        if isinstance(like, SymBV):
            return bvv(v, like.length)
        return NotImplemented
    return NotImplemented


def _length_same(op, args):
    ls = [a.length for a in args]
    if any(l != ls[0] for l in ls):
        raise ClaripyOperationError("args' length must all be equal")


def mk(op, *args):
    """Contract of the public constructor / operator `op` (operations.op._op): asserts the
    precondition, returns a node of UNDECIDED shape (claripy may have rewritten or folded it) whose
    denotation is the reference meaning of `op` on the arguments' denotations."""
    c = cur()
    args = list(args)
    if op in ("Extract", "ZeroExt", "SignExt"):
        return _mk_sized(op, args)
    like = next((a for a in args if isinstance(a, SymNode)), None)
    if like is None:
        raise ClaripyTypeError(f"{op}: no AST argument")
    args = [_coerce(like, a) for a in args]
    if any(a is NotImplemented for a in args):
        return NotImplemented
    s0 = like.sort
    if op in BV_NARY or op in BV_SUBLIKE or op in BV_BIN or op in BV_VSA or op in BOOL_CMP:
        if not all(isinstance(a, SymBV) for a in args):
            return NotImplemented
        _length_same(op, args)
    if op in ("__eq__", "__ne__"):
        if any(a.sort[0] != s0[0] for a in args):
            return NotImplemented
        if s0[0] == "bv":
            _length_same(op, args)
    if op in ("And", "Or", "Not") and not all(isinstance(a, SymBoolN) for a in args):
        return NotImplemented
    if op == "Reverse":
        if args[0].length % 8 != 0:
            raise ClaripyOperationError("can't reverse non-byte sized bitvectors")
    # result sort
    if op in RESULT_BOOL or (op == "intersection" and s0[0] == "bool"):
        rs = ("bool",)
    elif op == "Concat":
        if not all(isinstance(a, SymBV) for a in args):
            return NotImplemented
        rs = ("bv", sum(a.length for a in args))
    else:
        rs = s0
    dens = [a.den for a in args]
    t = None
    if op == "Concat":
        nz = [d for a, d in zip(args, dens) if a.length > 0]
        t = (z3.Concat(*nz) if len(nz) > 1 else nz[0]) if nz else None
    elif all(a.sort[0] in ("bv", "bool") for a in args) or (op in ("__eq__", "__ne__") and s0[0] == "str"):
        t = S.sem(op, dens)
    # concrete division by zero raises instead of returning a value
    if op in DIV_OPS and len(args) == 2:
        allconc = z3.And(*[z3.Not(a.zsym) for a in args])
        if c.branch(z3.And(allconc, args[1].den == 0), "div0"):
            raise ClaripyZeroDivisionError("division by zero")
    r = new_node(rs, label="r")
    if t is not None:
        c.assume(r.den == t)
    c.assume(z3.Implies(r.zsym, z3.Or(*[a.zsym for a in args])))
    r.ghost_from = (op, tuple(args))
    if c.opts.get("result_levels"):
        # opt-in: a constructed node sits one level above its shallowest operand, so that the stated nesting bounds (if_depth_bound,
        # op_depth_bound) also bound what a recursive function sees in the expressions it builds itself
        r.level = max(0, min(a.root().level for a in args) - 1)
    return r


def _as_int(x):
    if isinstance(x, (SymInt, SymBool)):
        return x
    if isinstance(x, bool) or not isinstance(x, int):
        raise ClaripyTypeError("expected an integer argument")
    return x


def _mk_sized(op, args):
    c = cur()
    if op == "Extract":
        hi, lo, x = args
        if not isinstance(x, SymBV):
            return NotImplemented
        hi, lo = _as_int(hi), _as_int(lo)
        # extra_check of the real op raises ClaripyOperationError: inside a rewriter that is a crash
        if (hi < 0) or (lo < 0):
            raise ClaripyOperationError("Extract high and low must be nonnegative")
        if lo > hi:
            raise ClaripyOperationError("Extract low must be <= high")
        if hi >= x.length:
            raise ClaripyOperationError("Extract bound must be less than BV size")
        w = proxies.concretize(hi - lo + 1, label="extract-width")
        r = new_node(("bv", w), label="r")
        if isinstance(lo, SymInt):
            n = x.length
            iw = proxies.get_iw()
            lz = z3.Extract(n - 1, 0, lo.z) if iw >= n else z3.ZeroExt(n - iw, lo.z)
            c.assume(r.den == S.shift_extract(x.den, lz, w))
        else:
            c.assume(r.den == z3.Extract(lo + w - 1, lo, x.den))
        c.assume(z3.Implies(r.zsym, x.zsym))
        return r
    n, x = args
    if not isinstance(x, SymBV):
        return NotImplemented
    n = proxies.concretize(_as_int(n), label="ext-amount")
    if n < 0:
        raise ClaripyOperationError("Extension length must be nonnegative")
    r = new_node(("bv", x.length + n), label="r")
    c.assume(r.den == S.sem(op, [n, x.den]))
    c.assume(z3.Implies(r.zsym, x.zsym))
    return r


def if_contract(cond, a, b):
    """contract of claripy.If"""
    c = cur()
    if isinstance(cond, (bool, SymBool)):
        cond = _coerce(None, cond)
    like = a if isinstance(a, SymNode) else b
    if not isinstance(like, SymNode):
        raise ClaripyTypeError("true/false clause of If must have bearable types")
    a, b = _coerce(like, a), _coerce(like, b)
    if a is NotImplemented or b is NotImplemented:
        raise ClaripyTypeError("can't convert")
    if a.sort != b.sort:
        raise ClaripyTypeError("sized arguments to If must have the same length")
    r = new_node(a.sort, label="r")
    c.assume(r.den == z3.If(cond.den, a.den, b.den))
    c.assume(z3.Implies(r.zsym, z3.Or(cond.zsym, a.zsym, b.zsym)))
    return r


def node_constructor_contract(cls, op, args, length=None, annotations=(), variables=None, symbolic=None,
                              skip_child_annotations=False, **kw):
    """contract of Base.__new__ called directly: the node (op, args) [folded to an undecided shape when it
    is not symbolic] with the reference meaning; it carries `annotations` plus - unless
    skip_child_annotations - the relocatable annotations of its children; ghost `child_unelim` records
    the uneliminatable annotations reachable below it."""
    if op == "BVV":
        return bvv(args[0], args[1])
    if op == "BoolV":
        return _coerce(None, args[0])
    like = None
    kids = [x for x in args if isinstance(x, SymNode)]
    if issubclass(cls, SymBoolN):
        like = next((k for k in kids if isinstance(k, SymBoolN)), None)
        if like is None:
            like = new_node(("bool",), label="like")
    else:
        like = next((k for k in kids if isinstance(k, cls)), None)
        if like is None:
            if length is None:
                raise Unsupported("node constructor without a typed child or length")
            like = new_node(("bv", length), label="like")
    r = make_like_contract(like, op, args, False, None, variables, symbolic, skip_child_annotations, length)
    annos = tuple(annotations)
    if not skip_child_annotations:
        rel = []
        for k in kids:
            for a in k._relocatable_annotations:
                if a not in rel and a not in annos:
                    rel.append(a)
        annos = annos + tuple(rel)
    r.root()._annos = annos
    r.root().child_unelim = set().union(*[set(k._uneliminatable_annotations) | getattr(k.root(), "child_unelim", set()) for k in kids]) if kids else set()
    return r


def is_true_contract(e):
    """C10 contract: may answer True only if e is valid; False is always allowed."""
    if isinstance(e, (bool, SymBool)):
        return bool(e)
    if not isinstance(e, SymBoolN):
        return False
    c = cur()
    e = e.root()
    if c.choose([e.den, True], f"is_true{e.uid}") == 0:
        return True
    return False


def is_false_contract(e):
    if isinstance(e, (bool, SymBool)):
        return not bool(e)
    if not isinstance(e, SymBoolN):
        return False
    c = cur()
    e = e.root()
    if c.choose([z3.Not(e.den), True], f"is_false{e.uid}") == 0:
        return True
    return False


def make_like_contract(self, op, args, simplify, annotations, variables, symbolic, skip_child_annotations, length):
    """contract of Base.make_like / Bits.make_like: a node (op, args) [simplified again if asked],
    with the C05 obligation on explicitly passed metadata."""
    c = cur()
    args = tuple(args)
    if isinstance(op, LazyOp):
        op = str(op)
    kids = [a for a in args if isinstance(a, SymNode)]
    if variables is not None:
        # C05: explicitly passed variables must cover the variables of the new arguments
        need = expand_vars([VTok(k) for k in kids], through_contracts=True)
        have = expand_vars(variables)
        missing = need - have
        for u in sorted(missing):
            n = _BY_UID.get((id(world()), u))
            c.check("make_like/variables", z3.Not(n.zsym) if n is not None else False,
                    f"explicit variables= does not cover the variables of argument node #{u}", kind="C05")
    if isinstance(self, SymBits) and length is None:
        length = self.length
    if simplify:
        r = mk(op, *args)
        return r
    # exact node
    rs = self.sort
    if isinstance(self, SymBits) and length is not None and self.sort[0] == "bv":
        rs = ("bv", length)
    if op in RESULT_BOOL:
        rs = ("bool",)
    r = new_node(rs, label="m")
    dens = [a.den if isinstance(a, SymNode) else a for a in args]
    t = None
    try:
        if op == "Concat":
            t = z3.Concat(*dens) if len(dens) > 1 else dens[0]
        elif op in ("ZeroExt", "SignExt", "Extract"):
            t = S.sem(op, dens)
        else:
            t = S.sem(op, dens)
    except z3.Z3Exception as e:
        c.fail("make_like/sorts", f"ill-sorted node {op}: {e}", kind="C04")
        raise PathEnd()
    if t is not None:
        if t.sort() != r.den.sort():
            c.fail("make_like/length", f"node {op} built with length {length}, meaning has sort {t.sort()}", kind="C05")
            raise PathEnd()
        c.assume(r.den == t)
    if kids:
        c.assume(r.zsym == z3.Or(*[k.zsym for k in kids]))
    # Base.__new__ folds a non-symbolic non-leaf node through the concrete backend (or not, when the
    # backend refuses): the shape is exact only for symbolic nodes
    if symbolic is None and kids and not c.branch(r.zsym, "make_like-symbolic"):
        return r
    r._set_shape(op, args)
    return r
