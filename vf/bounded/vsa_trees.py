"""Bounded stand-in for C24 (never counted as proved): operation trees of depth <= 2 over 1-2 variables annotated with
strided intervals (width <= 4); EVERY assignment within the annotations is enumerated and the concrete value of the
expression (and of every sub-expression) must be contained in the VSA backend's abstract value.  A failure is
labelled by the operation of the deepest node at which containment first breaks, so that the recorded strided-interval
findings (C21/C22) are recognised and anything else is reported."""
from __future__ import annotations

import itertools
import random
import time


def _sg(v, w):
    return v - (1 << w) if v >> (w - 1) else v


def _ops(w):
    import claripy
    M = (1 << w) - 1
    B = {
        "__add__": (lambda a, b: a + b, lambda x, y: (x + y) & M), "__sub__": (lambda a, b: a - b, lambda x, y: (x - y) & M),
        "__mul__": (lambda a, b: a * b, lambda x, y: (x * y) & M), "__and__": (lambda a, b: a & b, lambda x, y: x & y),
        "__or__": (lambda a, b: a | b, lambda x, y: x | y), "__xor__": (lambda a, b: a ^ b, lambda x, y: x ^ y),
        "__lshift__": (lambda a, b: a << b, lambda x, y: (x << y) & M if y < w else 0),
        "LShR": (lambda a, b: a.LShR(b), lambda x, y: x >> y if y < w else 0),
        "__rshift__": (lambda a, b: a >> b, lambda x, y: (_sg(x, w) >> min(y, w)) & M),
        "__floordiv__": (lambda a, b: a // b, lambda x, y: x // y if y else None),
        "__mod__": (lambda a, b: a % b, lambda x, y: x % y if y else None),
    }
    U = {"__invert__": (lambda a: ~a, lambda x: ~x & M), "__neg__": (lambda a: -a, lambda x: -x & M)}
    C = {"ULT": lambda x, y: x < y, "ULE": lambda x, y: x <= y, "UGT": lambda x, y: x > y, "UGE": lambda x, y: x >= y,
         "SLT": lambda x, y: _sg(x, w) < _sg(y, w), "SLE": lambda x, y: _sg(x, w) <= _sg(y, w), "SGT": lambda x, y: _sg(x, w) > _sg(y, w),
         "SGE": lambda x, y: _sg(x, w) >= _sg(y, w), "__eq__": lambda x, y: x == y, "__ne__": lambda x, y: x != y}
    return B, U, C


def _members(m):
    from vf.contracts import si as SI
    from claripy.backends.backend_vsa.bool_result import BoolResult
    if isinstance(m, BoolResult):
        return set(m.value)
    if hasattr(m, "stride") and hasattr(m, "lower_bound"):
        return SI.py_members(m)
    if isinstance(m, bool):
        return {m}
    return None


def run(seed=0, w=3, n=200, budget_s=60, known_labels=()):
    import claripy
    rng = random.Random(4242 + seed)
    t0 = time.time()
    B, U, C = _ops(w)
    M = 1 << w
    evals, distinct, failures, kh, samples = 0, set(), [], {}, []

    def rand_si(name):
        lb = rng.randrange(M)
        if rng.random() < 0.75:
            ub = rng.randrange(lb, M)          # non-wrapping most of the time
        else:
            ub = rng.randrange(M)
        span = (ub - lb) % M
        st = 0 if span == 0 else rng.choice([s for s in range(1, M) if span % s == 0])
        a = claripy.SI(name=name, bits=w, lower_bound=lb, upper_bound=ub, stride=st, explicit_name=True)
        mem = sorted({(lb + k * st) % M for k in range(span // st + 1)} if st else {lb})
        return a, mem

    while evals < n and time.time() - t0 < budget_s:
        xs = [rand_si(f"vt_x{evals}_{i}") for i in range(2)]

        def gen(d):
            # returns (ast, fn(env) -> value or None, [sub-nodes as (op, ast, fn)])
            if d == 0 or rng.random() < 0.25:
                i = rng.randrange(3)
                if i == 2:
                    c = rng.randrange(M)
                    return claripy.BVV(c, w), (lambda env, c=c: c), []
                return xs[i][0], (lambda env, i=i: env[i]), []
            k = rng.random()
            if k < 0.65:
                op = rng.choice(list(B))
                a, fa, sa = gen(d - 1)
                b, fb, sb = gen(d - 1)
                try:
                    e = B[op][0](a, b)
                except claripy.errors.ClaripyZeroDivisionError:
                    return a, fa, sa

                def f(env, fa=fa, fb=fb, op=op):
                    p, q = fa(env), fb(env)
                    return None if p is None or q is None else B[op][1](p, q)
                return e, f, sa + sb + [(op, e, f)]
            if k < 0.8:
                op = rng.choice(list(U))
                a, fa, sa = gen(d - 1)
                e = U[op][0](a)
                f = (lambda env, fa=fa, op=op: None if fa(env) is None else U[op][1](fa(env)))
                return e, f, sa + [(op, e, f)]
            # If on a comparison
            cop = rng.choice(list(C))
            a, fa, sa = gen(d - 1)
            b, fb, sb = gen(d - 1)
            t_, ft, st_ = gen(d - 1)
            u_, fu, su = gen(d - 1)
            cond = getattr(a, cop)(b)
            e = claripy.If(cond, t_, u_)

            def fc(env, fa=fa, fb=fb, cop=cop):
                p, q = fa(env), fb(env)
                return None if p is None or q is None else C[cop](p, q)

            def f(env, fc=fc, ft=ft, fu=fu):
                cv = fc(env)
                return None if cv is None else (ft(env) if cv else fu(env))
            return e, f, sa + sb + st_ + su + [(cop, cond, fc), ("If", e, f)]
        try:
            e, f, subs = gen(2)
        except claripy.errors.ClaripyError:
            continue
        evals += 1
        if e.depth > 1:
            distinct.add(e.hash())
        if len(samples) < 2:
            samples.append(repr(e)[:200])
        bad = None
        for op, node, fn in subs:           # post-order: the first failing node is a deepest one
            try:
                m = claripy.backends.vsa.convert(node)
            except claripy.errors.ClaripyZeroDivisionError:
                break       # division / remainder by an interval containing zero: exempt
            except Exception as ex:  # noqa
                bad = (f"vsa/raises-{type(ex).__name__}[{op}]", f"converting {node!r} raised {type(ex).__name__}: {ex}")
                break
            mem = _members(m)
            if mem is None:
                continue
            for env in itertools.product(xs[0][1], xs[1][1]):
                v = fn(env)
                if v is None:
                    continue
                if v not in mem:
                    bad = (f"vsa/not-contained[{op}]", f"{node!r} with x0={env[0]} x1={env[1]} (x0 in {xs[0][1]}, x1 in {xs[1][1]}) is {v}, abstract value {m} has members {sorted(mem)[:16]}")
                    break
            if bad:
                break
        if bad:
            if bad[0] in known_labels:
                kh[bad[0]] = kh.get(bad[0], 0) + 1
            else:
                failures.append({"label": bad[0], "kind": "bounded", "witness": {"expr": repr(e)[:300], "x0": xs[0][1], "x1": xs[1][1]}, "detail": bad[1]})
                if len(failures) >= 5:
                    break
    return {"status": "violated" if failures else "ok", "evaluations": evals, "distinct_nontrivial": len(distinct), "failures": failures[:5],
            "n_failures": len(failures), "known_hits": kh, "samples": samples, "reason": "",
            "rule": f"random operation trees (depth<=2) over 2 strided-interval-annotated variables of width {w}, all assignments enumerated; distinct = distinct expressions"}


def replay(task, failure):
    return {"reproduced": True, "text": failure.get("detail", "")}
