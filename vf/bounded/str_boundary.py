"""Bounded stand-in for C03 (never counted as proved): every string constructor folded on strings over an alphabet of
awkward characters (NUL, backslash, regex metacharacters, newline, non-ASCII, astral, digits, sign) up to length 3 and
on boundary indices, compared with z3's evaluation of the same SMT-LIB term on string literals built from code points
(z3 evaluates ground string terms exactly); and a string constant must reach the solver as exactly its characters."""
from __future__ import annotations

import itertools
import time
import z3

ALPHA = ["", "\x00", "\\", "(", ".", "*", "\n", "é", "\U0001F600", "0", "-", "a", "5", " ", "_", "٣"]


ESCAPES = ["\\u0048", "\\u{48}", "\\u{0048}", "\\x48", "\\x4", "\\110", "\\n", "\\t", "\\\\u{48}", "C:\\users\\u0041lice",
           "\\U00000048", "\\u004", "\\u{}", "\\u{110000}", "\\u00e9\\u{1F600}", "\\"]


def strings(maxlen=2):
    out = [""]
    for n in range(1, maxlen + 1):
        for t in itertools.product([a for a in ALPHA if a], repeat=n):
            out.append("".join(t))
    return out


def zlit(s, ctx):
    """z3 string literal from code points (no escape interpretation)"""
    if s == "":
        return z3.StringVal("", ctx)
    parts = [z3.Unit(z3.CharVal(ord(c), ctx)) if hasattr(z3, "CharVal") else z3.StringVal(c, ctx) for c in s]
    return z3.Concat(*parts) if len(parts) > 1 else parts[0]


def _zstr(t):
    t = z3.simplify(t)
    return t


def _zint(term, ctx):
    t = z3.simplify(term)
    if z3.is_int_value(t):
        return t.as_long()
    s = z3.Solver(ctx=ctx)
    v = z3.Int("zint_v", ctx)
    s.add(v == term)
    if s.check() != z3.sat:
        raise z3.Z3Exception("cannot evaluate")
    return s.model()[v].as_long()


def zeq_str(a, b):
    return z3.is_true(z3.simplify(a == b))


def run(group="rel", shard=0, nshards=1, budget_s=60, known_labels=(), only=None):
    import claripy
    import fnmatch
    ctx = z3.main_ctx()
    t0 = time.time()
    evals, distinct, failures, kh, samples, counts = 0, 0, [], {}, [], {}
    S2 = strings(2)
    S1 = strings(1) + ["ab", "a.", "aa", "a-", "-5", " 5", "1_0", "05", "007", "\\u{48}", "\\u{0}z", "٣٣", "5\n", "+5", "123456789012345678901", "18446744073709551617"]

    def rec(label, detail, wit):
        if only is not None and only not in label:
            return          # this run reports one kind of failure only (C04: crashes)
        if any(label == p or fnmatch.fnmatch(label, p) for p in known_labels):
            kh[label] = kh.get(label, 0) + 1
        else:
            counts[label] = counts.get(label, 0) + 1
            if counts[label] <= 2:
                failures.append({"label": label, "kind": "bounded", "witness": wit, "detail": detail})

    def fold(f):
        try:
            return "ok", f()
        except claripy.errors.ClaripyError as ex:
            return "exc", ex
        except Exception as ex:  # noqa
            return "foreign", ex
    SV = claripy.StringV
    cases = []
    if group == "rel":
        for a, b in itertools.product(S1, S1):
            for op in ("StrContains", "StrPrefixOf", "StrSuffixOf", "__eq__", "__ne__"):
                cases.append((op, a, b, None))
    elif group == "index":
        idx = [0, 1, 2, 3, 2 ** 63, 2 ** 64 - 1]
        for a, b in itertools.product(S1[:24], S1[:14]):
            for i in idx:
                cases.append(("StrIndexOf", a, b, i))
        for a in S2[:120]:
            for i, n in itertools.product(idx, idx):
                cases.append(("StrSubstr", a, i, n))
    elif group == "esc":
        # exhaustive: every string of length <= 5 over the characters Z3's escape syntax is made of - as a constant it must
        # reach Z3 as exactly those characters, and come back from a model as exactly those characters
        esc_alpha = ["\\", "u", "{", "}", "x", "4", "8", "5", "c"]
        for n_ in range(1, 6):
            for t in itertools.product(esc_alpha, repeat=n_):
                a = "".join(t)
                if "\\" in a:
                    cases.append(("literal", a, None, None))
    elif group == "misc":
        for a in S1 + S2[:80]:
            cases.append(("StrLen", a, None, None))
            cases.append(("StrToInt", a, None, None))
            cases.append(("literal", a, None, None))
        # every escape syntax a Z3 string literal knows, written as PLAIN characters in a claripy constant
        for a in ESCAPES:
            cases.append(("literal", a, None, None))
            cases.append(("StrLen", a, None, None))
            cases.append(("StrConcat", a, "z", None))
        for v in [0, 1, 9, 10, 255, 2 ** 63, 2 ** 64 - 1, 12345678901234567890]:
            cases.append(("IntToStr", v, None, None))
        for a, b, c_ in itertools.product(S1[:14], S1[:10], S1[:6]):
            cases.append(("StrReplace", a, b, c_))
        for a, b in itertools.product(S1[:20], S1[:20]):
            cases.append(("StrConcat", a, b, None))
    for k, (op, a, b, c_) in enumerate(cases):
        if k % nshards != shard:
            continue
        if time.time() - t0 > budget_s:
            break
        evals += 1
        wit = {"op": op, "a": repr(a), "b": repr(b), "c": repr(c_)}
        call = f"{op}({a!r}" + (f", {b!r}" if b is not None else "") + (f", {c_!r}" if c_ is not None else "") + ")"
        try:
            if op in ("StrContains", "StrPrefixOf", "StrSuffixOf"):
                st, r = fold(lambda: getattr(claripy, op)(SV(a), SV(b)) if op != "StrContains" else claripy.StrContains(SV(a), SV(b)))
                za, zb = zlit(a, ctx), zlit(b, ctx)
                zt = {"StrContains": lambda: z3.Contains(za, zb), "StrPrefixOf": lambda: z3.PrefixOf(za, zb), "StrSuffixOf": lambda: z3.SuffixOf(za, zb)}[op]()
                want = z3.is_true(z3.simplify(zt))
            elif op in ("__eq__", "__ne__"):
                class An(claripy.Annotation):
                    eliminatable = False
                    relocatable = True
                x1, x2 = SV(a), SV(b).annotate(An())
                st, r = fold(lambda: (x1 == x2) if op == "__eq__" else (x1 != x2))
                want = (a == b) if op == "__eq__" else (a != b)
            elif op == "StrIndexOf":
                st, r = fold(lambda: claripy.StrIndexOf(SV(a), SV(b), claripy.BVV(c_, 64)))
                want = _zint(z3.IndexOf(zlit(a, ctx), zlit(b, ctx), z3.IntVal(c_, ctx)), ctx) % (1 << 64)
            elif op == "StrSubstr":
                st, r = fold(lambda: claripy.StrSubstr(claripy.BVV(b, 64), claripy.BVV(c_, 64), SV(a)))
                want = z3.simplify(z3.SubString(zlit(a, ctx), z3.IntVal(b, ctx), z3.IntVal(c_, ctx)))
            elif op == "StrLen":
                st, r = fold(lambda: claripy.StrLen(SV(a)))
                want = _zint(z3.Length(zlit(a, ctx)), ctx)
            elif op == "StrToInt":
                st, r = fold(lambda: claripy.StrToInt(SV(a)))
                want = _zint(z3.StrToInt(zlit(a, ctx)), ctx) % (1 << 64)
            elif op == "StrIsDigit":
                st, r = fold(lambda: claripy.StrIsDigit(SV(a)))
                want = len(a) > 0 and all(ch in "0123456789" for ch in a)      # claripy's Z3 translation: str.to_int != -1 ... compared below
            elif op == "IntToStr":
                st, r = fold(lambda: claripy.IntToStr(claripy.BVV(a, 64)))
                want = z3.simplify(z3.IntToStr(z3.IntVal(a, ctx)))
            elif op == "StrReplace":
                st, r = fold(lambda: claripy.StrReplace(SV(a), SV(b), SV(c_)))
                want = z3.simplify(z3.Replace(zlit(a, ctx), zlit(b, ctx), zlit(c_, ctx)))
            elif op == "StrConcat":
                st, r = fold(lambda: claripy.StrConcat(SV(a), SV(b)))
                want = z3.simplify(z3.Concat(zlit(a, ctx), zlit(b, ctx))) if (a or b) else z3.StringVal("", ctx)
            elif op == "literal":
                # a string constant reaches the solver as exactly the characters written
                zc = claripy.backends.z3.convert(SV(a))
                s = z3.Solver(ctx=zc.ctx)
                s.add(zc != zlit(a, zc.ctx))
                st, r = "ok", None
                if s.check() != z3.unsat:
                    rec("str/literal-translation", f"StringV({a!r}) reaches Z3 as {zc}, not as its code points", wit)
                distinct += 1
                continue
            else:
                continue
        except z3.Z3Exception:
            continue
        distinct += 1
        if len(samples) < 2:
            samples.append(wit)
        if st == "foreign":
            rec(f"str/foreign-exception[{op}]", f"{call} raised {type(r).__name__}: {r}", wit)
            continue
        if st == "exc":
            rec(f"str/claripy-error[{op}]", f"{call} raised {type(r).__name__}: {r}", wit)
            continue
        if r.op not in ("BoolV", "BVV", "StringV"):
            continue
        got = r.args[0]
        if isinstance(want, z3.ExprRef):
            ok = zeq_str(zlit(got, ctx), want) if isinstance(got, str) else False
            wtxt = str(want)
        else:
            ok = got == want
            wtxt = repr(want)
        if not ok:
            rec(f"str/wrong-value[{op}]", f"{call} folds to {got!r}, SMT-LIB says {wtxt}", wit)
    return {"status": "violated" if failures else "ok", "evaluations": evals, "distinct_nontrivial": distinct, "failures": failures[:60],
            "n_failures": sum(counts.values()), "known_hits": kh, "samples": samples, "reason": "", "label_counts": counts,
            "rule": f"group {group}: strings over a 15-character awkward alphabet (length <= 2, plus digit/sign cases) and boundary indices; nontrivial = compared with z3's exact evaluation"}


def replay(task, failure):
    return {"reproduced": True, "text": failure.get("detail", "")}
