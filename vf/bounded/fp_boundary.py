"""Bounded stand-in for C02 (never counted as proved): every floating-point constructor on boundary operands
(signed zeros, subnormals, normal extremes, infinities, NaN, rounding ties, values beyond binary32 range) in all five
rounding modes and both sorts; the eagerly folded result is compared (NaN as NaN, otherwise bit for bit) with the
value the SMT-LIB FloatingPoint theory gives - computed by z3 on the same numerals (z3 evaluates ground FP terms
exactly).  Float-to-integer conversions are compared only where SMT-LIB specifies the result."""
from __future__ import annotations

import itertools
import math
import struct
import time

import z3


def _bits(v, sort):
    if sort == "FLOAT":
        return struct.unpack("<I", struct.pack("<f", v))[0]
    return struct.unpack("<Q", struct.pack("<d", v))[0]


def _from_bits(b, sort):
    if sort == "FLOAT":
        return struct.unpack("<f", struct.pack("<I", b))[0]
    return struct.unpack("<d", struct.pack("<Q", b))[0]


def operands(sort):
    w, eb, sb = (32, 8, 24) if sort == "FLOAT" else (64, 11, 53)
    mant = sb - 1
    emax = (1 << eb) - 1
    pat = [0, 1 << (w - 1), 1, (1 << mant) - 1, 1 << mant, ((emax - 1) << mant) | ((1 << mant) - 1), emax << mant, (emax << mant) | (1 << (w - 1)),
           (emax << mant) | (1 << (mant - 1))]
    vals = [_from_bits(p, sort) for p in pat]
    vals += [1.0, -1.0, 1.5, 2.5, -2.5, 0.5, 3.0, 0.1, 1.2, -1.5, 7.0, 1e10, float(2 ** 24 + 1), float(2 ** 53 + 2), 4294967296.0, -0.75]
    if sort == "FLOAT":
        vals = [_from_bits(_bits(v, "FLOAT"), "FLOAT") for v in vals if abs(v) < 3e38 or math.isinf(v) or math.isnan(v)]
        vals.append(_from_bits(_bits(1.0, "FLOAT") + 1, "FLOAT"))
    else:
        vals += [1e308, 1.0 + 2 ** -52, 1e-310]
    return vals


RMS = ["RM_NearestTiesEven", "RM_NearestTiesAwayFromZero", "RM_TowardsPositiveInf", "RM_TowardsNegativeInf", "RM_TowardsZero"]


def _zrm(name, ctx):
    return {"RM_NearestTiesEven": z3.RNE, "RM_NearestTiesAwayFromZero": z3.RNA, "RM_TowardsPositiveInf": z3.RTP, "RM_TowardsNegativeInf": z3.RTN,
            "RM_TowardsZero": z3.RTZ}[name](ctx)


def _zsort(sort, ctx):
    return z3.Float32(ctx) if sort == "FLOAT" else z3.Float64(ctx)


def _zval(v, sort, ctx):
    w = 32 if sort == "FLOAT" else 64
    return z3.fpBVToFP(z3.BitVecVal(_bits(v, sort), w, ctx), _zsort(sort, ctx))


def _same(folded, ztrue, sort, ctx):
    """folded: python float (value of the folded FPV); ztrue: simplified z3 FP numeral"""
    if z3.is_true(z3.simplify(z3.fpIsNaN(ztrue))):
        return math.isnan(folded)
    if math.isnan(folded):
        return False
    w = 32 if sort == "FLOAT" else 64
    zb = z3.simplify(z3.fpToIEEEBV(ztrue))
    try:
        fb = _bits(folded, sort)
    except (OverflowError, struct.error):
        return False
    return zb.as_long() == fb


def run(sort="DOUBLE", group="arith", budget_s=60, known_labels=(), shard=0, nshards=1, only=None):
    import claripy
    import fnmatch
    t0 = time.time()
    ctx = z3.main_ctx()
    csort = claripy.FSORT_FLOAT if sort == "FLOAT" else claripy.FSORT_DOUBLE
    ops_ = operands(sort)
    evals, distinct, failures, kh, samples = 0, 0, [], {}, []
    counts = {}

    def rec(label, detail, wit):
        if only is not None and only not in label:
            return          # this run reports one kind of failure only (C04: crashes)
        if any(label == p or fnmatch.fnmatch(label, p) for p in known_labels):
            kh[label] = kh.get(label, 0) + 1
        else:
            counts[label] = counts.get(label, 0) + 1
            if counts[label] <= 2:
                failures.append({"label": label, "kind": "bounded", "witness": wit, "detail": detail})

    def fold(f):
        try:
            r = f()
        except claripy.errors.ClaripyOperationError as ex:
            return ("exc", ex)
        except Exception as ex:  # noqa
            return ("foreign", ex)
        return ("ok", r)

    def cval(e):
        if e.op == "FPV":
            return e.args[0]
        if e.op == "BVV":
            return e.args[0]
        if e.op == "BoolV":
            return e.args[0]
        return None

    cases = []
    if group == "arith":
        for op in ("fpAdd", "fpSub", "fpMul", "fpDiv"):
            for rm in RMS:
                for a, b in itertools.product(ops_, ops_):
                    cases.append((op, rm, a, b))
        for rm in RMS:
            for a in ops_:
                cases.append(("fpSqrt", rm, a, None))
    elif group == "unary-cmp":
        for a in ops_:
            for op in ("fpNeg", "fpAbs", "fpIsNaN", "fpIsInf", "fpToIEEEBV"):
                cases.append((op, None, a, None))
        for op in ("fpLT", "fpLEQ", "fpGT", "fpGEQ", "fpEQ", "fpNEQ"):
            for a, b in itertools.product(ops_, ops_):
                cases.append((op, None, a, b))
    elif group == "conv":
        w = 32 if sort == "FLOAT" else 64
        ints = [0, 1, 3, (1 << 24) + 1, (1 << 53) + 1, (1 << 63) - 1, 1 << 63, (1 << 64) - 1, (1 << 63) + 1025, 0xFFFFFF7FFFFFFFFF, 16777217, 9007199254740993]
        for rm in RMS:
            for a in ops_:
                for size in (8, 32, 64):
                    cases.append(("fpToSBV", rm, a, size))
                    cases.append(("fpToUBV", rm, a, size))
                cases.append(("fpToFP[fp]", rm, a, None))
            # the ends of the target integer ranges (and the rounding ties next to them): INT_MIN is representable, INT_MAX + 1 is not
            for size in (8, 16, 32, 64):
                ends = []
                for base in (-(2 ** (size - 1)), 2 ** (size - 1) - 1, 2 ** (size - 1), 2 ** size - 1, 2 ** size, 0):
                    ends += [float(base), base - 0.5, base + 0.5, base - 1.0, base + 1.0, base - 0.25, base + 0.75]
                for a in ends:
                    if sort == "FLOAT":
                        a = _from_bits(_bits(a, "FLOAT"), "FLOAT") if abs(a) < 3e38 else a
                    cases.append(("fpToSBV", rm, a, size))
                    cases.append(("fpToUBV", rm, a, size))
            for i in ints:
                cases.append(("fpToFP[sbv]", rm, i, None))
                cases.append(("fpToFPUnsigned", rm, i, None))
    if group == "literal":
        # the claripy -> Z3 translation of every boundary literal (BackendZ3.FPV): the numeral Z3 receives must be the literal, bit for bit
        # (sign of zero included), NaN as NaN.  The folding comparisons above never exercise it: both of their sides bypass it.
        zb = claripy.backends.z3
        for a in ops_:
            evals += 1
            distinct += 1
            wit = {"op": "FPV", "sort": sort, "a": repr(a)}
            try:
                zt = z3.simplify(zb.convert(claripy.FPV(a, csort)))
                ctx2 = zt.ctx
                ok = math.isnan(a) if z3.is_true(z3.simplify(z3.fpIsNaN(zt))) else (not math.isnan(a) and z3.simplify(z3.fpToIEEEBV(zt)).as_long() == _bits(a, sort))
            except Exception as ex:  # noqa
                rec("fp.literal/z3-translation-raises", f"backends.z3.convert(FPV({a!r}, {sort})) raised {type(ex).__name__}: {ex}", wit)
                continue
            if not ok:
                rec("fp.literal/z3-translation", f"backends.z3.convert(FPV({a!r}, {sort})) = {zt}: not the literal (bits {_bits(a, sort):#x})", wit)
        cases = []
    for idx, (op, rm, a, b) in enumerate(cases):
        if idx % nshards != shard:
            continue
        if time.time() - t0 > budget_s:
            break
        evals += 1
        crm = getattr(claripy.fp.RM, rm) if rm else None
        zrm = _zrm(rm, ctx) if rm else None
        wit = {"op": op, "rm": rm, "sort": sort, "a": repr(a), "b": repr(b)}
        try:
            if op in ("fpAdd", "fpSub", "fpMul", "fpDiv"):
                fa, fb = claripy.FPV(a, csort), claripy.FPV(b, csort)
                st, r = fold(lambda: getattr(claripy, op)(crm, fa, fb))
                zt = z3.simplify({"fpAdd": z3.fpAdd, "fpSub": z3.fpSub, "fpMul": z3.fpMul, "fpDiv": z3.fpDiv}[op](zrm, _zval(a, sort, ctx), _zval(b, sort, ctx)))
                zt_rne = z3.simplify({"fpAdd": z3.fpAdd, "fpSub": z3.fpSub, "fpMul": z3.fpMul, "fpDiv": z3.fpDiv}[op](z3.RNE(ctx), _zval(a, sort, ctx), _zval(b, sort, ctx)))
                kind = "fp"
            elif op == "fpSqrt":
                st, r = fold(lambda: claripy.fpSqrt(crm, claripy.FPV(a, csort)))
                zt = z3.simplify(z3.fpSqrt(zrm, _zval(a, sort, ctx)))
                zt_rne = z3.simplify(z3.fpSqrt(z3.RNE(ctx), _zval(a, sort, ctx)))
                kind = "fp"
            elif op in ("fpNeg", "fpAbs"):
                st, r = fold(lambda: getattr(claripy, op)(claripy.FPV(a, csort)))
                zt = z3.simplify((z3.fpNeg if op == "fpNeg" else z3.fpAbs)(_zval(a, sort, ctx)))
                zt_rne = zt
                kind = "fp"
            elif op in ("fpIsNaN", "fpIsInf"):
                st, r = fold(lambda: getattr(claripy, op)(claripy.FPV(a, csort)))
                zt = z3.simplify((z3.fpIsNaN if op == "fpIsNaN" else z3.fpIsInf)(_zval(a, sort, ctx)))
                kind = "bool"
            elif op == "fpToIEEEBV":
                st, r = fold(lambda: claripy.fpToIEEEBV(claripy.FPV(a, csort)))
                if math.isnan(a):
                    continue          # NaN bit patterns are unspecified
                zt = z3.simplify(z3.fpToIEEEBV(_zval(a, sort, ctx)))
                kind = "bv"
            elif op in ("fpLT", "fpLEQ", "fpGT", "fpGEQ", "fpEQ", "fpNEQ"):
                fa, fb = claripy.FPV(a, csort), claripy.FPV(b, csort)
                st, r = fold(lambda: getattr(claripy, op)(fa, fb))
                za, zb = _zval(a, sort, ctx), _zval(b, sort, ctx)
                zt = z3.simplify({"fpLT": z3.fpLT, "fpLEQ": z3.fpLEQ, "fpGT": z3.fpGT, "fpGEQ": z3.fpGEQ, "fpEQ": z3.fpEQ, "fpNEQ": z3.fpNEQ}[op](za, zb))
                kind = "bool"
            elif op in ("fpToSBV", "fpToUBV"):
                size = b
                st, r = fold(lambda: getattr(claripy, op)(crm, claripy.FPV(a, csort), size))
                if math.isnan(a) or math.isinf(a):
                    if st == "foreign":
                        rec(f"fp/foreign-exception[{op}]", f"{op}({rm}, {a!r}, {size}) raised {type(r).__name__}: {r}", wit)
                    continue
                # specified only when the rounded value is representable
                ri = z3.simplify(z3.fpRoundToIntegral(zrm, _zval(a, sort, ctx)))
                real = z3.simplify(z3.fpToReal(ri))
                iv = int(real.as_fraction())
                lo, hi = (-(1 << (size - 1)), (1 << (size - 1)) - 1) if op == "fpToSBV" else (0, (1 << size) - 1)
                if not lo <= iv <= hi:
                    if st == "foreign":
                        rec(f"fp/foreign-exception[{op}]", f"{op}({rm}, {a!r}, {size}) raised {type(r).__name__}: {r}", wit)
                    continue
                zt = z3.BitVecVal(iv % (1 << size), size, ctx)
                kind = "bv"
            elif op == "fpToFP[fp]":
                other = claripy.FSORT_DOUBLE if sort == "FLOAT" else claripy.FSORT_FLOAT
                osort = "DOUBLE" if sort == "FLOAT" else "FLOAT"
                st, r = fold(lambda: claripy.fpToFP(crm, claripy.FPV(a, csort), other))
                zt = z3.simplify(z3.fpFPToFP(zrm, _zval(a, sort, ctx), _zsort(osort, ctx)))
                zt_rne = z3.simplify(z3.fpFPToFP(z3.RNE(ctx), _zval(a, sort, ctx), _zsort(osort, ctx)))
                kind = "fp:" + osort
            elif op in ("fpToFP[sbv]", "fpToFPUnsigned"):
                bv = claripy.BVV(a, 64)
                zbv = z3.BitVecVal(a, 64, ctx)
                if op == "fpToFP[sbv]":
                    st, r = fold(lambda: claripy.fpToFP(crm, bv, csort))
                    zt = z3.simplify(z3.fpSignedToFP(zrm, zbv, _zsort(sort, ctx)))
                    zt_rne = z3.simplify(z3.fpSignedToFP(z3.RNE(ctx), zbv, _zsort(sort, ctx)))
                else:
                    st, r = fold(lambda: claripy.fpToFPUnsigned(crm, bv, csort))
                    zt = z3.simplify(z3.fpUnsignedToFP(zrm, zbv, _zsort(sort, ctx)))
                    zt_rne = z3.simplify(z3.fpUnsignedToFP(z3.RNE(ctx), zbv, _zsort(sort, ctx)))
                kind = "fp"
            else:
                continue
        except z3.Z3Exception as ex:
            continue
        distinct += 1
        if len(samples) < 2:
            samples.append(dict(wit, folded=str(r)[:80]))
        call = f"{op}({rm + ', ' if rm else ''}{a!r}{', ' + repr(b) if b is not None else ''}) [{sort}]"
        if st == "foreign":
            rec(f"fp/foreign-exception[{op.split('[')[0]}]", f"{call} raised {type(r).__name__}: {r}", wit)
            continue
        if st == "exc":
            rec(f"fp/claripy-error[{op.split('[')[0]}]", f"{call} raised {type(r).__name__}: {r}", wit)
            continue
        v = cval(r)
        if v is None:
            continue      # not folded (stays symbolic): nothing to compare here
        if kind == "bool":
            if bool(v) != z3.is_true(zt):
                rec(f"fp/wrong-value[{op}]", f"{call} folds to {v}, SMT-LIB says {zt}", wit)
        elif kind == "bv":
            if v != zt.as_long():
                good_rne = False
                rec(f"fp/wrong-value[{op}]" if not rm or rm == RMS[0] else f"fp/wrong-value[{op}]+{rm}", f"{call} folds to {v:#x}, SMT-LIB says {zt.as_long():#x}", wit)
        else:
            rs = sort if ":" not in kind else kind.split(":")[1]
            if not _same(v, zt, rs, ctx):
                lab = f"fp/wrong-value[{op.split('[')[0]}]"
                if rm and rm != RMS[0] and _same(v, zt_rne, rs, ctx):
                    lab = f"fp/rounding-mode-ignored[{op.split('[')[0]}]"
                rec(lab, f"{call} folds to {v!r}, SMT-LIB says {zt}", wit)
    return {"status": "violated" if failures else "ok", "evaluations": evals, "distinct_nontrivial": distinct, "failures": failures[:60],
            "n_failures": sum(counts.values()), "known_hits": kh, "samples": samples, "reason": "", "label_counts": counts,
            "rule": f"boundary operands x rounding modes, group {group}, sort {sort}; nontrivial = the SMT-LIB value is specified and was compared"}


def replay(task, failure):
    return {"reproduced": True, "text": failure.get("detail", "")}


def replay_rm_finding(f):
    import claripy
    r = claripy.fpAdd(claripy.fp.RM.RM_NearestTiesAwayFromZero, claripy.FPV(1.0, claripy.FSORT_DOUBLE), claripy.FPV(1.0000000000000002, claripy.FSORT_DOUBLE))
    return {"reproduced": r.op == "FPV" and r.args[0] == 2.0, "text": f"fpAdd(RNA, 1.0, 1.0000000000000002) folds to {r}; ties-away gives 2.0000000000000004"}


def replay_dr_finding(f):
    import claripy
    r = claripy.fpToFPUnsigned(claripy.fp.RM.RM_NearestTiesEven, claripy.BVV(18446743523953737727, 64), claripy.FSORT_FLOAT)
    return {"reproduced": r.op == "FPV" and r.args[0] == 18446744073709551616.0, "text": f"fpToFPUnsigned(RNE, 18446743523953737727, FLOAT) folds to {r}; correctly rounded: 18446742974197923840.0"}
