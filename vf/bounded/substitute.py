"""Bounded, native (never counted as proved): claripy.replace / replace_dict / Base.canonicalize substitute EXACTLY.

Every expression of depth <= 2 (and every 5th of depth 3) over three symbols and a constant, with three binary operations, is put through
substitutions whose image overlaps their domain (x -> x + 1, the swap x <-> y, x -> y), through a compound key (x + y -> z), through a second
call that REUSES the caller's dictionary (the function memoises into it), and through canonicalize() of symbols that already bear canonical
names in swapped order.  The result must be THE node (hash-consing: identity) that an independent structural recursion builds."""
from __future__ import annotations

import itertools
import time


def _ref(e, mapping, memo):
    """independent reference: simultaneous substitution, top-down (a key that matches is replaced and not descended into)"""
    import claripy
    if not isinstance(e, claripy.ast.Base):
        return e
    h = e.hash()
    if h in mapping:
        return mapping[h]
    if h in memo:
        return memo[h]
    if e.depth == 1:
        return e
    args = tuple(_ref(a, mapping, memo) for a in e.args)
    r = e if all(a is b for a, b in zip(args, e.args)) else type(e)(e.op, args, length=e.length)
    memo[h] = r
    return r


def run(budget_s=120):
    import claripy
    t0 = time.time()
    x, y, z = (claripy.BVS(n, 8, explicit_name=True) for n in ("sub_x", "sub_y", "sub_z"))
    k = claripy.BVV(5, 8)
    ops = [lambda a, b: a + b, lambda a, b: a ^ b, lambda a, b: a * b]
    d1 = [x, y, z, k]
    d2 = [f(a, b) for f in ops for a in d1 for b in d1]
    d3 = [f(a, b) for i, (f, a, b) in enumerate(itertools.product(ops, d1 + d2, d1 + d2)) if i % 5 == 0]
    exprs = d1 + d2 + d3
    subs = [("x->x+1", {x: x + 1}), ("swap", {x: y, y: x}), ("x->y", {x: y}), ("x+y->z", {x + y: z}), ("x->x+1,y->x*y", {x: x + 1, y: x * y})]
    evals, failures = 0, []

    def rec(label, detail, wit):
        if len(failures) < 4:
            failures.append({"label": label, "kind": "bounded", "witness": wit, "detail": detail})
    for name, m in subs:
        shared = {kk.hash(): v for kk, v in m.items()}          # one dictionary reused over all expressions (the memo accumulates)
        pure = {kk.hash(): v for kk, v in m.items()}
        for e in exprs:
            if time.time() - t0 > budget_s:
                break
            evals += 1
            want = _ref(e, pure, {})
            got1 = claripy.replace_dict(e, dict(pure), variable_set=set())
            got2 = claripy.replace_dict(e, shared, variable_set=set())
            if got1 is not want:
                rec("utils.replace_dict/exact", f"replace_dict({e!r}, {name}) = {got1!r}, the substitution gives {want!r}", {"e": repr(e), "sub": name})
            if got2 is not want:
                rec("utils.replace_dict/exact-with-a-reused-dictionary", f"replace_dict({e!r}, {name}) with the dictionary of earlier calls = {got2!r}, the substitution gives {want!r}", {"e": repr(e), "sub": name})
            if len(m) == 1:
                (old, new), = m.items()
                got3 = claripy.replace(e, old, new)
                if got3 is not want:
                    rec("utils.replace/exact", f"replace({e!r}, {old!r}, {new!r}) = {got3!r}, the substitution gives {want!r}", {"e": repr(e), "sub": name})
    # canonicalize: symbols that already bear canonical names, in swapped order
    c0, c1 = claripy.BVS("canonical_1", 8, explicit_name=True), claripy.BVS("canonical_0", 8, explicit_name=True)
    for f in ops:
        for e in (f(c0 - c1, c0 - c1 + 5), f(c0, c1), f(c1 * c0, c0)):
            evals += 1
            vm, _, r = e.canonicalize()
            leaves = {l.hash(): l for l in e.leaf_asts()}
            vm = {h: v for h, v in vm.items() if h in leaves}            # the function memoises rebuilt inner nodes into the same dictionary
            back = {v.hash(): leaves[h] for h, v in vm.items()}
            if len({v.hash() for v in vm.values()}) != len(vm):
                rec("utils.canonicalize/injective", f"canonicalize({e!r}) maps two variables to one", {"e": repr(e)})
            elif _ref(r, back, {}) is not e:
                rec("utils.canonicalize/consistent-renaming", f"canonicalize({e!r}) = {r!r}; renaming back gives {_ref(r, back, {})!r}", {"e": repr(e)})
    return {"status": "violated" if failures else "ok", "evaluations": evals, "distinct_nontrivial": evals, "failures": failures, "reason": "",
            "rule": "every expression of depth <= 2 and every 5th of depth 3 over three symbols, a constant and {+, ^, *}; five substitutions (overlapping image, swap, compound key); "
                    "fresh and reused dictionaries; canonicalize of already-canonical names in swapped order"}


def replay(task, failure):
    return {"reproduced": True, "text": failure.get("detail", "")}
