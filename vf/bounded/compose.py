"""Bounded stand-in (never counted as proved): operation trees built through claripy's PUBLIC
constructors, natively, compared for ALL assignments (z3 equivalence) with an SMT-LIB term built
independently from the same operation sequence (vf/contracts/sem.py).  It exists to catch a
constructor whose real behaviour is weaker than the contract assumed at its call sites, and the
functions whose deductive exploration is only partial.  Also checks C04 (no foreign exception) and
C05 (width / variables / symbolic / depth recomputed recursively) on every tree."""
from __future__ import annotations

import random
import time
import z3

import claripy
from vf.contracts import sem as S

BOUND = [0, 1, 2, 3, 0x7F, 0x80, 0xFF, 0xFE]


def _consts(w, rng):
    m = (1 << w) - 1
    c = {0, 1, m, 1 << (w - 1), (1 << (w - 1)) - 1, w, w - 1, w + 1, 2, 3}
    c.add(rng.randrange(0, m + 1))
    return sorted(x & m for x in c)


class Gen:
    def __init__(self, rng, w, ctx_leaves):
        self.rng, self.w = rng, w
        self.leaves = ctx_leaves
        self.trace = []

    def leaf(self, w):
        r = self.rng
        if r.random() < 0.55:
            v = self.leaves["bv"](w, r.randrange(3))
            return v
        c = r.choice(_consts(w, r))
        a = claripy.BVV(c, w)
        return a, z3.BitVecVal(c, w, self.leaves["ctx"]), f"BVV({c:#x},{w})"

    def boolleaf(self):
        r = self.rng
        if r.random() < 0.7:
            return self.leaves["bool"](r.randrange(2))
        b = r.random() < 0.5
        return claripy.BoolV(b), z3.BoolVal(b, self.leaves["ctx"]), str(b)

    def bv(self, w, d):
        r = self.rng
        if d == 0 or r.random() < 0.15:
            return self.leaf(w)
        k = r.randrange(22)
        if k < 8:
            op = r.choice(["__add__", "__sub__", "__mul__", "__and__", "__or__", "__xor__", "__lshift__", "__rshift__"])
            a, za, sa = self.bv(w, d - 1)
            if r.random() < 0.3:
                c = r.choice(_consts(w, r))
                zc = z3.BitVecVal(c, w, self.leaves["ctx"])
                if r.random() < 0.5:
                    return getattr(a, op)(c), S.sem(op, [za, zc]), f"({sa}).{op}({c})"
                rop = "__r" + op[2:]
                return getattr(a, rop)(c), S.sem(op, [zc, za]), f"({sa}).{rop}({c})"
            b, zb, sb = self.bv(w, d - 1)
            return getattr(a, op)(b), S.sem(op, [za, zb]), f"({sa}).{op}({sb})"
        if k < 11:
            op = r.choice(["__floordiv__", "__mod__", "SDiv", "SMod", "LShR", "RotateLeft", "RotateRight"])
            a, za, sa = self.bv(w, d - 1)
            b, zb, sb = self.bv(w, d - 1)
            f = getattr(a, op) if hasattr(a, op) else (lambda o: getattr(claripy, op)(a, o))
            return f(b), S.sem(op, [za, zb]), f"{op}({sa},{sb})"
        if k < 13:
            a, za, sa = self.bv(w, d - 1)
            if r.random() < 0.5:
                return ~a, ~za, f"~({sa})"
            return -a, -za, f"-({sa})"
        if k < 15 and w >= 2:
            n = r.randrange(1, w)
            a, za, sa = self.bv(w - n, d - 1)
            if r.random() < 0.5:
                return a.zero_extend(n), z3.ZeroExt(n, za), f"ZeroExt({n},{sa})"
            return a.sign_extend(n), z3.SignExt(n, za), f"SignExt({n},{sa})"
        if k < 17 and w >= 2:
            n = r.randrange(1, w)
            a, za, sa = self.bv(n, d - 1)
            b, zb, sb = self.bv(w - n, d - 1)
            return claripy.Concat(a, b), z3.Concat(za, zb), f"Concat({sa},{sb})"
        if k < 19:
            w2 = w + r.choice([1, 2, 8, w])
            lo = r.randrange(0, w2 - w + 1)
            a, za, sa = self.bv(w2, d - 1)
            return a[lo + w - 1:lo], z3.Extract(lo + w - 1, lo, za), f"({sa})[{lo + w - 1}:{lo}]"
        if k < 20 and w % 8 == 0:
            a, za, sa = self.bv(w, d - 1)
            return a.reversed, S.bv_reverse(za), f"Reverse({sa})"
        c, zc, sc = self.bool(d - 1)
        a, za, sa = self.bv(w, d - 1)
        b, zb, sb = self.bv(w, d - 1)
        return claripy.If(c, a, b), z3.If(zc, za, zb), f"If({sc},{sa},{sb})"

    def bool(self, d):
        r = self.rng
        if d == 0 or r.random() < 0.15:
            return self.boolleaf()
        k = r.randrange(10)
        if k < 5:
            op = r.choice(["__eq__", "__ne__", "ULT", "ULE", "UGT", "UGE", "SLT", "SLE", "SGT", "SGE"])
            w = r.choice([self.w, 1, 8])
            a, za, sa = self.bv(w, d - 1)
            b, zb, sb = self.bv(w, d - 1)
            f = getattr(a, op)
            return f(b), S.sem(op, [za, zb]), f"{op}({sa},{sb})"
        if k < 7:
            a, za, sa = self.bool(d - 1)
            b, zb, sb = self.bool(d - 1)
            if r.random() < 0.5:
                return claripy.And(a, b), z3.And(za, zb), f"And({sa},{sb})"
            return claripy.Or(a, b), z3.Or(za, zb), f"Or({sa},{sb})"
        if k < 8:
            a, za, sa = self.bool(d - 1)
            return claripy.Not(a), z3.Not(za), f"Not({sa})"
        if k < 9:
            a, za, sa = self.bool(d - 1)
            b, zb, sb = self.bool(d - 1)
            return (a == b), (za == zb), f"({sa})==({sb})"
        c, zc, sc = self.bool(d - 1)
        a, za, sa = self.bool(d - 1)
        b, zb, sb = self.bool(d - 1)
        return claripy.If(c, a, b), z3.If(zc, za, zb), f"If({sc},{sa},{sb})"


def _recompute(e):
    """recursive recomputation of (variables, symbolic, depth) for C05"""
    if not isinstance(e, claripy.ast.Base):
        return frozenset(), False, 0
    if e.op in ("BVS", "BoolS", "FPS", "StringS"):
        return frozenset([e.args[0]]), True, 1
    if e.op in ("BVV", "BoolV", "FPV", "StringV"):
        return frozenset(), False, 1
    vs, sy, dp = frozenset(), False, 0
    for a in e.args:
        v, s_, d = _recompute(a)
        vs |= v
        sy = sy or s_
        dp = max(dp, d)
    return vs, sy, dp + 1


def run(seed=0, n=300, width=8, depth=3, budget_s=60, known_labels=()):
    rng = random.Random(seed * 7919 + width * 31 + depth)
    t0 = time.time()
    bz = claripy.backends.z3
    vars_ = {}

    def bvleaf(w, i):
        k = (w, i)
        if k not in vars_:
            a = claripy.BVS(f"cx{i}_{w}", w, explicit_name=True)
            vars_[k] = (a, bz.convert(a), f"x{i}_{w}")
        return vars_[k]

    def boolleaf(i):
        k = ("b", i)
        if k not in vars_:
            a = claripy.BoolS(f"cb{i}", explicit_name=True)
            vars_[k] = (a, bz.convert(a), f"b{i}")
        return vars_[k]
    ctx = bz.convert(claripy.BVS("c_ctx", 1, explicit_name=True)).ctx
    leaves = {"bv": bvleaf, "bool": boolleaf, "ctx": ctx}
    evals, distinct, failures, known_hits = 0, set(), [], {}
    samples = []
    while evals < n and time.time() - t0 < budget_s:
        g = Gen(rng, width, leaves)
        want_bool = rng.random() < 0.3
        label = None
        try:
            e, ref, txt = g.bool(depth) if want_bool else g.bv(width, depth)
        except claripy.errors.ClaripyZeroDivisionError:
            evals += 1
            continue
        except claripy.errors.ClaripyOperationError as ex:
            if "reverse" in str(ex).lower():
                continue
            failures.append({"label": "C04/foreign-exception", "kind": "bounded", "witness": {"seed": seed, "n": evals},
                             "detail": f"{type(ex).__name__}: {ex}"})
            evals += 1
            continue
        except Exception as ex:  # noqa
            failures.append({"label": "C04/foreign-exception", "kind": "bounded", "witness": {"seed": seed, "n": evals},
                             "detail": f"{type(ex).__name__}: {ex}"})
            evals += 1
            continue
        evals += 1
        if e.depth > 1:
            distinct.add(e.hash())
        if len(samples) < 2:
            samples.append({"built": txt[:300], "claripy": repr(e)[:300]})
        # C01: meaning
        ze = bz.convert(e)
        s = z3.Solver(ctx=ctx)
        s.set("timeout", 20000)
        s.add(ze != ref)
        r = s.check()
        if r == z3.sat:
            failures.append({"label": "C01/meaning", "kind": "bounded", "witness": {"built": txt, "claripy": repr(e), "model": str(s.model())},
                             "detail": "expression built through public constructors differs from the written operations"})
        # C05: metadata
        vs, sy, dp = _recompute(e)
        want_w = ref.size() if z3.is_bv(ref) else None
        if getattr(e, "length", None) != want_w and not (want_w is None and e.length is None):
            failures.append({"label": "C05/length", "kind": "bounded", "witness": {"built": txt}, "detail": f"length {e.length} != {want_w}"})
        if not vs <= e.variables or e.symbolic != sy or e.depth != dp or (not e.symbolic and e.variables):
            failures.append({"label": "C05/metadata", "kind": "bounded", "witness": {"built": txt, "claripy": repr(e)},
                             "detail": f"variables {sorted(e.variables)} vs {sorted(vs)}, symbolic {e.symbolic} vs {sy}, depth {e.depth} vs {dp}"})
        if len(failures) >= 5:
            break
    real = [f for f in failures if f["label"] not in known_labels]
    for f in failures:
        if f["label"] in known_labels:
            known_hits[f["label"]] = known_hits.get(f["label"], 0) + 1
    return {"status": "violated" if real else "ok", "evaluations": evals, "distinct_nontrivial": len(distinct),
            "failures": real[:5], "n_failures": len(real), "samples": samples, "known_hits": known_hits, "reason": ""}


def replay(task, failure):
    return {"reproduced": True, "text": "native run: " + failure.get("detail", "") + " " + str(failure.get("witness"))[:500]}
