"""Bounded stand-in for C23 (never counted as proved): discrete strided-interval sets and region value sets built
from small plain intervals (width 3; exhaustive over the stated pool), every member combination enumerated:
each lifted operation must contain the pointwise results (per region for value sets) and the queries must be
consistent with the members."""
from __future__ import annotations

import itertools
import time


def _pool(w):
    M = 1 << w
    out = []
    for lb in range(M):
        for ub in range(lb, M):
            span = ub - lb
            for st in ([0] if span == 0 else [s for s in (1, 2, 4) if span % s == 0]):
                out.append((lb, ub, st))
    return out


def _mem(iv, w):
    lb, ub, st = iv
    return {lb} if st == 0 else set(range(lb, ub + 1, st))


def _si_members(x, w):
    from vf.contracts import si as SI
    from claripy.backends.backend_vsa import DiscreteStridedIntervalSet as D
    if isinstance(x, D):
        s = set()
        for i in x._si_set:
            s |= SI.py_members(i)
        return s
    if hasattr(x, "lower_bound"):
        return SI.py_members(x)
    return None


OPS = {"__add__": lambda x, y, M: (x + y) % M, "__sub__": lambda x, y, M: (x - y) % M, "__and__": lambda x, y, M: x & y,
       "__or__": lambda x, y, M: x | y, "__xor__": lambda x, y, M: x ^ y}


def dsis(shard=0, nshards=1, w=3, budget_s=60, known_labels=()):
    from claripy.backends.backend_vsa import StridedInterval as SI, DiscreteStridedIntervalSet as D
    import claripy.backends.backend_vsa.strided_interval as sim
    M = 1 << w
    pool = _pool(w)
    t0 = time.time()
    evals, distinct, failures, kh, samples = 0, 0, [], {}, []
    mk = lambda iv: SI(bits=w, stride=iv[2], lower_bound=iv[0], upper_bound=iv[1])
    pairs = list(itertools.combinations(pool[::3], 2))
    with sim._allow_dsis(True):
        for idx, (i1, i2) in enumerate(pairs):
            if idx % nshards != shard:
                continue
            if time.time() - t0 > budget_s:
                break
            d = D(bits=w, si_set={mk(i1), mk(i2)})
            dm = _mem(i1, w) | _mem(i2, w)
            for i3 in pool[shard::17]:
                o = mk(i3)
                om = _mem(i3, w)
                for op, ref in OPS.items():
                    evals += 1
                    try:
                        r = getattr(d, op)(o)
                    except Exception as ex:  # noqa
                        lab = f"dsis/raises-{type(ex).__name__}[{op}]"
                        _rec(failures, kh, known_labels, lab, f"DSIS{{{i1},{i2}}}.{op}({i3}) raised {type(ex).__name__}: {ex}", {"d": [i1, i2], "o": i3, "op": op})
                        continue
                    rm = _si_members(r, w)
                    if rm is None:
                        continue
                    distinct += 1
                    want = {ref(x, y, M) for x in dm for y in om}
                    if not want <= rm:
                        _rec(failures, kh, known_labels, f"dsis/not-contained[{op}]",
                             f"DSIS{{{i1},{i2}}}.{op}({i3}) = {r}: misses {sorted(want - rm)[:6]}", {"d": [i1, i2], "o": i3, "op": op})
                if len(failures) >= 5:
                    break
            # queries
            evals += 1
            ev = set(d.eval(64))
            if not ev <= dm or (len(ev) < len(dm) and len(ev) < 64):
                _rec(failures, kh, known_labels, "dsis/eval", f"DSIS{{{i1},{i2}}}.eval = {sorted(ev)} members {sorted(dm)}", {"d": [i1, i2]})
            if d.cardinality < len(dm):
                _rec(failures, kh, known_labels, "dsis/cardinality-under", f"cardinality {d.cardinality} < {len(dm)} members", {"d": [i1, i2]})
            u = d.union(mk(pool[(idx * 7) % len(pool)]))
            um = _si_members(u, w)
            if um is not None and not (dm | _mem(pool[(idx * 7) % len(pool)], w)) <= um:
                _rec(failures, kh, known_labels, "dsis/union", f"union loses members", {"d": [i1, i2]})
            if len(samples) < 2:
                samples.append({"dsis": [i1, i2], "members": sorted(dm)})
            if len(failures) >= 5:
                break
    return {"status": "violated" if failures else "ok", "evaluations": evals, "distinct_nontrivial": distinct, "failures": failures[:5],
            "n_failures": len(failures), "known_hits": kh, "samples": samples, "reason": "",
            "rule": f"pairs of plain strided intervals (width {w}, strides 1/2/4) as DSIS x interval operand x 5 lifted operations, all member pairs; nontrivial = operation returned an interval (set)"}


def _rec(failures, kh, known, lab, detail, wit):
    if lab in known:
        kh[lab] = kh.get(lab, 0) + 1
    else:
        failures.append({"label": lab, "kind": "bounded", "witness": wit, "detail": detail})


def valuesets(shard=0, nshards=1, w=3, budget_s=60, known_labels=()):
    from claripy.backends.backend_vsa import StridedInterval as SI, ValueSet as VS
    M = 1 << w
    pool = _pool(w)[::2]
    mk = lambda iv: SI(bits=w, stride=iv[2], lower_bound=iv[0], upper_bound=iv[1])
    t0 = time.time()
    evals, distinct, failures, kh, samples = 0, 0, [], {}, []

    def vs(assign):
        v = VS(bits=w)
        for reg, iv in assign.items():
            v._set_si(reg, 0, mk(iv))
        return v

    def regs(v):
        return {r: _si_members(s, w) for r, s in v.regions.items()}
    combos = list(itertools.product(pool[shard::nshards][:12], pool[::5][:8], pool[::7][:6]))
    for (a, b, o) in combos:
        if time.time() - t0 > budget_s:
            break
        for assign1, assign2 in (({"global": a}, {"global": b}), ({"global": a, "stack": b}, {"stack": a}), ({"stack": a}, {"global": b, "stack": b})):
            v1, v2 = vs(assign1), vs(assign2)
            osi = mk(o)
            om = _mem(o, w)
            # VS op SI: per region pointwise
            for op, ref in (("__add__", OPS["__add__"]), ("__sub__", OPS["__sub__"]), ("__and__", OPS["__and__"])):
                evals += 1
                try:
                    r = getattr(v1, op)(osi)
                except Exception as ex:  # noqa
                    _rec(failures, kh, known_labels, f"vs/raises-{type(ex).__name__}[{op}]", f"VS{assign1}.{op}({o}) raised {type(ex).__name__}: {ex}", {"vs": str(assign1), "o": o})
                    continue
                if not isinstance(r, VS):
                    rm = _si_members(r, w)
                    if rm is not None and op == "__and__":
                        continue       # masking a pointer may yield a plain interval (documented)
                    continue
                distinct += 1
                rr = regs(r)
                for reg, iv in assign1.items():
                    want = {ref(x, y, M) for x in _mem(iv, w) for y in om}
                    if reg not in rr or not want <= rr[reg]:
                        _rec(failures, kh, known_labels, f"vs/not-contained[{op}]", f"VS{assign1}.{op}({o}) = {r}: region {reg} misses {sorted(want - rr.get(reg, set()))[:6]}", {"vs": str(assign1), "o": o})
            # union / intersection per region
            evals += 1
            try:
                u = v1.union(v2)
                ru = regs(u)
                for reg in set(assign1) | set(assign2):
                    want = (_mem(assign1[reg], w) if reg in assign1 else set()) | (_mem(assign2[reg], w) if reg in assign2 else set())
                    if not want <= ru.get(reg, set()):
                        _rec(failures, kh, known_labels, "vs/union", f"VS{assign1}.union(VS{assign2}) = {u}: region {reg} misses {sorted(want - ru.get(reg, set()))}", {"a": str(assign1), "b": str(assign2)})
                it = v1.intersection(v2)
                ri = regs(it) if isinstance(it, VS) else {}
                for reg in set(assign1) & set(assign2):
                    want = _mem(assign1[reg], w) & _mem(assign2[reg], w)
                    if not want <= ri.get(reg, set()):
                        _rec(failures, kh, known_labels, "vs/intersection", f"VS{assign1}.intersection(VS{assign2}) = {it}: region {reg} misses {sorted(want - ri.get(reg, set()))}", {"a": str(assign1), "b": str(assign2)})
            except Exception as ex:  # noqa
                _rec(failures, kh, known_labels, f"vs/raises-{type(ex).__name__}[union/intersection]", f"{type(ex).__name__}: {ex}", {"a": str(assign1), "b": str(assign2)})
            if len(samples) < 2:
                samples.append({"vs": str(assign1), "other": str(assign2)})
        if len(failures) >= 5:
            break
    return {"status": "violated" if failures else "ok", "evaluations": evals, "distinct_nontrivial": distinct, "failures": failures[:5],
            "n_failures": len(failures), "known_hits": kh, "samples": samples, "reason": "",
            "rule": f"value sets over regions {{global, stack}} from plain intervals (width {w}); per-region containment of add/sub/and with an interval, union, intersection; nontrivial = result is a value set"}


def replay(task, failure):
    """Native replay on the real classes: the witness is re-built and the failed clause re-evaluated."""
    import ast as _ast
    from claripy.backends.backend_vsa import StridedInterval as SI, DiscreteStridedIntervalSet as D, ValueSet as VS
    import claripy.backends.backend_vsa.strided_interval as sim
    wit = failure.get("witness") or {}
    lab = failure.get("label", "")
    w = (task.get("kwargs") or {}).get("w", 3)
    M = 1 << w
    mk = lambda iv: SI(bits=w, stride=iv[2], lower_bound=iv[0], upper_bound=iv[1])
    tup = lambda iv: tuple(iv)
    try:
        if lab.startswith("dsis/"):
            i1, i2 = map(tup, wit["d"])
            dm = _mem(i1, w) | _mem(i2, w)
            with sim._allow_dsis(True):
                d = D(bits=w, si_set={mk(i1), mk(i2)})
                if "op" in wit:
                    i3 = tup(wit["o"])
                    try:
                        r = getattr(d, wit["op"])(mk(i3))
                    except Exception as ex:  # noqa
                        return {"reproduced": "raises" in lab, "text": f"DSIS{{{i1},{i2}}}.{wit['op']}({i3}) raised {type(ex).__name__}: {ex}"}
                    rm = _si_members(r, w)
                    want = {OPS[wit["op"]](x, y, M) for x in dm for y in _mem(i3, w)}
                    bad = rm is not None and not want <= rm
                    return {"reproduced": bool(bad) and "not-contained" in lab,
                            "text": f"DSIS{{{i1},{i2}}}.{wit['op']}({i3}) = {r}: members {sorted(rm) if rm is not None else None}, pointwise results {sorted(want)}"}
                ev = set(d.eval(64))
                bad = (not ev <= dm or (len(ev) < len(dm) and len(ev) < 64)) if lab == "dsis/eval" else \
                      (d.cardinality < len(dm)) if lab == "dsis/cardinality-under" else None
                if bad is None:
                    return {"reproduced": False, "text": "clause " + lab + " is re-checked by re-running the task only; detail: " + failure.get("detail", "")}
                return {"reproduced": bool(bad), "text": f"DSIS{{{i1},{i2}}}: eval {sorted(ev)}, cardinality {d.cardinality}, members {sorted(dm)}"}
        if lab.startswith("vs/"):
            def vs(assign):
                v = VS(bits=w)
                for reg, iv in assign.items():
                    v._set_si(reg, 0, mk(iv))
                return v
            regs = lambda v: {r: _si_members(x, w) for r, x in v.regions.items()}
            if "vs" in wit:
                a1 = _ast.literal_eval(wit["vs"])
                o = tup(wit["o"])
                op = lab[lab.index("[") + 1:-1]
                try:
                    r = getattr(vs(a1), op)(mk(o))
                except Exception as ex:  # noqa
                    return {"reproduced": "raises" in lab, "text": f"VS{a1}.{op}({o}) raised {type(ex).__name__}: {ex}"}
                if not isinstance(r, VS):
                    return {"reproduced": False, "text": f"VS{a1}.{op}({o}) = {r} (not a value set)"}
                rr = regs(r)
                bad = any(reg not in rr or not {OPS[op](x, y, M) for x in _mem(iv, w) for y in _mem(o, w)} <= rr[reg] for reg, iv in a1.items())
                return {"reproduced": bool(bad) and "not-contained" in lab, "text": f"VS{a1}.{op}({o}) = {r}"}
            a1, a2 = _ast.literal_eval(wit["a"]), _ast.literal_eval(wit["b"])
            try:
                u, it = vs(a1).union(vs(a2)), vs(a1).intersection(vs(a2))
            except Exception as ex:  # noqa
                return {"reproduced": "raises" in lab, "text": f"VS{a1} union/intersection VS{a2} raised {type(ex).__name__}: {ex}"}
            ru, ri = regs(u), (regs(it) if isinstance(it, VS) else {})
            m = lambda a, reg: _mem(a[reg], w) if reg in a else set()
            bad_u = any(not (m(a1, reg) | m(a2, reg)) <= ru.get(reg, set()) for reg in set(a1) | set(a2))
            bad_i = any(not (m(a1, reg) & m(a2, reg)) <= ri.get(reg, set()) for reg in set(a1) & set(a2))
            return {"reproduced": bool(bad_u if lab == "vs/union" else bad_i if lab == "vs/intersection" else False),
                    "text": f"VS{a1} , VS{a2}: union {u}, intersection {it}"}
    except Exception as ex:  # noqa
        return {"reproduced": False, "text": f"replay could not re-build the witness: {type(ex).__name__}: {ex}"}
    return {"reproduced": False, "text": "no native reproducer for clause " + lab}
