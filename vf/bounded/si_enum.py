"""Bounded checks on the real StridedInterval code, natively (never counted as proved):
  mci      : the assumed contract of _minimal_common_integer_splitted (used by the C21/C22 proofs) against brute
             force, for EVERY pair of non-wrapping intervals of width <= wmax."""
from __future__ import annotations

import itertools
import time


def _members(lb, ub, st, w):
    if st == 0:
        return {lb}
    return {v for v in range(1 << w) if (v - lb) % (1 << w) <= (ub - lb) % (1 << w) and ((v - lb) % (1 << w)) % st == 0}


def all_intervals(w, wrapping=True):
    M = 1 << w
    for lb in range(M):
        for ub in range(M):
            if not wrapping and lb > ub:
                continue
            if lb == ub:
                yield (lb, ub, 0)
                continue
            span = (ub - lb) % M
            for st in range(1, M):
                if span % st == 0:
                    yield (lb, ub, st)


def mci(wmax=4, budget_s=120, known_labels=()):
    from claripy.backends.backend_vsa import StridedInterval as SI
    t0 = time.time()
    evals, distinct, failures = 0, 0, []
    samples = []
    for w in range(1, wmax + 1):
        ivs = list(all_intervals(w, wrapping=False))
        for a, b in itertools.product(ivs, ivs):
            if time.time() - t0 > budget_s:
                return {"status": "ok" if not failures else "violated", "evaluations": evals, "distinct_nontrivial": distinct,
                        "failures": failures[:5], "n_failures": len(failures), "samples": samples, "reason": "budget reached (partial)",
                        "rule": "all pairs of non-wrapping intervals, widths ascending; nontrivial = both non-constant", "exhaustive": False}
            sa = SI(bits=w, stride=a[2], lower_bound=a[0], upper_bound=a[1])
            sb = SI(bits=w, stride=b[2], lower_bound=b[0], upper_bound=b[1])
            common = _members(*a, w) & _members(*b, w)
            want = min(common) if common else None
            try:
                got = SI._minimal_common_integer_splitted(sa, sb)
            except Exception as e:  # noqa
                got = f"{type(e).__name__}: {e}"
            evals += 1
            if a[2] and b[2]:
                distinct += 1
            if len(samples) < 2 and common and a[2] and b[2]:
                samples.append({"a": a, "b": b, "w": w, "result": got})
            if got != want:
                failures.append({"label": "mci_splitted/contract", "kind": "bounded", "witness": {"w": w, "a": a, "b": b, "got": str(got), "want": want},
                                 "detail": f"_minimal_common_integer_splitted({sa}, {sb}) = {got}, least common member is {want}"})
    real = [f for f in failures if f["label"] not in known_labels]
    return {"status": "violated" if real else "ok", "evaluations": evals, "distinct_nontrivial": distinct, "failures": real[:5],
            "n_failures": len(real), "samples": samples, "reason": "", "exhaustive": True,
            "rule": f"every pair of non-wrapping strided intervals of width 1..{wmax}; nontrivial = both non-constant"}


def replay_mci(task, failure):
    from claripy.backends.backend_vsa import StridedInterval as SI
    w = failure["witness"]
    a, b, bits = w["a"], w["b"], w["w"]
    got = SI._minimal_common_integer_splitted(SI(bits=bits, stride=a[2], lower_bound=a[0], upper_bound=a[1]),
                                             SI(bits=bits, stride=b[2], lower_bound=b[0], upper_bound=b[1]))
    common = _members(*a, bits) & _members(*b, bits)
    want = min(common) if common else None
    return {"reproduced": got != want, "text": f"_minimal_common_integer_splitted = {got}, brute force {want}"}


def _ref_mci(a, b):
    """least common member of two non-wrapping intervals (lb, ub, st) of any width, exactly: scan the residues of the smaller stride
    cycle (at most lcm/st_a <= st_b steps are needed; bounded by `limit`)"""
    (la, ua, sa), (lb_, ub_, sb) = a, b
    if sa == 0:
        return la if (lb_ <= la <= ub_ and (sb == 0 and la == lb_ or sb and (la - lb_) % sb == 0)) else None
    if sb == 0:
        return _ref_mci(b, a)
    lo = max(la, lb_)
    # first member of a that is >= lo
    v = la + ((lo - la + sa - 1) // sa) * sa
    for _ in range(sb + 1):
        if v > ua or v > ub_:
            return None
        if (v - lb_) % sb == 0:
            return v
        v += sa
    return None


def mci_wide(seed=0, n=4000, budget_s=60, known_labels=()):
    """the same contract at 16..64 bits, where no enumeration of members is possible: directed random intervals whose bounds sit near
    2^w (where the quotients of the Diophantine solver exceed 2^53) and small coprime / non-coprime strides, reference = exact scan"""
    import random
    from claripy.backends.backend_vsa import StridedInterval as SI
    rnd = random.Random(seed * 7919 + 13)
    t0 = time.time()
    evals = distinct = 0
    failures, samples = [], []
    small = [1, 2, 3, 4, 5, 6, 7, 8, 12, 16, 24, 31, 32, 100, 255, 256, 1000]
    for i in range(n):
        if time.time() - t0 > budget_s:
            break
        w = rnd.choice([16, 32, 48, 63, 64])
        M = 1 << w

        def one():
            st = rnd.choice(small)
            hi = rnd.random() < 0.7
            ub = M - 1 - rnd.randrange(0, 64) if hi else rnd.randrange(M)
            span = rnd.choice([rnd.randrange(0, 4096), rnd.randrange(0, M)]) if rnd.random() < 0.5 else ub
            lb = max(0, ub - (span // st) * st)
            if (ub - lb) % st:
                lb = ub - ((ub - lb) // st) * st
            return (lb, ub, st if lb != ub else 0)
        a, b = one(), one()
        want = _ref_mci(a, b)
        sa = SI(bits=w, stride=a[2], lower_bound=a[0], upper_bound=a[1])
        sb = SI(bits=w, stride=b[2], lower_bound=b[0], upper_bound=b[1])
        try:
            got = SI._minimal_common_integer_splitted(sa, sb)
        except Exception as e:  # noqa
            got = f"{type(e).__name__}: {e}"
        evals += 1
        if a[2] and b[2] and want is not None:
            distinct += 1
            if len(samples) < 2:
                samples.append({"a": a, "b": b, "w": w, "result": got})
        if got != want:
            failures.append({"label": "mci_splitted/contract-wide", "kind": "bounded", "witness": {"w": w, "a": a, "b": b, "got": str(got), "want": want},
                             "detail": f"_minimal_common_integer_splitted({sa}, {sb}) = {got}, least common member is {want}"})
    real = [f for f in failures if f["label"] not in known_labels]
    return {"status": "violated" if real else "ok", "evaluations": evals, "distinct_nontrivial": distinct, "failures": real[:5],
            "n_failures": len(real), "samples": samples, "reason": "", "exhaustive": False,
            "rule": f"{evals} directed random pairs of non-wrapping intervals at 16..64 bits with bounds near 2^w; nontrivial = both non-constant with a common member"}


def replay_mci_wide(task, failure):
    from claripy.backends.backend_vsa import StridedInterval as SI
    w = failure["witness"]
    a, b, bits = tuple(w["a"]), tuple(w["b"]), w["w"]
    got = SI._minimal_common_integer_splitted(SI(bits=bits, stride=a[2], lower_bound=a[0], upper_bound=a[1]),
                                             SI(bits=bits, stride=b[2], lower_bound=b[0], upper_bound=b[1]))
    want = _ref_mci(a, b)
    return {"reproduced": got != want, "text": f"_minimal_common_integer_splitted at {bits} bits = {got}, exact scan {want}"}
