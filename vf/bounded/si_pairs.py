"""Bounded, native, exhaustive (never counted as proved): every strided-interval operation of C21 / C22 on EVERY pair of well-formed strided
intervals of a width (every bound pair, every stride that divides the span, wrapping forms included), with every member pair enumerated.

This is the property's own quantifier at small widths.  It complements the proofs, which exclude the input classes of the recorded findings
and the NOT-PROVED classes: here nothing is excluded by class.  The inputs that fail on the unchanged tree are listed one by one in
vf/contracts/si_known_cases.json (written by tools/si_known_cases.py, read-only at run time); a failing input that is not in that list is a
violation, whatever class it belongs to.
"""
from __future__ import annotations

import gzip
import json
import os
import time

from vf.bounded.si_enum import all_intervals, _members

HERE = os.path.dirname(os.path.abspath(__file__))
KNOWN_FILE = os.path.join(os.path.dirname(HERE), "contracts", "si_known_cases.json.gz")


def _sg(v, w):
    return v - (1 << w) if v >> (w - 1) else v


def _sdiv(x, y, w):
    a, b = _sg(x, w), _sg(y, w)
    q = abs(a) // abs(b)
    return (q if (a < 0) == (b < 0) else -q) % (1 << w)


BIN = {
    "add": lambda x, y, w: (x + y) % (1 << w), "sub": lambda x, y, w: (x - y) % (1 << w), "mul": lambda x, y, w: (x * y) % (1 << w),
    "udiv": lambda x, y, w: x // y if y else None, "sdiv": lambda x, y, w: _sdiv(x, y, w) if y else None, "__mod__": lambda x, y, w: x % y if y else None,
    "bitwise_or": lambda x, y, w: x | y, "bitwise_and": lambda x, y, w: x & y, "bitwise_xor": lambda x, y, w: x ^ y,
    "lshift": lambda x, y, w: (x << y) % (1 << w) if y < w else 0, "rshift_logical": lambda x, y, w: x >> y if y < w else 0,
    "rshift_arithmetic": lambda x, y, w: (_sg(x, w) >> min(y, w)) % (1 << w),
}
CMP = {
    "SLT": lambda x, y, w: _sg(x, w) < _sg(y, w), "SLE": lambda x, y, w: _sg(x, w) <= _sg(y, w), "SGT": lambda x, y, w: _sg(x, w) > _sg(y, w),
    "SGE": lambda x, y, w: _sg(x, w) >= _sg(y, w), "ULT": lambda x, y, w: x < y, "ULE": lambda x, y, w: x <= y, "UGT": lambda x, y, w: x > y,
    "UGE": lambda x, y, w: x >= y, "eq": lambda x, y, w: x == y,
}
JOIN = ["union", "widen"]
MEET = ["intersection"]
UN = {"neg": lambda x, w: (-x) % (1 << w), "bitwise_not": lambda x, w: (~x) % (1 << w)}
QUERIES = ["eval", "min", "max", "cardinality", "solution"]
OPS = list(BIN) + list(CMP) + JOIN + MEET + list(UN) + QUERIES


def members_of(si, w):
    if si.is_empty:
        return set()
    return _members(si.lower_bound, si.upper_bound, si.stride, si.bits)


def fails(op, w, a, b, SI, BoolResult):
    """None if the operation is sound / exact on this input, else a short description"""
    sa = SI(bits=w, stride=a[2], lower_bound=a[0], upper_bound=a[1])
    A = _members(*a, w)
    if op in UN or op in QUERIES:
        try:
            if op in UN:
                r = getattr(sa, op)()
                want = {UN[op](x, w) for x in A}
                got = members_of(r, w)
                return None if want <= got else f"loses {sorted(want - got)}"
            if op == "eval":
                for n in (1, 2, 1 << w):
                    for signed in (False, True):
                        r = [x % (1 << w) for x in sa.eval(n, signed=signed)]
                        if any(x not in A for x in r) or len(set(r)) != len(r) or len(r) != min(n, len(A)):
                            return f"eval({n}, signed={signed}) = {r}"
                return None
            if op in ("min", "max"):
                for signed in (False, True):
                    r = getattr(sa, op)(signed=signed)
                    key = (lambda v: _sg(v, w)) if signed else (lambda v: v)
                    best = (min if op == "min" else max)(A, key=key)
                    if r is None or r % (1 << w) != best or (signed and r != _sg(best, w)):
                        return f"{op}(signed={signed}) = {r}, want {key(best)}"
                return None
            if op == "cardinality":
                return None if sa.cardinality == len(A) else f"cardinality {sa.cardinality} != {len(A)}"
            if op == "solution":
                for v in range(1 << w):
                    if bool(sa.solution(v)) != (v in A):
                        return f"solution({v}) = {sa.solution(v)}"
                return None
        except Exception as e:  # noqa
            return f"raises {type(e).__name__}"
    sb = SI(bits=w, stride=b[2], lower_bound=b[0], upper_bound=b[1])
    B = _members(*b, w)
    try:
        r = getattr(sa, op)(sb)
    except Exception as e:  # noqa
        return f"raises {type(e).__name__}"
    if op in CMP:
        if not isinstance(r, BoolResult):
            return f"returns {type(r).__name__}"
        want = {CMP[op](x, y, w) for x in A for y in B}
        return None if want <= set(r.value) else f"truth values {sorted(want)} not in {r.value}"
    got = members_of(r, w)
    if op in BIN:
        want = {BIN[op](x, y, w) for x in A for y in B} - {None}
    elif op in JOIN:
        want = A | B
    else:
        want = A & B
    return None if want <= got else f"loses {sorted(want - got)[:6]}"


_known = None


def known_cases():
    global _known
    if _known is None:
        try:
            with gzip.open(KNOWN_FILE, "rt") as fh:
                raw = json.load(fh)
            _known = {k: {tuple(tuple(p) if isinstance(p, list) else p for p in case) for case in v} for k, v in raw.items()}
        except FileNotFoundError:
            _known = {}
    return _known


def _pairs(op, w):
    ivs = list(all_intervals(w, wrapping=True))
    if op in UN or op in QUERIES:
        for a in ivs:
            yield a, None
    else:
        for a in ivs:
            for b in ivs:
                yield a, b


def run(op, w, shard=0, nshards=1, budget_s=200, collect=False):
    from claripy.backends.backend_vsa import StridedInterval as SI
    from claripy.backends.backend_vsa.bool_result import BoolResult
    import logging
    logging.getLogger("claripy.backends.backend_vsa.strided_interval").setLevel(logging.ERROR)
    t0 = time.time()
    kn = known_cases().get(f"{op}@w{w}", set())
    evals = distinct = 0
    failures, found = [], []
    known_hits = 0
    for i, (a, b) in enumerate(_pairs(op, w)):
        if i % nshards != shard:
            continue
        if time.time() - t0 > budget_s:
            return {"status": "violated" if failures else "ok", "evaluations": evals, "distinct_nontrivial": distinct, "failures": failures[:5], "n_failures": len(failures),
                    "reason": "budget reached (partial)", "exhaustive": False, "known_hits": known_hits,
                    "rule": f"{op}: all pairs of well-formed strided intervals of width {w} in enumeration order until the budget; nontrivial = both non-constant"}
        evals += 1
        if a[2] and (b is None or b[2]):
            distinct += 1
        why = fails(op, w, a, b, SI, BoolResult)
        if why is None:
            continue
        case = (a, b) if b is not None else (a,)
        if collect:
            found.append([list(a)] + ([list(b)] if b is not None else []))
            continue
        if case in kn:
            known_hits += 1
            continue
        if len(failures) < 5:
            call = f"SI(bits={w},stride={a[2]},lower_bound={a[0]},upper_bound={a[1]}).{op}(" + (f"SI(bits={w},stride={b[2]},lower_bound={b[0]},upper_bound={b[1]})" if b is not None else "") + ")"
            failures.append({"label": f"si.{op}/exhaustive@w{w}", "kind": "bounded", "witness": {"op": op, "w": w, "a": list(a), "b": list(b) if b is not None else None},
                             "detail": f"{call}: {why}"})
        else:
            failures.append(None)
    if collect:
        return found
    n = len(failures)
    failures = [f for f in failures if f]
    return {"status": "violated" if n else "ok", "evaluations": evals, "distinct_nontrivial": distinct, "failures": failures, "n_failures": n, "reason": "",
            "exhaustive": True, "known_hits": known_hits,
            "rule": f"{op}: every pair of well-formed strided intervals of width {w} (all bound pairs, strides dividing the span, wrapping forms), every member pair; "
                    f"inputs listed in si_known_cases.json are the recorded findings; nontrivial = both non-constant"}


def replay(task, failure):
    from claripy.backends.backend_vsa import StridedInterval as SI
    from claripy.backends.backend_vsa.bool_result import BoolResult
    w = failure["witness"]
    why = fails(w["op"], w["w"], tuple(w["a"]), tuple(w["b"]) if w.get("b") else None, SI, BoolResult)
    return {"reproduced": why is not None, "text": f"{w['op']} at {w['w']} bits on a={w['a']} b={w.get('b')} (lb, ub, stride): {why or 'sound'}"}


def run_history(ops=("eval", "min", "max", "cardinality", "solution", "union", "intersection", "add", "ULT", "SLT"), widths=(2, 3, 2, 1, 3), budget_s=200):
    """the same exhaustive enumeration, but several widths one after the other IN ONE PROCESS and in an order that revisits a width: the result
    of an operation on an interval must not depend on what was computed before (a memo keyed without the width, a shared scratch object).
    Every (operation, width) is enumerated once per occurrence in `widths`; the failing inputs must be exactly the recorded ones each time."""
    t0 = time.time()
    total = {"status": "ok", "evaluations": 0, "distinct_nontrivial": 0, "failures": [], "n_failures": 0, "known_hits": 0, "exhaustive": True, "reason": "",
             "rule": f"operations {list(ops)} on every well-formed strided interval (pair) at widths {list(widths)} in this order in one process; "
                     "failing inputs must be the recorded ones at every visit"}
    for visit, w in enumerate(widths):
        for op in ops:
            r = run(op, w, budget_s=max(5, budget_s - (time.time() - t0)))
            total["evaluations"] += r["evaluations"]
            total["distinct_nontrivial"] += r["distinct_nontrivial"]
            total["known_hits"] += r.get("known_hits", 0)
            if not r.get("exhaustive", True):
                total["exhaustive"] = False
                total["reason"] = "budget reached (partial)"
            for f in r["failures"]:
                f = dict(f, label=f["label"] + f"/after-history", detail=f"[visit {visit + 1} of widths {list(widths)}] " + f["detail"])
                total["failures"].append(f)
            total["n_failures"] += r["n_failures"]
    if total["n_failures"]:
        total["status"] = "violated"
    total["failures"] = total["failures"][:5]
    return total


def run_lub3(w, shard=0, nshards=1, budget_s=200):
    """least_upper_bound of THREE operands (the arity at which it runs its own rotation loop instead of delegating to pseudo_join): every triple
    of well-formed strided intervals of the width; the result must contain every member of every operand.  No known-case list: the unchanged
    tree has no failing triple."""
    from claripy.backends.backend_vsa import StridedInterval as SI
    import logging
    logging.getLogger("claripy.backends.backend_vsa.strided_interval").setLevel(logging.ERROR)
    t0 = time.time()
    ivs = list(all_intervals(w, wrapping=True))
    mems = [_members(*a, w) for a in ivs]
    evals = distinct = n = 0
    failures = []
    exhaustive = True
    for i, a in enumerate(ivs):
        if i % nshards != shard:
            continue
        if time.time() - t0 > budget_s:
            exhaustive = False
            break
        for j, b in enumerate(ivs):
            for k, d in enumerate(ivs):
                evals += 1
                if a[2] and b[2] and d[2]:
                    distinct += 1
                mk = lambda t: SI(bits=w, stride=t[2], lower_bound=t[0], upper_bound=t[1])
                try:
                    got = members_of(SI.least_upper_bound(mk(a), mk(b), mk(d)), w)
                    want = mems[i] | mems[j] | mems[k]
                    why = None if want <= got else f"loses {sorted(want - got)[:6]}"
                except Exception as e:  # noqa
                    why = f"raises {type(e).__name__}"
                if why:
                    n += 1
                    if len(failures) < 5:
                        failures.append({"label": f"si.least_upper_bound3/exhaustive@w{w}", "kind": "bounded", "witness": {"w": w, "a": list(a), "b": list(b), "d": list(d)},
                                         "detail": f"least_upper_bound of (lb, ub, stride) {a}, {b}, {d} at {w} bits: {why}"})
    return {"status": "violated" if n else "ok", "evaluations": evals, "distinct_nontrivial": distinct, "failures": failures, "n_failures": n,
            "reason": "" if exhaustive else "budget reached (partial)", "exhaustive": exhaustive,
            "rule": f"least_upper_bound(a, b, d): every triple of well-formed strided intervals of width {w} (shard {shard} of {nshards} by first operand), every member; nontrivial = all three non-constant"}


def replay_lub3(task, failure):
    from claripy.backends.backend_vsa import StridedInterval as SI
    t = failure["witness"]
    w = t["w"]
    mk = lambda x: SI(bits=w, stride=x[2], lower_bound=x[0], upper_bound=x[1])
    try:
        r = SI.least_upper_bound(mk(t["a"]), mk(t["b"]), mk(t["d"]))
        got = members_of(r, w)
        want = _members(*t["a"], w) | _members(*t["b"], w) | _members(*t["d"], w)
        return {"reproduced": not want <= got, "text": f"least_upper_bound({mk(t['a'])}, {mk(t['b'])}, {mk(t['d'])}) = {r}: members {sorted(got)} must contain {sorted(want)}"}
    except Exception as e:  # noqa
        return {"reproduced": True, "text": f"least_upper_bound of {t} raises {type(e).__name__}: {e}"}
