"""C13 - replacement and hybrid solvers agree with a plain solver.  Mixed: ReplacementFrontend proved in isolation, histories bounded."""
from vf.common import task
from vf.props import _rtc

LEVEL = "other"
LEVEL_TEXT = ("Mixed.  PROVED: the real ReplacementFrontend (default safe settings) in isolation over a finite semantic universe, started in an "
              "arbitrary state satisfying its representation invariant (every entry of _replacements and of _replacement_cache is implied by the "
              "constraints; the constraints handed to the actual frontend have the models of the constraints that were added): every query method "
              "hands the actual frontend a query that is equivalent to the original one on every model and returns its answer unchanged; _add "
              "(equality, negation, other, batch) derives only implied replacements and keeps the actual frontend's model set equal to the "
              "specification's; _replacement, downsize, remove/clear_replacements keep the invariant; _copy/_blank_copy give the branch its own "
              "dictionaries.  replace_dict and the actual frontend are answered by contract.  The real HybridFrontend on top of contract stubs of "
              "its two frontends: in exact mode the exact frontend is asked the caller's question and its answer returned unchanged, in "
              "approximate mode the approximate frontend's answer (the exact one's only when it gives up), _approximate_first_call returns a "
              "prefix of one of the two answers; _add / combine / merge / split / branch keep 'both frontends hold the solver's constraints and "
              "no frontend is shared between solvers' (each piece of a split gets its own approximate frontend).  BOUNDED (never counted as proved): operation "
              "histories on the real SolverReplacement / SolverHybrid / SolverVSA classes judged by a stateless reference (exact modes by "
              "equality, approximate modes by containment).")
EXPLANATION = ("proved: 19 per-method obligations of HybridFrontend over stub frontends, 18 per-method obligations of ReplacementFrontend over a universe of 4 assignments and 2-bit values; bounded: histories "
               "on the real solver classes under the option combinations")
TECHNIQUE = "class-in-isolation deductive proof of ReplacementFrontend's representation invariant and query equivalence (pyvc, z3) + bounded run-time contracts on histories"
RULE = _rtc.RTC_RULE
M = "vf.contracts.replfront"
FUNCTIONS = ["HybridFrontend." + m for m in ["_do_call", "_hybrid_call", "_approximate_first_call", "eval", "eval_to_ast", "batch_eval", "max", "min", "solution", "is_true",
                                             "is_false", "satisfiable", "unsat_core", "_add", "combine", "merge", "split", "_copy", "_blank_copy", "simplify", "downsize",
                                             "finalize"]] + \
            ["ReplacementFrontend." + m for m in ["eval", "batch_eval", "max", "min", "solution", "is_true", "is_false", "satisfiable", "_add", "add_replacement",
                                                  "_replacement", "_replace_list", "_copy", "_blank_copy", "downsize", "remove_replacements", "clear_replacements"]] + \
            ["LightFrontend." + m + " (the approximate frontend / SolverVSA: never excludes a value that exists; a backend refusal surfaces as ClaripyFrontendError, shared with C24)" for m in ["eval", "min", "max", "solution", "is_true", "is_false", "satisfiable", "batch_eval"]] + \
            ["ConcreteHandlerMixin / ConstraintDeduplicatorMixin / EagerResolutionMixin / ConstraintFilterMixin / SimplifySkipperMixin of the SolverReplacement and SolverHybrid stacks (vf/contracts/layers.py, shared with C11)"]
TRUSTED = _rtc.RTC_TRUSTED + ["contract of claripy.replace_dict (C08): the result agrees with the original wherever the dictionary's equalities hold",
                              "contract of the actual frontend (records constraints, answers queries; its own correctness is C11)"]
ASSUMPTIONS = ["ReplacementFrontend is parametric in the constraint language: the proof is over a universe of 4 assignments and 2-bit values",
               "default safe settings only (auto_replace, not unsafe_replacement, not complex_auto_replace); user-supplied add_replacement() calls are outside the statement",
               "HybridFrontend: the dispatch between the two frontends and the invariant 'both hold the solver's constraints, neither is shared' are proved; that the approximate frontend's ANSWERS over-approximate is proved for LightFrontend over the VSA backend's contract (light.*), the backend's own lemmas are C24's",
               "per-method contracts compose to histories by induction (stated, not mechanised)"]


def tasks(tier, seed=0):
    from vf.contracts import replfront
    from vf.contracts import hybrid
    out = [task(M, "ob_replacement", f"replacement.{m}/equiv+inv", ["C13"] + (["C14"] if "copy" in m else []), method=m, tier=tier) for m in replfront.METHODS]
    out += [task("vf.contracts.hybrid", "ob_hybrid", f"hybrid.{m}/dispatch+inv", ["C13"] + (["C15"] if m.split("[")[0] in ("combine", "merge", "split") else []),
                 method=m, tier=tier) for m in hybrid.METHODS]
    # the thin mixins in the stacks of SolverReplacement / SolverHybrid (the same obligations as under C11)
    from vf.contracts import layers
    out += layers.all_tasks(tier, only=("ConcreteHandlerMixin", "ConstraintDeduplicatorMixin", "EagerResolutionMixin", "ConstraintFilterMixin", "SimplifySkipperMixin"))
    out.append(task("vf.contracts.layers", "ob_stack_composition", "layer.stacks/every-layer-under-contract+caches-over-exact-frontends", ["C11", "C13"], replay="vf.contracts.layers:replay_composition"))
    # "SolverVSA never excludes a value that exists" and the approximate side of SolverHybrid: LightFrontend over the VSA backend's contract
    # (the same obligations as under C24)
    from vf.contracts import vsaops
    out += [task("vf.contracts.vsaops", "ob_light", f"light.{m}/sound", ["C24", "C13"], replay="vf.contracts.vsaops:replay_light", method=m, tier=tier) for m in vsaops.LIGHT_METHODS]
    out.append(task("vf.contracts.canaries", "ob_canaries", "harness.canaries/wrong-methods-are-noticed", ["C03", "C11", "C12", "C13", "C15"], tier=tier))
    return out + _rtc.rtc_tasks("C13", tier, seed)
