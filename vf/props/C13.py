"""C13 (bounded part; proved part to be added)."""
from vf.props import _rtc

LEVEL = "exploration"
LEVEL_TEXT = ("Bounded stand-in only in this round (labelled bounded, never counted as proved): histories on the real solver classes judged by a "
              "stateless reference; exact modes by equality with the reference, approximate modes by containment.")
TECHNIQUE = "bounded run-time contracts on histories (stand-in)"
RULE = _rtc.RTC_RULE
FUNCTIONS = []
TRUSTED = _rtc.RTC_TRUSTED
ASSUMPTIONS = ["bounded histories; see rule"]


def tasks(tier, seed=0):
    return _rtc.rtc_tasks("C13", tier, seed)
