"""C13 - replacement and hybrid solvers agree with a plain solver.  Mixed: ReplacementFrontend proved in isolation, histories bounded."""
from vf.common import task
from vf.props import _rtc

LEVEL = "other"
LEVEL_TEXT = ("Mixed.  PROVED: the real ReplacementFrontend (default safe settings) in isolation over a finite semantic universe, started in an "
              "arbitrary state satisfying its representation invariant (every entry of _replacements and of _replacement_cache is implied by the "
              "constraints; the constraints handed to the actual frontend have the models of the constraints that were added): every query method "
              "hands the actual frontend a query that is equivalent to the original one on every model and returns its answer unchanged; _add "
              "(equality, negation, other, batch) derives only implied replacements and keeps the actual frontend's model set equal to the "
              "specification's; _replacement, downsize, remove/clear_replacements keep the invariant; _copy/_blank_copy give the branch its own "
              "dictionaries.  replace_dict and the actual frontend are answered by contract.  BOUNDED (never counted as proved): operation "
              "histories on the real SolverReplacement / SolverHybrid / SolverVSA classes judged by a stateless reference (exact modes by "
              "equality, approximate modes by containment).")
EXPLANATION = ("proved: 18 per-method obligations of ReplacementFrontend over a universe of 4 assignments and 2-bit values; bounded: histories "
               "on the real solver classes under the option combinations")
TECHNIQUE = "class-in-isolation deductive proof of ReplacementFrontend's representation invariant and query equivalence (pyvc, z3) + bounded run-time contracts on histories"
RULE = _rtc.RTC_RULE
M = "vf.contracts.replfront"
FUNCTIONS = ["ReplacementFrontend." + m for m in ["eval", "batch_eval", "max", "min", "solution", "is_true", "is_false", "satisfiable", "_add", "add_replacement",
                                                  "_replacement", "_replace_list", "_copy", "_blank_copy", "downsize", "remove_replacements", "clear_replacements"]]
TRUSTED = _rtc.RTC_TRUSTED + ["contract of claripy.replace_dict (C08): the result agrees with the original wherever the dictionary's equalities hold",
                              "contract of the actual frontend (records constraints, answers queries; its own correctness is C11)"]
ASSUMPTIONS = ["ReplacementFrontend is parametric in the constraint language: the proof is over a universe of 4 assignments and 2-bit values",
               "default safe settings only (auto_replace, not unsafe_replacement, not complex_auto_replace); user-supplied add_replacement() calls are outside the statement",
               "HybridFrontend is covered by the bounded part only", "per-method contracts compose to histories by induction (stated, not mechanised)"]


def tasks(tier, seed=0):
    from vf.contracts import replfront
    out = [task(M, "ob_replacement", f"replacement.{m}/equiv+inv", ["C13"] + (["C14"] if "copy" in m else []), method=m, tier=tier) for m in replfront.METHODS]
    return out + _rtc.rtc_tasks("C13", tier, seed)
