"""C11 - solver answers are correct after any sequence of operations."""
from vf.common import task
from vf.props import _rtc

LEVEL = "other"
LEVEL_TEXT = _rtc.MIXED
EXPLANATION = ("proved: the solver-object protocol of FullFrontend (15 obligations over a ghost backend: the solver object handed to the backend always holds "
               "the constraints, a shared solver object is cloned before it is extended, answers are returned unchanged, UnsatError / ClaripyFrontendError "
               "exactly when the backend's answer says so, max/min pre-constrain soundly); SatCacheMixin (10 methods) and ModelCacheMixin (min, max, eval, solution, satisfiable, _add) each preserve their cache "
               "invariant and answer per specification, in isolation over a finite universe; the seven thin mixins of the Solver stack (ConstraintExpansion, SimplifyHelper, "
               "SimplifySkipper, ConstraintDeduplicator, ConstraintFilter, ConcreteHandler, EagerResolution: 31 obligations) answer per the same public specification, "
               "change the model set only as the operation says and keep their own invariant; _trivial_model_optimization under contract; bounded: operation histories on Solver, "
               "SolverCacheless, SolverStrings (reuse on/off) judged by a stateless reference")
TECHNIQUE = "mixin-in-isolation deductive proofs (pyvc, z3) + bounded run-time contracts on histories"
RULE = _rtc.RTC_RULE
M = "vf.contracts.mixins"
FUNCTIONS = ["Backend." + m + " (public query method: hands the private method exactly the caller's question)" for m in ["eval", "batch_eval", "min", "max", "solution", "satisfiable", "check_satisfiability"]] + ["BackendZ3." + m + " (delegates exactly the caller's question)" for m in ["_satisfiable", "_solution", "_eval", "_min", "_max"]] + ["SatCacheMixin." + m for m in ["satisfiable", "check_satisfiability", "eval", "batch_eval", "min", "max", "solution", "unsat_core", "simplify", "_add"]] + \
            ["ModelCacheMixin." + m for m in ["min", "max", "eval", "batch_eval", "solution", "satisfiable", "_add", "_get_models", "_get_solutions", "_model_hook"]] + \
            ["BackendZ3._extrema", "BackendZ3._batch_eval"] + \
            ["FullFrontend." + m for m in ["_get_solver", "_add_constraints", "_add", "_copy", "_blank_copy", "simplify", "downsize", "satisfiable", "check_satisfiability",
                                           "eval", "batch_eval", "solution", "is_true", "is_false", "max", "min", "unsat_core"]] + \
            ["ModelCacheMixin._trivial_model_optimization", "ModelCacheMixin.split", "ModelCacheMixin.combine"] + \
            [f"{mx}.{m}" for mx, ms in __import__("vf.contracts.layers", fromlist=["METHODS"]).METHODS.items() for m in ms]
TRUSTED = _rtc.RTC_TRUSTED + ["contract of the stack below each mixin (vf/contracts/mixins.py: Spec, MSpec), incl. BackendZ3._extrema's model-callback behaviour",
                               "contract of ModelCache.eval_ast (value of the expression under the cached model)"]
ASSUMPTIONS = ["FullFrontend protocol: reuse_z3_solver off (the reuse mode is a recorded finding); the single-constraint shortcut of check_satisfiability is covered by the bounded part",
               "mixins are parametric in the constraint language: proofs are over a universe of 8 (SatCache) / 4 (ModelCache) assignments and 2-bit values",
               "ModelCacheMixin.update is not under contract (bounded part only); split/combine are proved under C15",
               "thin mixins: hash() of a constraint identifies it (C06); the one recorded input class (a constant expression queried on an unsatisfiable constraint set, rtc:concrete/answers-on-unsat) is excluded from ConcreteHandlerMixin's clauses",
               "per-layer contracts compose to histories by induction (stated, not mechanised)"]


def tasks(tier, seed=0):
    from vf.contracts import mixins
    out = [task(M, "ob_satcache", f"mixin.SatCacheMixin.{m}/spec+inv", ["C11", "C16"], method=m, tier=tier) for m in mixins.QUERY]
    out += [task(M, "ob_modelcache", f"mixin.ModelCacheMixin.{m}/spec+inv", ["C11"], method=m, tier=tier) for m in mixins.MC_METHODS]
    out.append(task(M, "ob_modelcache_copy", "mixin.ModelCacheMixin._copy/own-containers", ["C14", "C26", "C11"], tier=tier))
    out.append(task(M, "ob_modelcache_trivial", "mixin.ModelCacheMixin._add[variable==constant]/spec+inv", ["C11"], tier=tier))
    from vf.contracts import layers
    out += layers.all_tasks(tier)
    Z = "vf.contracts.z3solve"
    out += [task(Z, "ob_batch_eval", "z3solve._batch_eval/state-restored+results", ["C17", "C14", "C11"], tier=tier),
            task(Z, "ob_extrema", "z3solve._extrema/true-optimum", ["C11", "C17"], tier=tier)]
    out += [task(Z, "ob_thin_wrappers", f"z3solve.BackendZ3.{m}/delegates-the-callers-question", ["C11", "C14", "C17"], which=m, tier=tier) for m in ("_satisfiable", "_solution", "_eval", "_min", "_max")]
    from vf.contracts import backendpub
    out += [task("vf.contracts.backendpub", "ob_public", f"backend.Backend.{m}/hands-the-private-method-the-callers-question", ["C11", "C14", "C17"], method=m, tier=tier) for m in backendpub.METHODS]
    from vf.contracts import fullfront
    out += [task("vf.contracts.fullfront", "ob_fullfront", f"fullfrontend.{m}/protocol", ["C11", "C14"], method=m, tier=tier) for m in fullfront.METHODS]
    out.append(task("vf.contracts.layers", "ob_method_coverage", "layer.methods/every-mixin-method-accounted-for", ["C11", "C14"]))
    out.append(task("vf.contracts.layers", "ob_stack_composition", "layer.stacks/every-layer-under-contract+caches-over-exact-frontends", ["C11", "C13"], replay="vf.contracts.layers:replay_composition"))
    out.append(task("vf.contracts.canaries", "ob_canaries", "harness.canaries/wrong-methods-are-noticed", ["C03", "C11", "C12", "C13", "C15"], tier=tier))
    return out + _rtc.rtc_tasks("C11", tier, seed)
