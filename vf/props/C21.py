"""C21 - strided-interval transfer functions are sound (gamma containment), proved per width on the
real StridedInterval class with symbolic fields."""
from vf.common import task

LEVEL = "proof"
LEVEL_TEXT = ("Per-width deductive proof of gamma containment: the real StridedInterval class (re-loaded from /repo) is instantiated with symbolic "
              "bounds and stride, the real transfer function is executed on every feasible path, and z3 proves that the reference result of every "
              "pair of members is a member of the abstract result - complete in values for each enumerated width.  The transfer functions and input "
              "classes listed as known findings (unsound in the unchanged tree; too large to repair safely) are excluded by their stated input class, "
              "the complement is proved, so any other unsound input is still reported.  For eq() the input classes on which intersection() calls its "
              "Diophantine helper outside the helper's documented assumption (vf/contracts/si_unproved_classes.json) are NOT proved and not claimed "
              "to fail; they are listed in the evidence assumptions.")
TECHNIQUE = "contract-based deductive verification (pyvc symbolic execution of the real class, gamma-containment VCs by z3) + bounded check of one assumed helper contract"
M = "vf.contracts.si"
BIN = ["add", "sub", "mul", "udiv", "sdiv", "__mod__", "bitwise_or", "bitwise_and", "bitwise_xor",
       "lshift", "rshift_logical", "rshift_arithmetic"]
UN = ["neg", "__neg__", "bitwise_not", "__invert__"]
CMP = ["SLT", "SLE", "SGT", "SGE", "ULT", "ULE", "UGT", "UGE", "eq"]
RESIZE = ["extract", "zero_extend", "sign_extend"]
FUNCTIONS = [f"StridedInterval.{n}" for n in BIN + UN + CMP + RESIZE + ["concat", "cast_low", "rshift_logical (inside extract)"]]
TRUSTED = ["z3 4.13 (decides the VCs)", "CPython 3.12 executes the function bodies",
           "contract of math.gcd / math.lcm (vf/contracts/si.py:MathContract)",
           "contract of StridedInterval._minimal_common_integer_splitted (float Diophantine solver; checked exhaustively up to width 4, bounded)"]
RULE = ("bounded parts (never counted as proved): (1) every operation on EVERY pair of well-formed strided intervals of widths 1-3, wrapping forms and "
        "all strides included, every member pair enumerated natively - the inputs that fail on the unchanged tree are listed one by one in "
        "vf/contracts/si_known_cases.json.gz, any other failing input is a violation; (2) the assumed helper contract on every pair of non-wrapping "
        "intervals up to the stated width; nontrivial = both non-constant")
ASSUMPTIONS = ["widths enumerated (quick 1-3, thorough 1-4); each width complete in values",
               "operands are non-reversed, initialised intervals (byte-reversal is exempt in the property)"]


def _unsound_ops():
    from vf import common
    return {o.split(".")[1].split("/")[0] for f in common.findings_for("C21") if [] in f.get("classes", []) for o in f.get("obligations", [])}


def tasks(tier, seed=0):
    ws = [1, 2, 3] if tier == "quick" else [1, 2, 3, 4]
    out = []
    for w in ws:
        skip = _unsound_ops()
        for op in BIN:
            if op in skip:
                continue   # listed known finding: unsound on ordinary inputs, nothing is claimed (KNOWN-FINDING line printed)
            out.append(task(M, "ob_binary", f"si.{op}/gamma@w{w}", ["C21"], op=op, w=w, tier=tier, replay="vf.contracts.si:replay_transfer"))
        for op in UN:
            out.append(task(M, "ob_unary", f"si.{op}/gamma@w{w}", ["C21"], op=op, w=w, tier=tier, replay="vf.contracts.si:replay_transfer"))
        for op in CMP:
            out.append(task(M, "ob_compare", f"si.{op}/gamma@w{w}", ["C21"], op=op, w=w, tier=tier, replay="vf.contracts.si:replay_transfer"))
    for w in ws:
        for op in RESIZE:     # integer parameters (bit positions, new length w..w+2) enumerated completely per width
            out.append(task(M, "ob_resize", f"si.{op}/gamma@w{w}", ["C21"], op=op, w=w, tier=tier, replay="vf.contracts.si:replay_resize"))
    cc = [(1, 1), (1, 2), (2, 1), (1, 3), (3, 1)] + ([] if tier == "quick" else [(2, 2), (2, 3), (3, 2), (4, 1), (1, 4)])
    for w, wb in cc:          # concat: high operand w bits, low operand wb bits
        out.append(task(M, "ob_resize", f"si.concat/gamma@w{w}+{wb}", ["C21"], op="concat", w=w, wb=wb, tier=tier, replay="vf.contracts.si:replay_resize"))
    out += pairs_tasks(tier, "C21", BIN + CMP + ["neg", "bitwise_not"])
    out.append(task("vf.bounded.si_enum", "mci", "si._minimal_common_integer_splitted/contract-bounded", ["C21", "C22"], kind="bounded",
                    replay="vf.bounded.si_enum:replay_mci", wmax=4 if tier == "quick" else 5, budget_s=100 if tier == "quick" else 1500))
    # mul / udiv / sdiv / or / xor / and fold their partial results with least_upper_bound: its three-operand obligations are shared with C22
    from vf.props import C22 as _C22
    out += [t for t in _C22._tasks(tier, seed) if "least_upper_bound3" in t["id"]]
    return out


def pairs_tasks(tier, prop, ops):
    """bounded, native, exhaustive over ALL pairs of well-formed intervals of widths 1-3 (4 in thorough) - nothing excluded by class; the inputs that
    fail on the unchanged tree are listed one by one in vf/contracts/si_known_cases.json.gz"""
    P = "vf.bounded.si_pairs"
    out = []
    for op in ops:
        for w in ([1, 2, 3] if tier == "quick" else [1, 2, 3]):
            n = 4 if w == 3 and op not in ("neg", "bitwise_not", "eval", "min", "max", "cardinality", "solution") else 1
            for sh in range(n):
                out.append(task(P, "run", f"si.{op}/exhaustive-pairs@w{w}" + (f"#{sh}" if n > 1 else ""), [prop], kind="bounded", replay=P + ":replay",
                                op=op, w=w, shard=sh, nshards=n, budget_s=200 if tier == "quick" else 2000))
    # the same enumeration with several widths in ONE process, revisiting a width: results must not depend on what was computed before
    hist = [o for o in ops if o in ("eval", "min", "max", "cardinality", "solution", "union", "intersection", "add", "ULT", "SLT", "bitwise_and", "neg")]
    if hist:
        out.append(task(P, "run_history", f"si.[{','.join(hist[:4])},...]/exhaustive-after-history", [prop], kind="bounded", replay=P + ":replay",
                        ops=hist, widths=[2, 3, 2, 1, 3] if len(hist) < 8 else [2, 3, 2], budget_s=200 if tier == "quick" else 2000))
    return out
