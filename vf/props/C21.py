"""C21 - strided-interval transfer functions are sound (gamma containment), proved per width on the
real StridedInterval class with symbolic fields."""
from vf.common import task

LEVEL = "proof"
CLAIMED = False
NA_REASON = "check under construction"
LEVEL_TEXT = "per-width proof of gamma containment on the real StridedInterval class"
M = "vf.contracts.si"
BIN = ["add", "sub", "mul", "udiv", "sdiv", "__mod__", "bitwise_or", "bitwise_and", "bitwise_xor",
       "lshift", "rshift_logical", "rshift_arithmetic"]
UN = ["neg", "__neg__", "bitwise_not", "__invert__"]
CMP = ["SLT", "SLE", "SGT", "SGE", "ULT", "ULE", "UGT", "UGE", "eq"]
FUNCTIONS = [f"StridedInterval.{n}" for n in BIN + UN + CMP]
TRUSTED = ["z3 4.13 (decides the VCs)", "CPython 3.12 executes the function bodies",
           "contract of math.gcd / math.lcm (vf/contracts/si.py:MathContract)"]
ASSUMPTIONS = ["widths enumerated (quick 1-4, thorough 1-6); each width complete in values",
               "operands are non-reversed, initialised intervals (byte-reversal is exempt in the property)"]


def _unsound_ops():
    from vf import common
    return {o.split(".")[1].split("/")[0] for f in common.findings_for("C21") if [] in f.get("classes", []) for o in f.get("obligations", [])}


def tasks(tier, seed=0):
    ws = [1, 2, 3, 4] if tier == "quick" else [1, 2, 3, 4, 5, 6]
    out = []
    for w in ws:
        skip = _unsound_ops()
        for op in BIN:
            if op in skip:
                continue   # listed known finding: unsound on ordinary inputs, nothing is claimed (KNOWN-FINDING line printed)
            out.append(task(M, "ob_binary", f"si.{op}/gamma@w{w}", ["C21"], op=op, w=w, tier=tier, replay="vf.contracts.si:replay_transfer"))
        for op in UN:
            out.append(task(M, "ob_unary", f"si.{op}/gamma@w{w}", ["C21"], op=op, w=w, tier=tier, replay="vf.contracts.si:replay_transfer"))
        for op in CMP:
            out.append(task(M, "ob_compare", f"si.{op}/gamma@w{w}", ["C21"], op=op, w=w, tier=tier, replay="vf.contracts.si:replay_transfer"))
    return out
