"""C14 - branches of a solver are isolated from each other."""
from vf.common import task
from vf.props import _rtc

LEVEL = "other"
LEVEL_TEXT = _rtc.MIXED
EXPLANATION = ("proved: copy-coverage and ownership obligations of the _blank_copy/_copy chains for every solver class (fixed attribute sets shown "
               "syntactically, one structural execution per class decides them for all histories); the copy-on-write protocol of the Z3 solver object that "
               "branches share (FullFrontend over a ghost backend: a shared solver object is never extended, the branch starts with the parent's pending "
               "constraints) and the branch obligations of ReplacementFrontend / HybridFrontend (own dictionaries, own frontends); bounded: interleaved histories on trees of branches")
TECHNIQUE = "frame/ownership obligations on the copy protocol + bounded run-time contracts on branch trees"
RULE = _rtc.RTC_RULE
FUNCTIONS = ["FullFrontend._get_solver", "FullFrontend._copy", "FullFrontend._add", "ReplacementFrontend._copy", "ReplacementFrontend._blank_copy", "HybridFrontend._copy",
             "HybridFrontend._blank_copy", "BackendZ3._batch_eval (shared solver object left exactly as found)", "BackendZ3._extrema (same)"] + ["<SolverClass>.__init__/_blank_copy/_copy for " + c for c in ["Solver", "SolverCacheless", "SolverReplacement", "SolverHybrid", "SolverVSA", "SolverConcrete", "SolverStrings", "SolverComposite", "SolverCompositeChild"]]
TRUSTED = _rtc.RTC_TRUSTED
ASSUMPTIONS = ["declared shared cells: ASTs (immutable), the Z3 solver under _tls (copy-on-write by _get_solver: proved over a ghost backend, fullfrontend.*), composite children (_claim), the composite's template frontend",
               "the composite-children copy-on-write protocol (_claim / _owned_solvers) is proved under C12 (composite.branch, composite._claim clauses) and by the statecov clause on the weak sets of children"]


def tasks(tier, seed=0):
    from vf.contracts import statecov
    out = [task("vf.contracts.statecov", "ob_statecov", f"statecov.{c}/copy+ownership+pickle", ["C14", "C18"], replay="vf.contracts.statecov:replay", cls=c)
           for c in statecov.CLASSES]
    from vf.contracts import fullfront, replfront, hybrid
    # the copy-on-write protocol of the shared Z3 solver object (FullFrontend over a ghost backend) and the branch obligations of the wrappers
    out += [task("vf.contracts.fullfront", "ob_fullfront", f"fullfrontend.{m}/protocol", ["C14", "C11"], method=m, tier=tier) for m in ("_get_solver", "_add", "branch", "eval", "simplify")]
    out += [task("vf.contracts.replfront", "ob_replacement", f"replacement.{m}/equiv+inv", ["C14", "C13"], method=m, tier=tier) for m in ("_copy", "_blank_copy")]
    out += [task("vf.contracts.hybrid", "ob_hybrid", f"hybrid.{m}/dispatch+inv", ["C14", "C13"], method=m, tier=tier) for m in ("branch", "blank_copy")]
    # the backend's multi-check queries run on the solver object that both sides of a branch share (copy-on-write happens only on add):
    # on every exit - normal or exceptional - it must hold exactly what it held at entry (frames, blocking clauses, the caller's extras)
    out.append(task("vf.contracts.z3solve", "ob_batch_eval", "z3solve._batch_eval/state-restored+results", ["C17", "C14", "C11"], tier=tier))
    out.append(task("vf.contracts.z3solve", "ob_extrema", "z3solve._extrema/true-optimum", ["C11", "C17", "C14"], tier=tier))
    out += [task("vf.contracts.z3solve", "ob_thin_wrappers", f"z3solve.BackendZ3.{m}/delegates-the-callers-question", ["C11", "C14", "C17"], which=m, tier=tier) for m in ("_satisfiable", "_solution", "_eval", "_min", "_max")]
    from vf.contracts import backendpub
    out += [task("vf.contracts.backendpub", "ob_public", f"backend.Backend.{m}/hands-the-private-method-the-callers-question", ["C11", "C14", "C17"], method=m, tier=tier) for m in backendpub.METHODS]
    # a method added to a caching layer (a downsize() that empties a set a branch still shares ...) is outside every proved invariant
    out.append(task("vf.contracts.mixins", "ob_modelcache_copy", "mixin.ModelCacheMixin._copy/own-containers", ["C14", "C26", "C11"], tier=tier))
    out.append(task("vf.contracts.layers", "ob_method_coverage", "layer.methods/every-mixin-method-accounted-for", ["C11", "C14"]))
    return out + _rtc.rtc_tasks("C14", tier, seed)
