"""C14 - branches of a solver are isolated from each other."""
from vf.common import task
from vf.props import _rtc

LEVEL = "other"
LEVEL_TEXT = _rtc.MIXED
EXPLANATION = ("proved: copy-coverage and ownership obligations of the _blank_copy/_copy chains for every solver class (fixed attribute sets shown "
               "syntactically, one structural execution per class decides them for all histories); bounded: interleaved histories on trees of branches")
TECHNIQUE = "frame/ownership obligations on the copy protocol + bounded run-time contracts on branch trees"
RULE = _rtc.RTC_RULE
FUNCTIONS = ["<SolverClass>.__init__/_blank_copy/_copy for " + c for c in ["Solver", "SolverCacheless", "SolverReplacement", "SolverHybrid", "SolverVSA", "SolverConcrete", "SolverStrings", "SolverComposite", "SolverCompositeChild"]]
TRUSTED = _rtc.RTC_TRUSTED
ASSUMPTIONS = ["declared shared cells: ASTs (immutable), the Z3 solver under _tls (copy-on-write by _get_solver, bounded part), composite children (_claim), the composite's template frontend",
               "the shared-Z3-solver and composite-children protocols are only checked in the bounded part"]


def tasks(tier, seed=0):
    from vf.contracts import statecov
    out = [task("vf.contracts.statecov", "ob_statecov", f"statecov.{c}/copy+ownership+pickle", ["C14", "C18"], replay="vf.contracts.statecov:replay", cls=c)
           for c in statecov.CLASSES]
    return out + _rtc.rtc_tasks("C14", tier, seed)
