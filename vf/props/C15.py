"""C15 - merge, combine and split preserve exactly the right models.  Mixed: plain merge/combine/split and the model-cache part proved,
composite merge and end-to-end histories bounded."""
from vf.common import task
from vf.props import _rtc

LEVEL = "other"
LEVEL_TEXT = ("Mixed.  PROVED: the real ConstrainedFrontend.merge (with and without common ancestor), combine, split and _split_constraints on "
              "frontends whose constraints are arbitrary value tables over a finite universe (claripy.And / Or by their C01 contract): the "
              "result's model set is the union of the guarded inputs' / the ancestor's models restricted to the merge conditions / the "
              "intersection / unchanged; split pieces share no variable and every conjunct lands in exactly one piece; the inputs are not "
              "mutated and the result shares no list with them.  The real ModelCacheMixin.combine and split: every cached model of the result "
              "satisfies the result's constraints whenever the inputs' cached models satisfy theirs (constraints are symbolic truth tables "
              "that depend only on their solver's variables, overlapping and disjoint variable sets).  BOUNDED (never counted as proved): "
              "CompositeFrontend.merge and everything end to end on the real solver classes, model sets judged by a stateless reference.")
EXPLANATION = ("proved: 7 obligations (merge x2, combine, split, _split_constraints, ModelCacheMixin.combine, ModelCacheMixin.split) over "
               "up to 3 solvers x up to 2 constraints; bounded: histories with merge/combine/split on the real classes")
TECHNIQUE = "class-in-isolation deductive proofs of merge/combine/split over a finite semantic universe (pyvc, z3) + bounded run-time contracts on histories"
RULE = _rtc.RTC_RULE
M = "vf.contracts.mergesplit"
FUNCTIONS = ["ConstrainedFrontend.merge", "ConstrainedFrontend.combine", "ConstrainedFrontend.split", "ConstrainedFrontend._split_constraints",
             "ConstrainedFrontend._add", "ConstrainedFrontend._blank_copy", "ConstrainedFrontend._copy", "Frontend.add", "Frontend.branch", "Frontend.blank_copy",
             "ModelCacheMixin.combine", "ModelCacheMixin.split", "ModelCache.combine", "ModelCache.filter"]
TRUSTED = _rtc.RTC_TRUSTED + ["contract of claripy.And / claripy.Or (C01): pointwise conjunction / disjunction",
                              "contract of the stack below ModelCacheMixin for combine/split (what the first five obligations prove of ConstrainedFrontend)"]
ASSUMPTIONS = ["the code is parametric in the constraint language: universe of 4 assignments; up to 3 solvers with up to 2 constraints each; variables from {a, b, c}",
               "CompositeFrontend.merge is proved (composite.merge/*, shared with C12), CompositeFrontend.split under C12, HybridFrontend.merge/combine/split under C13; CompositeFrontend.combine (inherited) is covered by the bounded part only",
               "per-method contracts compose to histories by induction (stated, not mechanised)"]


def tasks(tier, seed=0):
    out = [task(M, "ob_merge", "frontend.merge[plain]/model-set+frame", ["C15"], form="plain", tier=tier),
           task(M, "ob_merge", "frontend.merge[ancestor]/model-set+frame", ["C15"], form="ancestor", tier=tier),
           task(M, "ob_combine", "frontend.combine/model-set+frame", ["C15"], tier=tier),
           task(M, "ob_split", "frontend.split/model-set+independent", ["C15", "C12"], via="split", tier=tier),
           task(M, "ob_split", "frontend._split_constraints/partition", ["C15", "C12"], via="_split_constraints", tier=tier),
           task(M, "ob_mc_combine", "mixin.ModelCacheMixin.combine/cached-models-valid", ["C15", "C11", "C26"], tier=tier),
           task(M, "ob_mc_split", "mixin.ModelCacheMixin.split/cached-models-valid", ["C15", "C11"], tier=tier)]
    for sh in range(3):
        out.append(task("vf.contracts.composite", "ob_composite_merge", f"composite.merge/rep+model-set@ancestor-children={'+'.join([['a'], ['a', 'b'], ['ab', 'c']][sh])}", ["C12", "C15"], shape=sh, tier=tier))
    out.append(task("vf.contracts.canaries", "ob_canaries", "harness.canaries/wrong-methods-are-noticed", ["C03", "C11", "C12", "C13", "C15"], tier=tier))
    return out + _rtc.rtc_tasks("C15", tier, seed)
