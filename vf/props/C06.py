"""C06 - structurally equal expressions are one object; different ones never merge."""
from vf.common import task

LEVEL = "other"
LEVEL_TEXT = ("Mixed.  Proved: the integer lemmas that make Base._arg_serialize injective on ints and keep the None/True/False tags apart (z3, "
              "anchored syntactically on the current source), and that the real BVV() returns exactly the annotations it was given for "
              "both call orders (second cache).  Bounded: pools of annotated expressions built in random order, identity vs deep structural "
              "comparison, including annotation values whose Python hashes collide.  blake2b-64 collision freedom is assumed.")
EXPLANATION = LEVEL_TEXT
TECHNIQUE = "arithmetic lemmas by z3 + contract check of BVV on the real function + bounded identity/structure comparison"
RULE = "bounded: random annotated trees of depth <= 2 over 2 variables; distinct = distinct deep structural keys"
FUNCTIONS = ["Base._arg_serialize (integers, tags)", "ast.bv.BVV (cache discipline)", "Base.__new__ (hash-cons table discipline)"]
TRUSTED = ["blake2b truncated to 64 bits does not collide", "int.to_bytes/from_bytes round trip", "z3"]
ASSUMPTIONS = ["framing of variadic argument lists is only covered by the bounded part; the table discipline of Base.__new__ is proved for two-/three-argument nodes over the annotation universe of C07, with the table in an arbitrary state satisfying its invariant"]


def tasks(tier, seed=0):
    from vf import common
    kl = sorted({l for f in common.findings_for("C06") for l in f.get("labels", [])})
    out = [task("vf.contracts.hashcons", "ob_int_serialization", "hashcons._arg_serialize/int-injective", ["C06"]),
           task("vf.contracts.hashcons", "ob_bvv_cache", "hashcons.BVV/result-is-what-was-built", ["C06"]),
           task("vf.contracts.basenew", "ob_base_new_table", "hashcons.Base.__new__/table-discipline", ["C06", "C05"], tier=tier)]
    for i in range(8 if tier == "quick" else 32):
        out.append(task("vf.contracts.hashcons", "pools", f"hashcons.pools/bounded#{i}", ["C06"], kind="bounded", replay="vf.contracts.hashcons:replay_pools",
                        seed=seed * 100 + i, n=300 if tier == "quick" else 3000, budget_s=30 if tier == "quick" else 300, known_labels=kl))
    return out
