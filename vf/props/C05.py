"""C05 - width, variables, concreteness and depth are reported accurately."""
from vf.common import task
from vf.props import C01 as _C01

LEVEL = "other"
LEVEL_TEXT = ("Mixed.  Proved: the length calculators and argument checks of operations.py against the SMT-LIB result width (all integers); every "
              "explicit variables=/length= passed to make_like inside the verified rewriters covers the variables / equals the width of what is "
              "built (clauses make_like/variables, make_like/length, <rewriter>/sort of the C01 obligations).  Bounded: recursive recomputation of "
              "length, variables, symbolic and depth on every tree of the composition run.  Base.__new__'s own derivation from children is only "
              "covered by the bounded part.")
EXPLANATION = LEVEL_TEXT
TECHNIQUE = "integer VCs on the real length calculators + metadata clauses of the rewriter obligations (pyvc, z3); bounded recomputation"
RULE = _C01.RULE
FUNCTIONS = ["operations.basic_length_calc", "operations.concat_length_calc", "operations.extract_length_calc", "operations.ext_length_calc",
             "operations.extract_check", "operations.extend_check", "operations.length_same_check", "simplifications._flatten_simplifier (variables=)",
             "simplifications.extract_simplifier (make_like)", "simplifications.bitwise_sub_simplifier (make_like)"]
TRUSTED = _C01.TRUSTED
ASSUMPTIONS = ["Base.__new__ / Base.make_like metadata derivation is covered only by the bounded recomputation"]


def tasks(tier, seed=0):
    rel = [t for t in _C01._simp_tasks(tier) if any(k in t["id"] for k in ("bitwise_", "boolean_", "extract_", "concat_"))]
    return [task("vf.contracts.lengths", "ob_lengths", "lengths.operations/calculators", ["C05"])] + rel + _C01._compose_tasks(tier, seed + 5)
