"""C05 - width, variables, concreteness and depth are reported accurately."""
from vf.common import task
from vf.props import C01 as _C01

LEVEL = "other"
LEVEL_TEXT = ("Mixed.  Proved: the length calculators and argument checks of operations.py against the SMT-LIB result width (all integers); every "
              "explicit variables=/length= passed to make_like inside the verified rewriters covers the variables / equals the width of what is "
              "built (clauses make_like/variables, make_like/length, <rewriter>/sort of the C01 obligations).  Bounded: recursive recomputation of "
              "length, variables, symbolic and depth on every tree of the composition run.  Base.__new__'s and Base.make_like's derivation of "
              "depth / variables / symbolic / accumulated annotations from the arguments is PROVED (real code on stub arguments with symbolic "
              "depth, every keyword combination; the hash-cons cache empty).")
EXPLANATION = LEVEL_TEXT
TECHNIQUE = "integer VCs on the real length calculators + metadata clauses of the rewriter obligations (pyvc, z3); bounded recomputation"
RULE = _C01.RULE
FUNCTIONS = ["Base.__new__", "Base.make_like", "Base.__a_init__", "operations.basic_length_calc", "operations.concat_length_calc", "operations.extract_length_calc", "operations.ext_length_calc",
             "operations.extract_check", "operations.extend_check", "operations.length_same_check", "simplifications._flatten_simplifier (variables=)",
             "simplifications.extract_simplifier (make_like)", "simplifications.bitwise_sub_simplifier (make_like)"]
TRUSTED = _C01.TRUSTED
ASSUMPTIONS = ["Base.__new__ obligations: hash-cons cache empty (a hit returns an existing node of the same structure: C06); the concrete backend's folding of non-symbolic nodes by contract (BackendError or any node)",
               "make_like is exercised with the two call shapes the library uses: annotation edits on self.args, and rebuilding with new arguments without explicit metadata"]


def tasks(tier, seed=0):
    rel = [t for t in _C01._simp_tasks(tier) if any(k in t["id"] for k in ("bitwise_", "boolean_", "extract_", "concat_"))]
    B = "vf.contracts.basenew"
    base = [task(B, "ob_base_new", "basenew.Base.__new__/metadata", ["C05", "C07"], tier=tier),
            task(B, "ob_make_like", "basenew.Base.make_like/metadata", ["C05", "C07"], tier=tier),
            task(B, "ob_make_like_ops", "basenew.Base.make_like/metadata-for-every-operation-name", ["C05"], tier=tier)]
    from vf.props import C08 as _C08
    # expressions that come back from Z3 (simplify, model values): the leaf built for a Z3 symbol has the symbol's width, whatever was abstracted before
    base.append(task("vf.contracts.z3rt", "ob_symbol_history", "z3rt.symbol-leaf/sort-independent-of-history", ["C09", "C05"], replay="vf.contracts.z3rt:replay", tier=tier))
    base.append(task(B, "ob_base_new_table", "hashcons.Base.__new__/table-discipline", ["C06", "C05"], tier=tier))
    return [task("vf.contracts.lengths", "ob_lengths", "lengths.operations/calculators", ["C05"])] + base + rel + _C08.shape_tasks(tier, seed, count=4) + _C01._compose_tasks(tier, seed + 5)
