"""C08 - substitution, canonicalisation and ITE utilities preserve meaning."""
from vf.common import task

LEVEL = "other"
LEVEL_TEXT = ("Mixed.  Proved on symbolic nodes (real code, all shapes and values at the stated widths): ite_cases is the first matching case, ite_dict is the "
              "table lookup, reverse_ite_cases yields exclusive, exhaustive conditions each implying ast == value (If nesting <= 2), BV.chop pieces "
              "concatenate to the value, BV.get_bytes/get_byte are the documented big-endian byte slices.  Proved per shape but bounded over shapes "
              "(real code on real expressions, z3 equivalence for all assignments): replace, replace_dict, canonicalize (injective renaming, "
              "equivalent after renaming back), excavate_ite, burrow_ite, identical.  The explicit-stack traversals have no loop invariant in reach; "
              "for excavate_ite and burrow_ite the per-node step is validated for EVERY combination of operand kinds (leaf, If on the first "
              "condition, on its negation, on another condition, an operand whose If surfaces through the recursion; for burrow_ite every "
              "choice of equal / different operands of the two branches) per operation up to arity 3 (4 thorough): the real output is proved "
              "equivalent to the input by z3.")
EXPLANATION = LEVEL_TEXT
TECHNIQUE = "pyvc proofs of the list/slice/ITE utilities on symbolic nodes + per-shape z3 equivalence of the traversals on generated expressions"
RULE = "bounded part: random operation trees (depth<=3) with random sub-expression replacements; distinct = distinct expressions"
U = "vf.contracts.utils"
FUNCTIONS = ["ast.bool.If (constructor with its inline rewrites; shared with C01)", "algorithm.ite_relocation._excavate_ite (per-node step)", "algorithm.ite_relocation._burrow_ite (per-node step)", "ast.bool.ite_cases", "ast.bool.ite_dict", "ast.bool.reverse_ite_cases", "ast.bv.BV.chop", "ast.bv.BV.get_bytes", "ast.bv.BV.get_byte"]
TRUSTED = ["z3", "contracts of the public constructors (C01)", "claripy's Z3 translation for the per-shape equivalences (C09 round trip)"]
ASSUMPTIONS = ["ite_dict keys lie within the index width (the split uses the unsigned <=)", "case lists of length <= 3, tables of up to 8 keys, If nesting <= 2"]


def shape_tasks(tier, seed, count=None):
    from vf import common
    kl = sorted({l for f in common.findings_for("C08") for l in f.get("labels", [])})
    out = []
    for i in range(count or (8 if tier == "quick" else 32)):
        out.append(task(U, "shapes", f"utils.traversals/bounded-shapes#{i}", ["C08", "C05"], kind="bounded", replay="vf.contracts.utils:replay_shapes",
                        seed=seed * 100 + i, n=120 if tier == "quick" else 1500, width=[8, 16, 1, 32][i % 4], budget_s=45 if tier == "quick" else 500,
                        known_labels=kl))
    return out


def tasks(tier, seed=0):
    from vf import common
    kl = sorted({l for f in common.findings_for("C08") for l in f.get("labels", [])})
    out = [task(U, "ob_ite_cases", f"utils.ite_cases/first-match@w{w}", ["C08"], w=w, tier=tier) for w in (1, 8)]
    out += [task(U, "ob_ite_dict", f"utils.ite_dict/lookup@w{w}", ["C08"], w=w, tier=tier) for w in (4, 8)]
    out += [task(U, "ob_reverse_ite_cases", f"utils.reverse_ite_cases/partition@w{w}", ["C08"], w=w, tier=tier) for w in (1, 8)]
    out += [task(U, "ob_chop", f"utils.BV.chop/concat@w{w}", ["C08"], w=w, tier=tier) for w in (8, 16, 24)]
    out += [task(U, "ob_get_bytes", f"utils.BV.get_bytes/slice@w{w}", ["C08"], w=w, tier=tier) for w in (8, 20, 24, 32)]
    out += ite_step_tasks(tier, ["C08"], burrow=True)
    # ite_cases / ite_dict / excavate_ite / burrow_ite build their results with claripy.If, which the obligations above use BY CONTRACT (an If node
    # means if-then-else): the contract of the real constructor, inline rewrites of nested and constant conditions included, is discharged here too
    A = "vf.contracts.annos"
    out += [task(A, "ob_if", f"bool.If[bv]/meaning@w{w}", ["C01", "C08"], sort="bv", w=w, tier=tier) for w in ([1, 8] if tier == "quick" else [1, 2, 8, 32])]
    out.append(task(A, "ob_if", "bool.If[bool]/meaning", ["C01", "C08"], sort="bool", tier=tier))
    out += shape_tasks(tier, seed)
    out.append(task("vf.bounded.substitute", "run", "utils.replace+replace_dict+canonicalize/exact-substitution-shapes", ["C08"], kind="bounded",
                    replay="vf.bounded.substitute:replay", budget_s=120 if tier == "quick" else 900))
    return out


def ite_step_tasks(tier, props, burrow=False):
    """excavate_ite / burrow_ite: every combination of operand kinds for one level of the traversal, per operation (translation validation
    of the real output, complete up to the stated arity)"""
    from vf.contracts import itestep
    I = "vf.contracts.itestep"
    amax = 3 if tier == "quick" else 4
    out = [task(I, "ob_step", f"ite.excavate-step/{op}", props, replay=I + ":replay", op=op, amax=amax, tier=tier,
                budget_s=150 if tier == "quick" else 1500) for op in itestep.OPS]
    if burrow:
        out += [task(I, "ob_burrow", f"ite.burrow-step/{op}", props, op=op, amax=amax, tier=tier, budget_s=150 if tier == "quick" else 1500)
                for op in list(itestep.BV_OPS) + ["Concat", "And", "Or"] + list(itestep.BIN_ONLY)]
        out.append(task(I, "ob_burrow_sizes", "ite.burrow-step/size-changing-operations-over-operands-of-every-width", props, tier=tier))
    return out
