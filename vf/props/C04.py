"""C04 - building and folding well-typed expressions never crashes."""
from vf.props import C01 as _C01

LEVEL = "proof"
LEVEL_TEXT = ("Exception-freedom and integer-size obligations of every function under contract for C01 (the same symbolic paths: each ends in a "
              "return or in an exception; an exception type outside the documented ones on a feasible path is a failed obligation whose "
              "model is the crashing input; every intermediate Python integer is proved to fit 2*w+12 bits).  Termination and wall time are "
              "NOT proved; the bounded composition run (foreign exceptions while building random operation trees) stands in for them.")
TECHNIQUE = "raises-clause and integer-size obligations on the pyvc paths of the real rewriters and the concrete BV backend; bounded composition stand-in"
RULE = _C01.RULE
FUNCTIONS = _C01.FUNCTIONS + ["backend_concrete.bv.BVV.* (all operators)", "backend_concrete.bv.{Extract,Concat,ZeroExt,SignExt,Reverse,RotateLeft,RotateRight,SDiv,SMod,LShR,If}"]
TRUSTED = _C01.TRUSTED
ASSUMPTIONS = _C01.ASSUMPTIONS + ["float and string folding (fpToUBV assertion, regex metacharacters in StrPrefixOf, struct.pack overflow) are not under contract here: see C02/C03",
                                  "termination is not verified"]


def tasks(tier, seed=0):
    return _C01._simp_tasks(tier) + _C01._cbv_tasks(tier) + _C01._compose_tasks(tier, seed + 17)
