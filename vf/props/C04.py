"""C04 - building and folding well-typed expressions never crashes."""
from vf.props import C01 as _C01

LEVEL = "proof"
LEVEL_TEXT = ("Exception-freedom and integer-size obligations of every function under contract for C01 (the same symbolic paths: each ends in a "
              "return or in an exception; an exception type outside the documented ones on a feasible path is a failed obligation whose "
              "model is the crashing input; every intermediate Python integer is proved to fit 2*w+12 bits).  Termination and wall time are "
              "NOT proved; the bounded composition run (foreign exceptions while building random operation trees) stands in for them.")
TECHNIQUE = "raises-clause and integer-size obligations on the pyvc paths of the real rewriters and the concrete BV backend; bounded composition stand-in"
RULE = _C01.RULE
FUNCTIONS = _C01.FUNCTIONS + ["backend_concrete.strings.* (all 10 operations, on symbolic strings of length <= 3)", "backend_concrete.bv.BVV.* (all operators)", "backend_concrete.bv.{Extract,Concat,ZeroExt,SignExt,Reverse,RotateLeft,RotateRight,SDiv,SMod,LShR,If}"]
TRUSTED = _C01.TRUSTED
ASSUMPTIONS = _C01.ASSUMPTIONS + ["float and string folding (fpToUBV assertion, regex metacharacters in StrPrefixOf, struct.pack overflow) are not under contract: the boundary-value runs of C02/C03 are repeated here for crashes only (bounded)",
                                  "termination is not verified"]


def _crash_tasks(tier):
    """bounded stand-in for the float and string constructors (their folding code is outside the proxies): the boundary-value runs of C02 / C03,
    reporting crashes only (an exception that is not a ClaripyError while folding well-typed constants)"""
    from vf import common
    from vf.common import task
    kl = sorted({l for p in ("C02", "C03", "C04") for f in common.findings_for(p) for l in f.get("labels", [])})
    out = []
    for sort in ("DOUBLE", "FLOAT"):
        for g, n in (("arith", 2), ("unary-cmp", 1), ("conv", 1)):
            for sh in range(n):
                out.append(task("vf.bounded.fp_boundary", "run", f"fp.{g}[{sort}]/no-crash-bounded#{sh}", ["C04"], kind="bounded", replay="vf.bounded.fp_boundary:replay",
                                sort=sort, group=g, budget_s=60 if tier == "quick" else 600, known_labels=kl, shard=sh, nshards=n, only="foreign-exception"))
    for g, n in (("rel", 2), ("index", 2), ("misc", 1), ("esc", 1)):
        for sh in range(n):
            out.append(task("vf.bounded.str_boundary", "run", f"str.{g}/no-crash-bounded#{sh}", ["C04"], kind="bounded", replay="vf.bounded.str_boundary:replay",
                            group=g, shard=sh, nshards=n, budget_s=60 if tier == "quick" else 600, known_labels=kl, only="foreign-exception"))
    return out


def tasks(tier, seed=0):
    from vf.common import task
    from vf.contracts import strfold
    # the string folding code on symbolic strings (C03): a foreign exception on a feasible path is the failed clause `<op>/raises`
    strs = [task("vf.contracts.strfold", "ob_fold", f"strings.{op}/folded-equals-solved", ["C03", "C04"], replay="vf.contracts.strfold:replay", op=op, tier=tier,
                 maxlen=2 if tier == "quick" else 3) for op in strfold.OPS]
    return _C01._table_task() + _C01._simp_tasks(tier) + _C01._cbv_tasks(tier) + _C01._compose_tasks(tier, seed + 17) + strs + _crash_tasks(tier)
