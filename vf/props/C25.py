"""C25 - constraint_to_si never cuts off a satisfying assignment."""
from vf.common import task

LEVEL = "other"
LEVEL_TEXT = ("Mixed.  Proved on the real balancer.py with symbolic expressions (VSA queries by contract): for every truism-balancing rule and every "
              "comparison operator, [[truism]] => [[balanced truism]] for all assignments - except the (rule, operator) pairs recorded as known "
              "findings, each with a natively replayed witness; the comparison reversal is an equivalence; the implicit assumptions are valid; the "
              "bounds recorded by _handle_comparison hold under the truism in the comparison's signedness.  Bounded: the Balancer end to end "
              "(worklist, _balance_if, bound intersection) on enumerated constraints with every satisfying assignment enumerated.")
EXPLANATION = LEVEL_TEXT
TECHNIQUE = "rule-by-rule implication proofs (pyvc on the real balancer, z3) + bounded end-to-end enumeration"
RULE = "bounded: every constraint cmp(shape, constant) over the stated shapes at width 4, every satisfying assignment enumerated; nontrivial = satisfiable"
B = "vf.contracts.balancer"
FUNCTIONS = ["Balancer._balance_reverse", "Balancer._balance_add", "Balancer._balance_sub", "Balancer._balance_zeroext", "Balancer._balance_signext",
             "Balancer._balance_extract", "Balancer._balance_and", "Balancer._balance_concat", "Balancer._balance_lshift", "Balancer._reverse_comparison",
             "Balancer._get_assumptions", "Balancer._handle_comparison"]
TRUSTED = ["z3", "contracts of the VSA queries is_true/is_false/has_true/identical/eval/min/max (C10/C22/C24)", "contracts of the public constructors (C01)"]
ASSUMPTIONS = ["width 8 for the rules, 4 for the bound extraction; nested shapes from the stated sets",
               "_balance_if, _handle_eq/_handle_ne/_handle_if, _unpack_truisms and the worklist are covered by the bounded part only"]


def _known_pairs():
    from vf import common
    return {tuple(p) for f in common.findings_for("C25") for p in f.get("pairs", [])}


def tasks(tier, seed=0):
    from vf import common
    from vf.contracts import balancer
    known = _known_pairs()
    out = []
    for rule in balancer.RULES:
        for op in balancer.CMP:
            if (rule, op) in known:
                continue
            out.append(task(B, "ob_rule", f"balancer.{rule}[{op}]/implied", ["C25"], rule=rule, cmp=op, w=8, tier=tier))
    out.append(task(B, "ob_reverse_comparison", "balancer._reverse_comparison/equivalent", ["C25"], tier=tier))
    out.append(task(B, "ob_assumptions", "balancer._get_assumptions/valid", ["C25"], tier=tier))
    out.append(task(B, "ob_handle_comparison", "balancer._handle_comparison/bounds", ["C25"], tier=tier))
    kl = sorted({l for f in common.findings_for("C25") for l in f.get("labels", [])})
    kc = sorted({x for f in common.findings_for("C25") for x in f.get("cases", [])})
    n = 8
    for sh in range(n):
        out.append(task(B, "end_to_end", f"balancer.constraint_to_si/bounded#{sh}", ["C25"], kind="bounded", replay="vf.contracts.balancer:replay_e2e",
                        seed=seed, w=4, budget_s=60 if tier == "quick" else 600, known_labels=kl, known_cases=kc, shard=sh, nshards=n))
    return out
