"""C25 - constraint_to_si never cuts off a satisfying assignment."""
from vf.common import task

LEVEL = "other"
LEVEL_TEXT = ("Mixed.  Proved on the real balancer.py with symbolic expressions (VSA queries and public constructors by contract): for every truism-balancing rule and every "
              "comparison operator, [[truism]] => [[balanced truism]] for all assignments - except the (rule, operator) pairs recorded as known "
              "findings, each with a natively replayed witness; the comparison reversal and the alignment of bit-vector / comparison operands are equivalences; the implicit "
              "assumptions are valid; every bound recorded by _handle_comparison / _handle_eq / _handle_ne holds under the truism; _handle_if, _balance_if and "
              "_unpack_truisms push / return only implied truisms and report 'unsatisfiable' only for unsatisfiable truisms; the gate _handleable_truism lets through only "
              "comparisons of two bit-vectors; _handle dispatches to the handler of the operation; the bound store keeps valid bounds valid and _replacements_iter yields "
              "`expression ∩ bound symbol` with the value inside the bound symbol's interval; the loops of _balance and _doit are proved by loop invariant (one arbitrary "
              "iteration of the real loop body with every callee answered by its contract).  Bounded: the Balancer end to end on enumerated constraints with every "
              "satisfying assignment enumerated (it also stands in for what the composition leaves open: that the implicit assumption completing a one-sided signed bound "
              "is processed, and _align_truism, whose result is guarded by an identical() self check - C08).")
EXPLANATION = LEVEL_TEXT
TECHNIQUE = "rule-by-rule implication proofs (pyvc on the real balancer, z3) + bounded end-to-end enumeration"
RULE = "bounded: every constraint cmp(shape, constant) over the stated shapes at width 4, every satisfying assignment enumerated; nontrivial = satisfiable"
B = "vf.contracts.balancer"
FUNCTIONS = ["Balancer." + f for f in ["_balance_reverse", "_balance_add", "_balance_sub", "_balance_zeroext", "_balance_signext", "_balance_extract", "_balance_and",
                                        "_balance_concat", "_balance_lshift", "_balance_if", "_reverse_comparison", "_get_assumptions", "_handle_comparison", "_handle_eq",
                                        "_handle_ne", "_handle_if", "_handle", "_handleable_truism", "_adjust_truism", "_align_ast", "_align_bv", "_align_sub",
                                        "_unpack_truisms", "_unpack_truisms_and", "_unpack_truisms_not", "_unpack_truisms_or", "_add_lower_bound", "_add_upper_bound",
                                        "_replacements_iter", "replacements", "_same_bound_bv", "_min", "_max", "_stride", "_range", "_cardinality", "_balance", "_doit"]]
TRUSTED = ["z3", "contracts of the VSA queries is_true/is_false/has_true/identical/eval/min/max (C10/C22/C24)", "contracts of the public constructors (C01)"]
ASSUMPTIONS = ["width 8 for the rules, 4 and 8 for the handlers and the bound store; nested shapes from the stated sets",
               "_unpack_truisms: recursion depth <= 6 (quick) / 9 (thorough) - the expressions it builds itself come back from the constructor contract with an undecided shape",
               "loop invariants: the callees of _balance / _doit are answered by their contracts, including the rules recorded as findings (modular: a caller is checked against the callee's contract)",
               "the bound store: all bounds of one expression are read in one signedness; a signed bound on one side only is completed by the queued implicit assumption (bounded part)",
               "_align_truism is not under contract: it returns its own rebuild only if identical() says so, and identical() is the subject of a C08 finding; RegionAnnotation branches of _min/_max are not explored (no region annotations in the harness)"]


def _known_pairs():
    from vf import common
    return {tuple(p) for f in common.findings_for("C25") for p in f.get("pairs", [])}


def tasks(tier, seed=0):
    from vf import common
    from vf.contracts import balancer
    known = _known_pairs()
    out = []
    for rule in balancer.RULES:
        for op in balancer.CMP:
            if (rule, op) in known:
                continue
            out.append(task(B, "ob_rule", f"balancer.{rule}[{op}]/implied", ["C25"], rule=rule, cmp=op, w=8, tier=tier))
    out.append(task(B, "ob_reverse_comparison", "balancer._reverse_comparison/equivalent", ["C25"], tier=tier))
    out.append(task(B, "ob_assumptions", "balancer._get_assumptions/valid", ["C25"], tier=tier))
    out.append(task(B, "ob_handle_comparison", "balancer._handle_comparison/bounds", ["C25"], tier=tier))
    # round 4: the rest of the balancer under contract
    for what in ("eq", "ne", "if"):
        for w in ((4, 8) if what != "if" else (4,)):
            out.append(task(B, "ob_handler", f"balancer._handle_{what}/bounds+pushes" + (f"@w{w}" if what != "if" else ""), ["C25"], what=what, w=w, tier=tier))
    out.append(task(B, "ob_unpack", "balancer._unpack_truisms/implied", ["C25"], tier=tier))
    for op in balancer.CMP:
        out.append(task(B, "ob_balance_if", f"balancer._balance_if[{op}]/implied+pushes", ["C25"], cmp=op, w=4, tier=tier))
    for w in (4, 8):
        out.append(task(B, "ob_bound_store", f"balancer.bound-store+_replacements_iter/value-in-bound@w{w}", ["C25"], w=w, tier=tier))
    for what in ("ast-bv", "ast-bool", "adjust_truism"):
        out.append(task(B, "ob_align", f"balancer.{'_align_ast' if what.startswith('ast') else '_adjust_truism'}[{what}]/same-meaning", ["C25"], what=what, w=8, tier=tier))
    out.append(task(B, "ob_handleable", "balancer._handleable_truism/gate", ["C25"], tier=tier))
    out.append(task(B, "ob_handle_dispatch", "balancer._handle/dispatch", ["C25"], tier=tier))
    out.append(task(B, "ob_balance_loop", "balancer._balance/loop-invariant", ["C25"], tier=tier))
    out.append(task(B, "ob_doit", "balancer._doit/worklist-invariant", ["C25"], tier=tier))
    kl = sorted({l for f in common.findings_for("C25") for l in f.get("labels", [])})
    kc = sorted({x for f in common.findings_for("C25") for x in f.get("cases", [])})
    n = 8
    for sh in range(n):
        out.append(task(B, "end_to_end", f"balancer.constraint_to_si/bounded#{sh}", ["C25"], kind="bounded", replay="vf.contracts.balancer:replay_e2e",
                        seed=seed, w=4, budget_s=60 if tier == "quick" else 600, known_labels=kl, known_cases=kc, shard=sh, nshards=n))
    return out
