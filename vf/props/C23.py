"""C23 - discrete interval sets and region value sets are sound abstractions (bounded only)."""
from vf.common import task

LEVEL = "exploration"
LEVEL_TEXT = ("Bounded stand-in, never counted as proved: DiscreteStridedIntervalSet collects per-member results in hash-ordered Python sets and joins "
              "them in iteration order, which the contract engine does not model, and the lifted operations are one-line liftings of the C21/C22 "
              "transfer functions.  All sets of two plain intervals (width 3, strides 1/2/4) against interval operands, and region value sets over "
              "two regions, are driven through the real classes with every member combination enumerated: lifted add/sub/and/or/xor, union, "
              "intersection contain the pointwise results (per region for value sets); eval/cardinality are consistent with the members.")
TECHNIQUE = "bounded exhaustive enumeration against the real DSIS / ValueSet classes (stand-in)"
RULE = "see the per-task rule; exhaustive over the stated pools"
FUNCTIONS = []
TRUSTED = []
ASSUMPTIONS = ["plain (non-wrapping, power-of-two stride) member intervals of width 3: the wrapping / misaligned classes are the recorded C21/C22 findings"]


def tasks(tier, seed=0):
    n = 8 if tier == "quick" else 16
    out = []
    for sh in range(n):
        out.append(task("vf.bounded.vs_enum", "dsis", f"dsis.lifted-ops/bounded#{sh}", ["C23"], kind="bounded", replay="vf.bounded.vs_enum:replay",
                        shard=sh, nshards=n, w=3, budget_s=40 if tier == "quick" else 600))
        out.append(task("vf.bounded.vs_enum", "valuesets", f"valueset.per-region/bounded#{sh}", ["C23"], kind="bounded", replay="vf.bounded.vs_enum:replay",
                        shard=sh, nshards=n, w=3, budget_s=40 if tier == "quick" else 600))
    return out
