"""C23 - discrete interval sets and region value sets are sound abstractions.
Mixed: every lifted operation of the real ValueSet and DiscreteStridedIntervalSet classes is PROVED to contain the pointwise results
of its members against the C21/C22 contracts of the member operations (lifting lemmas, member sets arbitrary); the hash discipline that
Python sets of intervals depend on is proved on the real StridedInterval.__hash__; end-to-end enumeration stays as a BOUNDED part."""
from vf.common import task

LEVEL = "other"
LEVEL_TEXT = ("Mixed.  PROVED (contract-based lifting lemmas): the real ValueSet class and the real DiscreteStridedIntervalSet class (both "
              "re-loaded from /repo; the latter really subclasses the contract value) are executed on value sets / discrete sets whose regions / "
              "member intervals hold ARBITRARY member sets (symbolic bit masks over all values of the width); the member operations they call are "
              "answered by the C21/C22 contract (containment; exact queries).  z3 proves, per region resp. per member interval, that every "
              "concrete result of member operands is in the result: value set +, -, %, &, LShR with an interval; union / widen / intersection "
              "with a value set and with an interval; value-set difference; concat; extract; _merge_si / _set_si / copy (with frame: other "
              "regions untouched); eval / cardinality / min / max.  Discrete sets: + - & | ^ // % << >> neg ~ == != UGT UGE ULT ULE union "
              "intersection concat extract zero/sign extension with an interval, an integer and another discrete set; eval, cardinality "
              "(documented over-approximation), collapse, normalize, copy.  The real StridedInterval.__hash__ is proved to separate member sets "
              "(a Python set keeps one of two intervals with equal hashes because __eq__ returns a truthy BoolResult).  BOUNDED (never "
              "counted as proved): all sets of two plain intervals of width 3 and value sets over two regions through the real classes with "
              "the real StridedInterval, every member combination enumerated.")
EXPLANATION = ("proved: lifting lemmas for ValueSet and DiscreteStridedIntervalSet modulo the C21/C22 contracts + hash discipline; "
               "bounded: exhaustive enumeration over pools of plain intervals of width 3")
TECHNIQUE = "contract-based deductive verification of the real ValueSet / DiscreteStridedIntervalSet classes against abstract-value contracts (pyvc + z3) + bounded exhaustive enumeration (stand-in for the end-to-end statement)"
RULE = "see the per-task rule; exhaustive over the stated pools"
FUNCTIONS = ["ValueSet." + m for m in ["__init__", "_set_si", "_merge_si", "copy", "__add__", "__radd__", "__sub__", "__mod__", "__and__", "LShR", "union", "widen",
                                       "intersection", "concat", "extract", "eval", "cardinality", "min", "max", "get_si", "is_empty"]] + \
            ["DiscreteStridedIntervalSet." + m for m in ["__init__", "apply_on_each_si (decorator)", "convert_operand_to_si (decorator)", "collapse_operand (decorator)",
                                                         "__add__", "__sub__", "__and__", "__or__", "__xor__", "__floordiv__", "__mod__", "__lshift__", "__rshift__",
                                                         "__neg__", "__invert__", "__eq__", "__ne__", "UGT", "UGE", "ULT", "ULE", "union", "_union_with_si",
                                                         "_union_with_dsis", "intersection", "_intersection_with_si", "_intersection_with_dsis", "concat", "extract",
                                                         "zero_extend", "sign_extend", "eval", "cardinality", "collapse", "normalize", "should_collapse", "copy",
                                                         "_update_bounds (frame)", "_update_bits"]] + ["StridedInterval.__hash__"]
TRUSTED = ["z3 4.13 (decides the VCs)", "CPython 3.12 executes the function bodies",
           "ASSUMED callee contracts (vf/contracts/absval.py): the member operations satisfy C21/C22 (their recorded known findings are not excluded "
           "here: the lemmas are 'modulo C21/C22')",
           "DiscreteStridedIntervalSet._update_bounds is answered by its frame contract inside the lemmas; the frame is its own obligation",
           "Python's hash() of two different (str, bool, bool) keys does not collide"]
ASSUMPTIONS = ["width 2 (3 in thorough); region sets from {}, {global}, {stack_1}, {global, stack_1}, {stack_1, heap_2}; discrete sets of two member intervals",
               "value set & value set (documented as meaningless between different pointers) and value-set comparisons (always Maybe) are not under contract",
               "operations DiscreteStridedIntervalSet inherits unchanged from StridedInterval (min, max, signed comparisons, LShR, widen via collapse) are not under contract",
               "bounded part: plain (non-wrapping, power-of-two stride) member intervals of width 3: the wrapping / misaligned classes are the recorded C21/C22 findings"]
M = "vf.contracts.vslift"


def tasks(tier, seed=0):
    from vf.contracts import vslift
    R = "vf.contracts.vslift:replay"
    ws = [2] if tier == "quick" else [2, 3]
    out = []
    for w in ws:
        for op in vslift.BIN_SI:
            out.append(task(M, "ob_vs_si", f"valueset.{op}[si]/gamma@w{w}", ["C23"], replay=R, op=op, w=w, tier=tier))
        for op in ("union", "widen", "intersection", "__sub__", "concat"):
            out.append(task(M, "ob_vs_vs", f"valueset.{op}[vs]/gamma@w{w}", ["C23"], replay=R, op=op, w=w, tier=tier))
        for op in ("union", "widen", "intersection"):
            out.append(task(M, "ob_vs_join_si", f"valueset.{op}[si]/gamma@w{w}", ["C23"], replay=R, op=op, w=w, tier=tier))
        for fn in ("_merge_si", "_set_si", "copy"):
            out.append(task(M, "ob_vs_merge", f"valueset.{fn}/gamma+frame@w{w}", ["C23"], method=fn, w=w, tier=tier))
        for q in ("eval1", "eval3", "eval9", "cardinality", "min", "max", "extract", "concat[si]"):
            out.append(task(M, "ob_vs_query", f"valueset.{q}/consistent@w{w}", ["C23"], q=q, w=w, tier=tier))
        for op in list(vslift.DSIS_BIN) + list(vslift.DSIS_UN) + list(vslift.DSIS_CMP) + ["union", "intersection", "concat", "extract", "zero_extend", "sign_extend"]:
            others = [""] if op in vslift.DSIS_UN or op in ("extract", "zero_extend", "sign_extend") else (
                ["si", "dsis"] if op in ("union", "intersection", "concat") else ["si", "int", "dsis"])
            for o in others:
                out.append(task(M, "ob_dsis", f"dsis.{op}" + (f"[{o}]" if o else "") + f"/gamma@w{w}", ["C23"], op=op, w=w, other=o or "si", tier=tier,
                                replay="vf.contracts.vslift:replay_dsis_setop" if op in ("union", "intersection") else None))
        for q in ("eval1", "eval3", "cardinality", "collapse", "normalize", "copy"):
            out.append(task(M, "ob_dsis_query", f"dsis.{q}/consistent@w{w}", ["C23"], q=q, w=w, tier=tier))
    out.append(task(M, "ob_dsis_frame", "dsis._update_bounds/frame", ["C23"], w=2, tier=tier))
    for q in ("collapse", "ULT"):
        out.append(task(M, "ob_dsis_history", f"dsis.{q}-after-union/answers-for-the-current-members", ["C23"], w=2, tier=tier, query=q, replay="vf.contracts.vslift:replay_history"))
    for w in ([1, 2] if tier == "quick" else [1, 2, 3]):
        out.append(task("vf.contracts.si", "ob_hash", f"si.__hash__/separates-member-sets@w{w}", ["C23", "C21"], replay="vf.contracts.si:replay_hash", w=w, tier=tier))
    out.append(task(M, "ob_canary", "valueset+dsis.canaries/wrong-postconditions-fail", ["C23"], tier=tier))
    n = 8 if tier == "quick" else 16
    for sh in range(n):
        out.append(task("vf.bounded.vs_enum", "dsis", f"dsis.lifted-ops/bounded#{sh}", ["C23"], kind="bounded", replay="vf.bounded.vs_enum:replay",
                        shard=sh, nshards=n, w=3, budget_s=40 if tier == "quick" else 600))
        out.append(task("vf.bounded.vs_enum", "valuesets", f"valueset.per-region/bounded#{sh}", ["C23"], kind="bounded", replay="vf.bounded.vs_enum:replay",
                        shard=sh, nshards=n, w=3, budget_s=40 if tier == "quick" else 600))
    return out
