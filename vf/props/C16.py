"""C16 - unsat cores."""
from vf.common import task
from vf.props import _rtc

LEVEL = "other"
LEVEL_TEXT = _rtc.MIXED
EXPLANATION = ("proved: SatCacheMixin._add / unsat_core keep the cached core a tuple of added constraints whose conjunction is unsatisfiable and "
               "return an empty core iff satisfiable (an annotated constraint and its plain twin are different handles); BackendZ3.add(track=True) points the "
               "Z3-term table at the constraint being added whatever it held before; bounded: tracked plain/composite/hybrid solvers driven to unsat in every add order")
TECHNIQUE = "mixin-in-isolation proof of the core invariant + bounded run-time contracts"
RULE = _rtc.RTC_RULE
FUNCTIONS = ["FullFrontend._get_solver / _add / branch / unsat_core / simplify / downsize (tracked-assertion invariant P4)", "SatCacheMixin._add", "SatCacheMixin.unsat_core", "SatCacheMixin.simplify", "BackendZ3.add (tracked term table)", "BackendZ3._add (track=True)", "BackendZ3._unsat_core"]
TRUSTED = _rtc.RTC_TRUSTED + ["Z3's unsat cores; ghost solver: assert_and_track / assertions / unsat_core as documented by Z3; a live Z3 term's address identifies it"]
ASSUMPTIONS = ["BackendZ3._add(track=True)/_unsat_core are proved over a ghost solver in which the 32-bit hashes of different terms may coincide (z3solve.BackendZ3._add[track]...)"]


def tasks(tier, seed=0):
    M = "vf.contracts.mixins"
    out = [task(M, "ob_satcache", f"mixin.SatCacheMixin.{m}/spec+inv", ["C11", "C16"], method=m, tier=tier) for m in ("_add", "unsat_core", "simplify")]
    out.append(task("vf.contracts.z3solve", "ob_tracked_assertions", "z3solve.BackendZ3._add[track]+_unsat_core/every-constraint-asserted", ["C16", "C11"], tier=tier))
    out.append(task("vf.contracts.z3solve", "ob_tracked_add", "z3solve.BackendZ3.add/tracked-term-maps-to-the-added-constraint", ["C16"], tier=tier))
    # FullFrontend hands the backend a solver object in which every assertion is tracked when tracking is on (invariant P4 of fullfront.py):
    # the link between "added to the frontend" and "can be named in a core"
    out += [task("vf.contracts.fullfront", "ob_fullfront", f"fullfrontend.{m}/protocol", ["C16", "C11", "C14"], method=m, tier=tier)
            for m in ("_get_solver", "_add", "branch", "unsat_core", "simplify", "downsize")]
    return out + _rtc.rtc_tasks("C16", tier, seed)
