"""C02 - floating-point expressions follow IEEE-754 in every rounding mode (bounded only)."""
from vf.common import task

LEVEL = "exploration"
LEVEL_TEXT = ("Bounded stand-in, never counted as proved: the concrete float backend works on Python doubles, Decimal and struct, which the contract "
              "engine's proxies (integers, Booleans, expression nodes) do not model, and z3's FloatingPoint solver does not decide multiplication, "
              "division and square root obligations at binary64 within budget.  Every FP constructor is folded on boundary operands (signed zeros, "
              "subnormals, extremes, infinities, NaN, rounding ties, integers beyond 2^53/2^24) in all five rounding modes and both sorts, and "
              "compared (NaN as NaN, otherwise bit for bit) with z3's exact evaluation of the same SMT-LIB term on numerals.")
TECHNIQUE = "bounded boundary-value enumeration against z3's exact evaluation of ground FloatingPoint terms (stand-in)"
RULE = "boundary operands x rounding modes per constructor and sort; nontrivial = the SMT-LIB value is specified and was compared"
FUNCTIONS = []
TRUSTED = ["z3 evaluates ground FloatingPoint terms exactly"]
ASSUMPTIONS = ["NaN bit patterns and float-to-integer conversions of NaN, infinities or out-of-range values are exempt"]


def tasks(tier, seed=0):
    from vf import common
    kl = sorted({l for f in common.findings_for("C02") for l in f.get("labels", [])})
    out = []
    for sort in ("DOUBLE", "FLOAT"):
        for g, n in (("arith", 6), ("unary-cmp", 1), ("conv", 1)):
            for sh in range(n):
                out.append(task("vf.bounded.fp_boundary", "run", f"fp.{g}[{sort}]/bounded#{sh}", ["C02"], kind="bounded", replay="vf.bounded.fp_boundary:replay",
                                sort=sort, group=g, budget_s=100 if tier == "quick" else 900, known_labels=kl, shard=sh, nshards=n))
    return out
