"""C02 - floating-point expressions follow IEEE-754 in every rounding mode (rewriters proved, concrete backend bounded)."""
from vf.common import task

LEVEL = "other"
LEVEL_TEXT = ("Mixed.  PROVED: the two floating-point rewriters of simplifications.py (fptofp_simplifier, fptobv_simplifier) executed on symbolic "
              "nodes with z3 FloatingPoint denotations - a rewrite of fpToFP / fpToIEEEBV equals the written conversion for every value, both "
              "formats, all five rounding modes, nested one level.  BOUNDED stand-in, never counted as proved: the concrete float backend works on Python doubles, Decimal and struct, which the contract "
              "engine's proxies (integers, Booleans, expression nodes) do not model, and z3's FloatingPoint solver does not decide multiplication, "
              "division and square root obligations at binary64 within budget.  Every FP constructor is folded on boundary operands (signed zeros, "
              "subnormals, extremes, infinities, NaN, rounding ties, integers beyond 2^53/2^24) in all five rounding modes and both sorts, and "
              "compared (NaN as NaN, otherwise bit for bit) with z3's exact evaluation of the same SMT-LIB term on numerals.")
EXPLANATION = LEVEL_TEXT
TECHNIQUE = "pyvc proof of the fp rewriters over z3 FloatingPoint denotations + bounded boundary-value enumeration against z3's exact evaluation of ground FloatingPoint terms (stand-in)"
RULE = "boundary operands x rounding modes per constructor and sort; nontrivial = the SMT-LIB value is specified and was compared"
FUNCTIONS = ["simplifications.fptofp_simplifier", "simplifications.fptobv_simplifier"]
TRUSTED = ["z3 evaluates ground FloatingPoint terms exactly"]
ASSUMPTIONS = ["rewriter proofs: nested shapes one level deep, integer sources of 8 and 64 bits; fpToIEEEBV is a relation (any bit pattern of the float)",
               "NaN bit patterns and float-to-integer conversions of NaN, infinities or out-of-range values are exempt"]


def tasks(tier, seed=0):
    from vf import common
    kl = sorted({l for f in common.findings_for("C02") for l in f.get("labels", [])})
    F = "vf.contracts.fpsimp"
    out = [task(F, "ob_fptofp", f"fpsimp.fptofp_simplifier[{form}]/meaning", ["C02"], form=form, tier=tier) for form in ("bv", "fp", "int")]
    out.append(task(F, "ob_fptobv", "fpsimp.fptobv_simplifier/bit-pattern", ["C02"], tier=tier))
    for sort in ("DOUBLE", "FLOAT"):
        for g, n in (("arith", 6), ("unary-cmp", 1), ("conv", 1), ("literal", 1)):
            for sh in range(n):
                out.append(task("vf.bounded.fp_boundary", "run", f"fp.{g}[{sort}]/bounded#{sh}", ["C02"], kind="bounded", replay="vf.bounded.fp_boundary:replay",
                                sort=sort, group=g, budget_s=100 if tier == "quick" else 900, known_labels=kl, shard=sh, nshards=n))
    return out
