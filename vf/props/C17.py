"""C17 - a solver stays correct after a backend timeout or interrupt."""
from vf.common import task
from vf.props import _rtc

LEVEL = "other"
LEVEL_TEXT = _rtc.MIXED
EXPLANATION = ("proved: z3_solver_sat never returns an answer when the solver gave up (every result/reason combination); BackendZ3._batch_eval restores "
               "the solver's push depth and leaves no blocking clause on every exit, with the check allowed to give up at EVERY call position, and its "
               "normal results are feasible, distinct and complete; BackendZ3._extrema returns the true optimum for every feasible set (3 bits) in both "
               "signednesses and leaves the solver as it found it also when a check gives up; ModelCacheMixin's queries, with the stack below allowed to "
               "raise ClaripySolverInterruptError at EVERY call, either propagate the error or answer correctly, and the cache invariant holds on the "
               "exceptional exit.  bounded: faults injected at every check of every operation of bounded histories on the real solver classes, all later "
               "answers (and those of branches) judged by the stateless reference")
TECHNIQUE = "exceptional-postcondition proofs on the real backend functions over a ghost solver (pyvc, z3) + bounded fault injection"
RULE = _rtc.RTC_RULE
Z = "vf.contracts.z3solve"
FUNCTIONS = ["backend_z3.z3_solver_sat", "BackendZ3._batch_eval", "BackendZ3._extrema", "BackendZ3._satisfiable", "BackendZ3._solution", "BackendZ3._eval", "BackendZ3._min", "BackendZ3._max"] + \
            [f"ModelCacheMixin.{m} (exceptional postcondition)" for m in ("eval", "batch_eval", "min", "max", "solution", "satisfiable")] + \
            ["HybridFrontend queries (the exact frontend gives up: the error propagates, never the approximation's answer)", "CompositeFrontend.check_satisfiability (a child's solver call gives up: representation invariant kept)", "CompositeFrontend._ensure_sat"]
TRUSTED = _rtc.RTC_TRUSTED + ["ghost solver: push/pop/add/model as documented by Z3"]
ASSUMPTIONS = ["the thin mixins above ModelCacheMixin are proved to stay consistent when the stack below gives up (layer.*[fault], 19 obligations); FullFrontend across a raised call: bounded part only",
               "value universe of 2 bits for _batch_eval (n <= 3), 3 bits for _extrema"]


def tasks(tier, seed=0):
    out = [task(Z, "ob_solver_sat", "z3solve.z3_solver_sat/no-answer-when-unknown", ["C17"]),
           task(Z, "ob_batch_eval", "z3solve._batch_eval/state-restored+results", ["C17", "C14", "C11"], tier=tier),
           task(Z, "ob_extrema", "z3solve._extrema/true-optimum", ["C11", "C17"], tier=tier)]
    for m in ("eval", "min", "max", "solution", "satisfiable"):
        out.append(task("vf.contracts.mixins", "ob_modelcache", f"mixin.ModelCacheMixin.{m}[backend-may-give-up]/answer+invariant", ["C17", "C11"],
                        method=m, tier=tier, faults=True))
    from vf.contracts import composite
    for m in composite.FAULT_METHODS:
        out.append(task("vf.contracts.composite", "ob_composite", f"composite.{m}/rep-after-a-child-gave-up", ["C17", "C12"], method=m, tier=tier))
    out += [task("vf.contracts.z3solve", "ob_thin_wrappers", f"z3solve.BackendZ3.{m}/delegates-the-callers-question", ["C11", "C14", "C17"], which=m, tier=tier) for m in ("_satisfiable", "_solution", "_eval", "_min", "_max")]
    from vf.contracts import backendpub
    out += [task("vf.contracts.backendpub", "ob_public", f"backend.Backend.{m}/hands-the-private-method-the-callers-question", ["C11", "C14", "C17"], method=m, tier=tier) for m in backendpub.METHODS]
    from vf.contracts import layers
    out += layers.fault_tasks(tier)
    from vf.contracts import hybrid
    for m in hybrid.QUERIES + ["eval[approximate_first]"]:
        out.append(task("vf.contracts.hybrid", "ob_hybrid", f"hybrid.{m}[exact-solver-may-give-up]/raises-not-approximates", ["C17", "C13"], method=m, tier=tier, faults=True))
    return out + _rtc.rtc_tasks("C17", tier, seed)
