"""C10 - cheap truth checks never claim a truth value that does not hold."""
from vf.common import task

LEVEL = "proof"
LEVEL_TEXT = ("Proof of the truth-cache invariant and soundness of Backend.is_true/is_false (real code, every cache state of the key, callee "
              "_is_true/_is_false by contract), of BackendConcrete's overrides and of algorithm.bool_check; the frontend layers and "
              "BackendZ3._is_true (z3.simplify to a literal) are trusted wrappers listed below.")
TECHNIQUE = "class-invariant proof by symbolic execution of the real methods (pyvc, z3)"
M = "vf.contracts.truth"
FUNCTIONS = ["Backend.__init__", "Backend.downsize", "BackendZ3._is_true", "BackendZ3._is_false", "Backend.is_true", "Backend.is_false", "BackendConcrete.is_true", "BackendConcrete.is_false", "BackendConcrete._is_true",
             "BackendConcrete._is_false", "bool_check.is_true", "bool_check.is_false"]
TRUSTED = ["z3.simplify is meaning preserving (contract used for BackendZ3._is_true/_is_false: an equivalent term, the literal only if the fact holds)",
           "C01: folding of concrete Bool expressions is exact (convert of a concrete Bool is its value); the comparison functions of the concrete backend themselves are proved here too (cbv.cmpm.* / cbv.cmpf.*, shared with C01)",
           "C06: the cache key e.hash() identifies the expression",
           "frontend is_true/is_false layers: ConcreteHandlerMixin and ConstraintFilterMixin are proved to answer True only if the fact holds in every model (layer.*.is_true / is_false, shared with C11); FullFrontend.is_true/is_false hand the question to the backend with the solver's constraints (fullfrontend.is_true/is_false, C11)",
           "BackendVSA._is_true/_is_false: relative to C24"]
ASSUMPTIONS = []


def tasks(tier, seed=0):
    out = []
    for w in ("is_true", "is_false"):
        out.append(task(M, "ob_backend_cache", f"truth.Backend.{w}/cache-invariant", ["C10"], which=w))
        out.append(task(M, "ob_concrete_truth", f"truth.BackendConcrete.{w}/sound", ["C10"], which=w))
        out.append(task(M, "ob_concrete_truth_node", f"truth.BackendConcrete.{w}[any expression]/sound", ["C10"], which=w, tier=tier))
        out.append(task(M, "ob_bool_check", f"truth.bool_check.{w}/sound", ["C10"], which=w))
        out.append(task(M, "ob_bool_check_node", f"truth.bool_check.{w}[structured-expression]/sound", ["C10"], which=w))
        out.append(task(M, "ob_z3_truth", f"truth.BackendZ3._{w}/sound-for-every-solver", ["C10"], which=w))
    # the truth value of a concrete Boolean expression is what the concrete backend's comparison functions compute (is_true / is_false of an
    # expression that an uneliminatable annotation keeps unfolded goes straight to them): the comparison obligations of C01, all widths
    from vf.props import C01 as _C01
    out += [t for t in _C01._cbv_tasks(tier) if ".cmpm." in t["id"] or ".cmpf." in t["id"]]
    from vf.contracts import layers
    out += [t for t in layers.all_tasks(tier, only=("ConcreteHandlerMixin", "ConstraintFilterMixin")) if t["id"].split("/")[0].endswith(("is_true", "is_false"))]
    out.append(task(M, "ob_backend_init_downsize", "truth.Backend.__init__+downsize/caches-separate-and-empty", ["C10"]))
    out.append(task(M, "ob_cache_writers", "truth.caches/only-methods-under-contract-touch-them", ["C10"]))
    return out
