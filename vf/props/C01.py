"""C01 - bit-vector and Boolean expressions mean what the written operations say."""
from vf.common import task

LEVEL = "proof"
LEVEL_TEXT = ("Deductive proof, per enumerated width and complete in values, constants, shapes and assignments: the real rewriters of "
              "simplifications.py and the real concrete bit-vector backend are executed symbolically (callees answered by contracts) and "
              "every verification condition '[[result]] = [[written operation]]' is discharged by z3.  Rewriters whose exploration does not "
              "finish within budget (listed in the evidence under partial_explorations_bounded_not_proved / unproved_contract_too_weak) are "
              "NOT counted as proved; they are covered only by the bounded composition run (random operation trees through the public "
              "constructors, z3 equivalence against an independently built SMT-LIB term).")
TECHNIQUE = "contract-based deductive verification: pyvc symbolic execution of the real rewriters/backends, VCs by z3 (z3 5.1, cvc5 for leftovers); bounded composition stand-in"
RULE = "bounded part: seeded random operation trees (depth<=3) through public constructors; distinct = distinct resulting ASTs of depth>1"
M = "vf.contracts.simp"
RW = [  # (rewriter, op key, arities)
    ("boolean_and_simplifier", "And", [2, 3]), ("boolean_or_simplifier", "Or", [2, 3]),
    ("boolean_not_simplifier", "Not", [1]), ("bv_reverse_simplifier", "Reverse", [1]),
    ("extract_simplifier", "Extract", [1]), ("concat_simplifier", "Concat", [1, 2, 3]),
    ("lshift_simplifier", "__lshift__", [2]), ("rshift_simplifier", "__rshift__", [2]), ("lshr_simplifier", "LShR", [2]),
    ("eq_simplifier", "__eq__", [2]), ("eq_simplifier", "bool__eq__", [2]),
    ("ne_simplifier", "__ne__", [2]), ("ne_simplifier", "bool__ne__", [2]), ("ge_simplifier", "UGE", [2]),
    ("bitwise_or_simplifier", "__or__", [2, 3]), ("bitwise_and_simplifier", "__and__", [2, 3]),
    ("bitwise_xor_simplifier", "__xor__", [2, 3]), ("bitwise_add_simplifier", "__add__", [2, 3]),
    ("bitwise_sub_simplifier", "__sub__", [2]), ("bitwise_mul_simplifier", "__mul__", [2, 3]),
    ("zeroext_simplifier", "ZeroExt", [1]), ("signext_simplifier", "SignExt", [1]),
    ("invert_simplifier", "__invert__", [1]),
]
FUNCTIONS = sorted({f"simplifications.{r[0]}" for r in RW}) + ["ast.bool.If", "operations.op._op", "backend_concrete.bv.*"]
TRUSTED = ["z3 4.13 / z3 5.1 / cvc5 1.0.3 decide the VCs", "CPython 3.12 executes the function bodies",
           "vf/contracts/sem.py is the SMT-LIB meaning of each operation name",
           "structural induction from per-constructor contracts to whole trees (stated, not mechanised)"]
ASSUMPTIONS = ["widths enumerated: quick {1,8} (+16 for Reverse, 4 for mul), thorough {1,2,3,8,16,32}; plus, for each rewriter, every integer literal 9..128 "
               "its source (and what it reaches) mentions, and half of it (bitwise_and_simplifier: 16, 32, 64)",
               "variadic arity <= 3 at the root and <= 2 in nested nodes; nested Concat/extension shapes from a stated set",
               "nested nodes whose operation must be fully decided range over the operations the rewriter (and what it reaches) mentions, "
               "plus one opaque representative per signature class for all others",
               "input expressions carry no annotations in these obligations (annotations: C07)",
               "__sub__ nodes are binary (public operators and Z3 abstraction only build binary subtraction)"]


CB = "vf.contracts.cbv"


def _cbv_tasks(tier):
    from vf.contracts import cbv
    ws = [1, 8, 64] if tier == "quick" else [1, 2, 3, 8, 16, 32, 64]
    out = []
    for w in ws:
        for kind, names in (("method", cbv.METHODS2), ("rmethod", cbv.RMETHODS2), ("func", cbv.FUNCS2), ("cmpm", cbv.CMPM), ("cmpf", cbv.CMPF)):
            for n in names:
                if w > 16 and n in ("__mul__", "__rmul__", "SDiv", "SMod", "__mod__", "__rmod__", "__floordiv__", "__rfloordiv__", "__truediv__"):
                    continue   # wide multiplier/divider equivalences are beyond the bit-blaster's budget
                out.append(task(CB, "ob_bin", f"cbv.{kind}.{n}/value@w{w}", ["C01", "C04"], replay="vf.contracts.cbv:replay_bin",
                                how=kind, name=n, w=w, tier=tier))
        if w == 8:
            # debug mode off (claripy.set_debug(False)): the argument checks go away, the values must not change
            for kind, names in (("method", ["__add__", "__lshift__"]), ("func", cbv.FUNCS2), ("cmpf", ["SLT"])):
                for n in names:
                    out.append(task(CB, "ob_bin", f"cbv.{kind}.{n}[debug-off]/value@w{w}", ["C01", "C04"], replay="vf.contracts.cbv:replay_bin",
                                    how=kind, name=n, w=w, tier=tier, debug=False))
        for n in ["__invert__", "__neg__"]:
            out.append(task(CB, "ob_un", f"cbv.{n}/value@w{w}", ["C01", "C04"], name=n, w=w, tier=tier))
        for n in ["Extract", "ZeroExt", "SignExt", "Concat", "If"]:
            if w <= 16:
                out.append(task(CB, "ob_sized", f"cbv.{n}/value@w{w}", ["C01", "C04"], name=n, w=w, tier=tier))
    for w in ([16, 24, 32, 64] if tier == "quick" else [8, 16, 24, 32, 40, 64, 128]):
        out.append(task(CB, "ob_un", f"cbv.Reverse/value@w{w}", ["C01", "C04"], name="Reverse", w=w, tier=tier))
    return out


def _compose_tasks(tier, seed):
    out = []
    n = 16 if tier == "quick" else 64
    for i in range(n):
        w = [8, 1, 16, 32, 64, 2, 3, 24][i % 8]
        out.append(task("vf.bounded.compose", "run", f"compose.trees/bounded@w{w}#{i}", ["C01", "C04", "C05"], kind="bounded",
                        replay="vf.bounded.compose:replay", seed=seed * 1000 + i, n=250 if tier == "quick" else 1500, width=w,
                        depth=3, budget_s=45 if tier == "quick" else 600))
    return out


def _ctor_tasks(tier):
    A = "vf.contracts.annos"
    out = [task(A, "ob_if", f"bool.If[bv]/meaning@w{w}", ["C01"], sort="bv", w=w, tier=tier) for w in ([1, 8] if tier == "quick" else [1, 2, 8, 32])]
    out.append(task(A, "ob_if", "bool.If[bool]/meaning", ["C01"], sort="bool", tier=tier))
    out.append(task(A, "ob_op_wrapper", "annos.op._op/meaning+clauses", ["C07", "C01"], tier=tier))
    out += [task(A, "ob_op_wrapper", f"annos.op._op[{n}]/meaning+clauses", ["C07", "C01"], tier=tier, arity=k) for n, k in (("unary", 1), ("variadic", 0))]
    return out


def _table_task():
    return [task(M, "ob_table_coverage", "simp.table/every-consulted-rewriter-under-contract", ["C01", "C03", "C04"])]


def tasks(tier, seed=0):
    return _table_task() + _simp_tasks(tier) + _cbv_tasks(tier) + _ctor_tasks(tier) + _compose_tasks(tier, seed)


def _simp_tasks(tier):
    ws = [1, 8] if tier == "quick" else [1, 2, 3, 8, 16, 32]
    out = []
    from vf.contracts import simp
    for rw, op, ars in RW:
        # widths (and halves of width sums) the rewriter's own source singles out are always enumerated
        magic = {x for m in simp.mentioned_widths(rw) for x in (m // 2, m) if x <= 64}
        wl = sorted(set(ws) | magic)
        if op == "Reverse":
            wl = [16] if tier == "quick" else [8, 16, 32]
        if op == "__add__":
            wl = [1, 4, 8] if tier == "quick" else ws
        if op == "__mul__":
            wl = [1, 4] if tier == "quick" else [1, 2, 3, 4, 5]   # bit-blasted multiplier associativity is hard beyond
        for w in wl:
            if op == "Reverse" and w % 8:
                continue
            if op.startswith("bool") or op in ("And", "Or", "Not"):
                if w != wl[-1]:
                    continue
            if op == "Concat" and w < 2:
                continue
            for ar in ars:
                if op == "Concat" and ar > w:
                    continue
                if op == "__add__" and ar == 3 and w == 8 and tier == "quick":
                    continue
                if w in magic and w not in ws and ar > 2:
                    continue
                out.append(task(M, "ob_rewriter", f"simp.{rw}[{op}/{ar}]/meaning@w{w}", ["C01", "C04"],
                                replay="vf.contracts.simp:replay_rewriter", rw=rw, op=op, w=w, arity=ar, tier=tier,
                                iw=(w + 80 if rw == "bitwise_and_simplifier" else None)))
    return out
