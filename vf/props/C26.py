"""C26 - values extracted from models are values the expression takes.  Mixed: the pure bit/integer extraction code proved against
contracts of the Z3 C API; extraction through the real C API on boundary values bounded."""
from vf.common import task
from vf.props import _rtc

LEVEL = "other"
LEVEL_TEXT = ("Mixed.  PROVED (Z3 C API by contract, values symbolic): the Concat-of-numerals branch of BackendZ3._abstract_to_primitive "
              "re-assembles the value of the concatenation (pieces of 1-4 bits, plain or negated numerals); _abstract_fp_encoded_val returns "
              "the IEEE-754 bit pattern for every numeral kind (finite, +-0, +-inf, NaN) of FLOAT and DOUBLE for all sign / exponent / "
              "significand fields; _abstract_bv_val returns the numeral's value (all 64-bit values symbolically, the decimal-string path on "
              "boundary values up to 3^200); ModelCache._leaf_op / _leaf_op_existonly substitute exactly the model's value; "
              "int_to_str_unlimited / str_to_int_unlimited are inverse to str()/int() for every integer around the chunk boundaries; "
              "ModelCacheMixin.combine only caches models that satisfy the combined constraints (shared with C15).  BOUNDED (never counted "
              "as proved): constraint sets pinning expressions of every sort to boundary values, solved by the real solver classes, every "
              "returned primitive re-asserted in an independent Z3 query (floats by bit pattern, NaN as isNaN, strings by code points).")
EXPLANATION = ("proved: 8 extraction obligations with the Z3 C API answered by contract; bounded: boundary values of every sort through "
               "eval/batch_eval/min/max of every solver class with re-assertion in an independent z3 query")
TECHNIQUE = "contract-based deductive verification of the primitive-extraction code with the Z3 C API by contract (pyvc, z3) + bounded run-time contracts with an independent re-assertion oracle"
RULE = _rtc.RTC_RULE
M = "vf.contracts.z3prim"
FUNCTIONS = ["BackendZ3._abstract_to_primitive (Concat branch, dispatch)", "BackendZ3._abstract_bv_val", "BackendZ3._abstract_fp_encoded_val",
             "str_to_int_unlimited", "int_to_str_unlimited", "ModelCache._leaf_op", "ModelCache._leaf_op_existonly", "ModelCacheMixin.combine",
             "ModelCacheMixin.eval / batch_eval / min / max (values feasible under the constraints and the extras)", "BackendZ3._batch_eval", "BackendZ3._extrema"]
TRUSTED = _rtc.RTC_TRUSTED + ["ASSUMED contracts of the Z3 C API (vf/contracts/z3prim.py:Z3Stub): Z3_get_numeral_uint64 / _string, Z3_get_app_*, Z3_get_bv_sort_size, "
                              "Z3_fpa_get_ebits/sbits, Z3_fpa_get_numeral_sign / _significand_uint64 (trailing bits) / _exponent_string(biased) / "
                              "_significand_string (decimal fraction)", "int(str(n)) == n for the decimal strings Z3 prints"]
ASSUMPTIONS = ["BackendZ3._abstract_fp_val (float(significand string) * 2**exponent) is covered by the bounded part only: float parsing and IEEE products are outside the proxies",
               "_generic_model / eval through the real C API: bounded part only", "Concat pieces of 1-4 bits, 2-3 pieces"]


def tasks(tier, seed=0):
    R = "vf.contracts.z3prim:replay"
    out = [task(M, "ob_concat", "z3prim.concat-of-numerals/value", ["C26"], replay=R, tier=tier),
           task(M, "ob_bv_val", "z3prim.bv-val/value", ["C26"], tier=tier),
           task(M, "ob_int_str", "z3prim.int<->str/round-trip", ["C26"], tier=tier),
           task(M, "ob_leaf_op", "modelcache.leaf-op/model-value", ["C26", "C11"], tier=tier),
           task("vf.contracts.mixins", "ob_modelcache_copy", "mixin.ModelCacheMixin._copy/own-containers", ["C14", "C26", "C11"], tier=tier),
           task("vf.contracts.z3solve", "ob_batch_eval_tuple", "z3solve._batch_eval/tuple-positions", ["C26", "C11"], tier=tier),
           task("vf.contracts.mergesplit", "ob_mc_combine", "mixin.ModelCacheMixin.combine/cached-models-valid", ["C15", "C11", "C26"], tier=tier)]
    for s in ("FLOAT", "DOUBLE", "TINY"):
        out.append(task(M, "ob_fp_encoded", f"z3prim.fp-encoded/{s}/bit-pattern", ["C26"], replay=R, sort_name=s, tier=tier))
    # where the returned values come from: the caching layer answers from cached models and completes with a backend query (the values must be
    # feasible under the constraints AND the caller's extra constraints), the backend's enumeration and binary search (shared with C11 / C17)
    for m in ("eval", "batch_eval", "min", "max"):
        out.append(task("vf.contracts.mixins", "ob_modelcache", f"mixin.ModelCacheMixin.{m}/spec+inv", ["C11", "C26"], method=m, tier=tier))
    out.append(task("vf.contracts.z3solve", "ob_batch_eval", "z3solve._batch_eval/state-restored+results", ["C17", "C14", "C11", "C26"], tier=tier))
    out.append(task("vf.contracts.z3solve", "ob_extrema", "z3solve._extrema/true-optimum", ["C11", "C17", "C14", "C26"], tier=tier))
    return out + _rtc.rtc_tasks("C26", tier, seed)
