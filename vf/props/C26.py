"""C26 (bounded part; proved part to be added)."""
from vf.props import _rtc

LEVEL = "exploration"
LEVEL_TEXT = ("Bounded stand-in only in this round (never counted as proved); see rule.")
TECHNIQUE = "bounded run-time contracts (stand-in)"
RULE = _rtc.RTC_RULE
FUNCTIONS = []
TRUSTED = _rtc.RTC_TRUSTED
ASSUMPTIONS = ["bounded; see rule"]


def tasks(tier, seed=0):
    return _rtc.rtc_tasks("C26", tier, seed)
