"""C18 - pickled expressions and solvers round-trip."""
from vf.common import task
from vf.props import _rtc

LEVEL = "other"
LEVEL_TEXT = _rtc.MIXED
EXPLANATION = ("proved: pickle state coverage of every solver class (every attribute survives __getstate__/__setstate__ or is re-initialised); "
               "bounded: in-process and cross-process (random PYTHONHASHSEED) round trips of annotated expressions and of solvers after histories")
TECHNIQUE = "state-coverage obligations on __getstate__/__setstate__ + bounded round trips"
RULE = _rtc.RTC_RULE
FUNCTIONS = ["<SolverClass>.__getstate__/__setstate__ (all 9 solver classes)", "claripy.fp.FSort.__eq__ / __hash__ / length / from_size / from_params (value semantics of non-AST arguments)", "claripy.fp.RM (Enum)"]
TRUSTED = _rtc.RTC_TRUSTED
ASSUMPTIONS = ["_tls is transient by design (re-created)"]


def tasks(tier, seed=0):
    from vf.contracts import statecov
    out = [task("vf.contracts.statecov", "ob_statecov", f"statecov.{c}/copy+ownership+pickle", ["C14", "C18"], replay="vf.contracts.statecov:replay", cls=c)
           for c in statecov.CLASSES]
    out.append(task("vf.contracts.valueargs", "ob_fsort_value", "values.FSort+RM/equality-and-hash-by-value", ["C18", "C06"], replay="vf.contracts.valueargs:replay"))
    return out + _rtc.rtc_tasks("C18", tier, seed)
