"""C03 - string operations mean the same folded and solved, for every character (bounded only)."""
from vf.common import task

LEVEL = "exploration"
LEVEL_TEXT = ("Bounded stand-in, never counted as proved: the concrete string backend works on Python str (slicing, replace, index, int()), which the "
              "contract engine's proxies do not model, and z3/cvc5 leave most sequence-theory VCs over unbounded strings open.  Every string "
              "constructor is folded on strings over an alphabet of awkward characters (NUL, backslash, regex metacharacters, newline, non-ASCII, "
              "astral, digits, sign, escape-looking text) and on boundary indices (0, 1, len, len+1, 2^63, 2^64-1) and compared with z3's exact "
              "evaluation of the same SMT-LIB term on literals built from code points; every constant must reach the solver as its characters.")
TECHNIQUE = "bounded alphabet/boundary enumeration against z3's exact evaluation of ground string terms (stand-in)"
RULE = "see per-task rule; exhaustive over the stated string and index sets"
FUNCTIONS = []
TRUSTED = ["z3 evaluates ground string terms exactly"]
ASSUMPTIONS = ["strings of length <= 2 over the 15-character alphabet plus the listed digit/sign/escape cases",
               "constant translation: exhaustive over all strings of length <= 5 over the 9 characters of Z3's escape syntax (backslash u { } x 4 8 5 c) that contain a backslash"]


def tasks(tier, seed=0):
    from vf import common
    kl = sorted({l for f in common.findings_for("C03") for l in f.get("labels", [])})
    out = []
    for g, n in (("rel", 4), ("index", 6), ("misc", 2), ("esc", 4)):
        for sh in range(n):
            out.append(task("vf.bounded.str_boundary", "run", f"str.{g}/bounded#{sh}", ["C03"], kind="bounded", replay="vf.bounded.str_boundary:replay",
                            group=g, shard=sh, nshards=n, budget_s=100 if tier == "quick" else 900, known_labels=kl))
    return out
