"""C03 - string operations mean the same folded and solved, for every character.  Mixed: every concrete string operation proved equal to the
Z3 translation for all strings up to a stated length over ALL characters and all 64-bit integers; longer strings and the constant
translation bounded."""
from vf.common import task

LEVEL = "other"
LEVEL_TEXT = ("Mixed.  PROVED (bounded in string length, complete in characters and integers): each concrete string operation of "
              "backend_concrete/strings.py is executed on symbolic strings - concrete length up to 3 per operand, every character a free z3 Char "
              "constant (the whole Unicode range of the string theory), every integer argument a free 64-bit value held by the real concrete BVV "
              "class - with the Python str methods it calls answered by their library contract (slicing with clamping, replace-first, search, "
              "prefix/suffix, index with ValueError, join, iteration, int() of ASCII digit strings, str() of a non-negative integer, str.isdigit / "
              "isdecimal from the interpreter's own Unicode tables), and z3 proves  fold(args) == [[the Z3 translation of the same operation]]  "
              "under the path condition: StrConcat, StrSubstr, StrReplace, StrLen, StrContains, StrPrefixOf, StrSuffixOf (sequence theory on "
              "fixed-length strings of symbolic characters), ==/!= on folded constants, StrIndexOf (integer-domain reference tied to the 64-bit "
              "argument), StrToInt / IntToStr (z3 does not decide str.to_int / str.from_int over symbolic characters: the SMT-LIB definitions are "
              "transcribed - decimal numeral or -1, digits of the UNSIGNED argument without leading zeros).  The real BackendZ3._op_raw_Str* "
              "translations are proved, term for term, to be the SMT-LIB functions with the bv2nat / int2bv conversions those references use.  A "
              "foreign exception on a feasible path is a failed obligation.  BOUNDED (never counted as proved): longer strings over an alphabet of "
              "awkward characters and boundary indices against z3's exact evaluation of ground terms; the translation of string constants "
              "(escape syntax) exhaustively over short strings of escape characters.")
EXPLANATION = ("proved: 12 fold obligations + 1 translation obligation, strings of length <= 3 (<= 2 for the second operand), all characters, all 64-bit "
               "integers; bounded: alphabet/boundary enumeration against z3's evaluation of ground string terms")
TECHNIQUE = "contract-based deductive verification of the real concrete string backend on fixed-length strings of symbolic characters against the real Z3 translation (pyvc, z3 sequence theory) + bounded alphabet/boundary enumeration"
RULE = "see per-task rule; exhaustive over the stated string and index sets"
M = "vf.contracts.strfold"
FUNCTIONS = ["backend_concrete.strings." + f for f in ["StrConcat", "StrSubstr", "StrReplace", "StrLen", "StrContains", "StrPrefixOf", "StrSuffixOf", "StrIndexOf", "StrToInt",
                                                       "IntToStr", "StringV.__eq__", "StringV.__ne__"]] + \
            ["BackendZ3._op_raw_" + f for f in ["StrConcat", "StrSubstr", "StrLen", "StrReplace", "StrContains", "StrPrefixOf", "StrSuffixOf", "StrIndexOf", "StrToInt", "IntToStr"]]
TRUSTED = ["z3 4.13 sequence theory (decides the VCs); z3 evaluates ground string terms exactly (bounded part)",
           "ASSUMED library contracts of the Python str methods (vf/contracts/strfold.py:SymStr, vf_int, vf_str), stated operationally on character lists; "
           "str.isdigit / str.isdecimal are the running interpreter's tables",
           "SMT-LIB str.to_int / str.from_int transcribed for the two conversions (z3 cannot decide them over symbolic characters)"]
ASSUMPTIONS = ["string length <= 3 (first operand) / <= 2 (patterns) / 1 (replacement, third concat operand); complete in characters and 64-bit integers",
               "int() of strings with a non-ASCII-digit character other than 'isdigit but not isdecimal' is havoc (the folding code never reaches it on the unchanged tree)",
               "bounded part: strings of length <= 2 over the 15-character alphabet plus the listed digit/sign/escape cases",
               "constant translation: exhaustive over all strings of length <= 5 over the 9 characters of Z3's escape syntax (backslash u { } x 4 8 5 c) that contain a backslash"]


def tasks(tier, seed=0):
    from vf import common
    from vf.contracts import strfold
    kl = sorted({l for f in common.findings_for("C03") for l in f.get("labels", [])})
    R = "vf.contracts.strfold:replay"
    out = [task(M, "ob_fold", f"strings.{op}/folded-equals-solved", ["C03", "C04"], replay=R, op=op, tier=tier, maxlen=2 if tier == "quick" else 3) for op in strfold.OPS]
    out.append(task(M, "ob_translation", "z3t.strings/is-the-smtlib-function", ["C03"], tier=tier))
    # no string operation is rewritten at construction (the rewrite table has no reachable string entry): a rewriter added for one needs an obligation
    from vf.props import C01 as _C01
    out += _C01._table_task()
    for g, n in (("rel", 4), ("index", 6), ("misc", 2), ("esc", 4)):
        for sh in range(n):
            out.append(task("vf.bounded.str_boundary", "run", f"str.{g}/bounded#{sh}", ["C03"], kind="bounded", replay="vf.bounded.str_boundary:replay",
                            group=g, shard=sh, nshards=n, budget_s=100 if tier == "quick" else 900, known_labels=kl))
    out.append(task("vf.contracts.canaries", "ob_canaries", "harness.canaries/wrong-methods-are-noticed", ["C03", "C11", "C12", "C13", "C15"], tier=tier))
    return out
