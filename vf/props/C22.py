"""C22 - strided-interval joins, meets, widening and queries agree with their members."""
from vf.common import task

LEVEL = "proof"
LEVEL_TEXT = ("Per-width deductive proof on the real StridedInterval class with symbolic fields: joins contain both operands, meets contain every "
              "common member, eval/min/max/cardinality/solution agree with the member set (stated over all 2^w candidate members).  Input classes "
              "listed as known findings are excluded by their stated class and the complement is proved.  For the meets, the input classes on which "
              "intersection() calls its Diophantine helper outside the helper's documented assumption (vf/contracts/si_unproved_classes.json) are NOT "
              "proved and not claimed to fail; they are listed in the evidence assumptions.")
TECHNIQUE = "contract-based deductive verification (pyvc symbolic execution of the real class, VCs by z3)"
M = "vf.contracts.si"
JOINS = ["union", "pseudo_join", "least_upper_bound", "widen"]      # + least_upper_bound with three operands (registered below)
MEETS = ["intersection", "_multi_valued_intersection"]
QUERIES = ["eval1", "eval2", "eval4", "min", "max", "cardinality", "solution"]
FUNCTIONS = [f"StridedInterval.{n}" for n in JOINS + ["least_upper_bound (three operands: the rotation loop)"] + MEETS + ["eval", "min", "max", "cardinality", "solution", "complement"]]
TRUSTED = ["z3 4.13", "CPython 3.12", "contract of math.gcd/lcm", "contract of _minimal_common_integer_splitted (rational Diophantine solver; checked bounded: exhaustively up to width 4, directed random at 16..64 bits)"]
ASSUMPTIONS = ["widths 1-4 (quick 1-3); each width complete in values", "non-reversed, initialised, non-empty operands"]
R = "vf.contracts.si:replay_c22"
RULE = ("bounded (never counted as proved): union / widen / intersection on EVERY pair and eval / min / max / cardinality / solution on EVERY well-formed strided "
        "interval of widths 1-3 natively, the failing inputs of the unchanged tree listed one by one in vf/contracts/si_known_cases.json.gz; and the helper check: the assumed contract of _minimal_common_integer_splitted against brute force for every pair of "
        "non-wrapping intervals up to the stated width, and against an exact scan for directed random pairs at 16..64 bits with bounds near 2^w; "
        "nontrivial = both non-constant")


def _unsound():
    from vf import common
    return {o for f in common.findings_for("C22") if [] in f.get("classes", []) for o in f.get("obligations", [])}


def tasks(tier, seed=0):
    return [t for t in _tasks(tier, seed) if t["id"].split("@")[0] not in _unsound()]


def _tasks(tier, seed=0):
    ws = [1, 2, 3] if tier == "quick" else [1, 2, 3, 4]
    out = []
    for w in ws:
        for op in JOINS:
            out.append(task(M, "ob_join", f"si.{op}/gamma@w{w}", ["C22"], replay=R, op=op, w=w, tier=tier))
        out.append(task(M, "ob_join", f"si.pseudo_join[plain]/gamma@w{w}", ["C22"], replay=R, op="pseudo_join", w=w, tier=tier, smart=False))
        out.append(task(M, "ob_join", f"si.least_upper_bound3/gamma@w{w}", ["C22", "C21"], replay=R, op="least_upper_bound3", w=w, tier=tier))
        for op in MEETS:
            out.append(task(M, "ob_meet", f"si.{op}/gamma@w{w}", ["C22"], replay=R, op=op, w=w, tier=tier))
        for q in QUERIES:
            out.append(task(M, "ob_query", f"si.{q}/exact@w{w}", ["C22"], replay=R, q=q, w=w, tier=tier))
    from vf.props import C21 as _C21
    out += _C21.pairs_tasks(tier, "C22", ["union", "widen", "intersection", "eval", "min", "max", "cardinality", "solution"])
    # least_upper_bound at the arity where it runs its own loop: every triple at widths 1-3 (4 at the thorough tier: first 40 s per shard)
    for w, nsh in ((1, 1), (2, 1), (3, 4)) + (((4, 16),) if tier != "quick" else ()):
        for sh in range(nsh):
            out.append(task("vf.bounded.si_pairs", "run_lub3", f"si.least_upper_bound3/exhaustive-triples@w{w}" + (f"#{sh}" if nsh > 1 else ""), ["C22", "C21"], kind="bounded",
                            replay="vf.bounded.si_pairs:replay_lub3", w=w, shard=sh, nshards=nsh, budget_s=150 if tier == "quick" else 600))
    # the assumed contract of the Diophantine helper, bounded: exhaustively at small widths (also run by C21) and directed-random at 16..64 bits
    out.append(task("vf.bounded.si_enum", "mci", "si._minimal_common_integer_splitted/contract-bounded", ["C21", "C22"], kind="bounded",
                    replay="vf.bounded.si_enum:replay_mci", wmax=4 if tier == "quick" else 5, budget_s=100 if tier == "quick" else 1500))
    for i in range(4 if tier == "quick" else 16):
        out.append(task("vf.bounded.si_enum", "mci_wide", f"si._minimal_common_integer_splitted/contract-bounded-wide#{i}", ["C22"], kind="bounded",
                        replay="vf.bounded.si_enum:replay_mci_wide", seed=seed * 100 + i, n=3000 if tier == "quick" else 30000, budget_s=60 if tier == "quick" else 600))
    return out
