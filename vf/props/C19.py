"""C19 - GC guard: monitor invariant over the real critical sections + syntactic lock coverage + condom balance."""
from vf.common import task

LEVEL = "proof"
LEVEL_TEXT = ("Proof for all schedules and any number of threads: the shared counter and saved flag are only touched inside one lock "
              "(checked syntactically on the real source each run), so every interleaving is a sequence of the two real critical "
              "sections executed atomically; the property is shown to be an inductive invariant of those two transitions by symbolic "
              "execution of the real _enter_z3/_exit_z3 with a symbolic counter and flags, and the real condom wrapper is shown to call "
              "them balanced on every path, exceptional ones included.")
TECHNIQUE = "monitor-invariant proof: pyvc symbolic execution of the real critical sections, VCs by z3; syntactic lock-coverage obligation"
M = "vf.contracts.gcguard"
FUNCTIONS = ["backend_z3._enter_z3", "backend_z3._exit_z3", "backend_z3.condom"]
TRUSTED = ["z3 4.13", "CPython: the body of a `with lock:` block runs with the lock held; threading.Lock is a mutual-exclusion lock",
           "nobody outside claripy toggles the collector while a call is in progress"]
ASSUMPTIONS = ["counter modelled as a 20-bit integer with N <= 5000 calls in progress (Python ints do not overflow)",
               "lock coverage is established syntactically on the parsed source of backend_z3.py and by a scan of the package"]


def tasks(tier, seed=0):
    return [task(M, "ob_lock_coverage", "gcguard.lock_coverage/frame", ["C19"], replay="vf.contracts.gcguard:replay_threads"),
            task(M, "ob_enter", "gcguard._enter_z3/invariant", ["C19"], replay="vf.contracts.gcguard:replay_transition"),
            task(M, "ob_exit", "gcguard._exit_z3/invariant", ["C19"], replay="vf.contracts.gcguard:replay_transition"),
            task(M, "ob_condom", "gcguard.condom/balance", ["C19"], replay="vf.contracts.gcguard:replay_threads")]
