"""C09 - solver-backed simplification preserves meaning and handles all claripy operators."""
from vf.common import task

LEVEL = "proof"
LEVEL_TEXT = ("Per Z3 declaration kind that claripy can emit and per sort/width: the REAL _abstract is run on the generic application over free "
              "constants, the result is converted back by the REAL convert, and z3 proves the two terms equal for all values (complete per "
              "width).  Totality: every claripy operator's translation (and what claripy.simplify makes of it) abstracts without error.  "
              "ConstrainedFrontend.simplify is proved to keep the model set given the contract of simplify.  Z3's own simplifier/tactics are trusted.")
TECHNIQUE = "translation validation per operator kind with z3 equivalence proofs + pyvc proof of ConstrainedFrontend.simplify"
M = "vf.contracts.z3rt"
FUNCTIONS = ["BackendZ3._abstract_internal", "BackendZ3.convert/_op_raw_* (round trip)", "backend_z3.op_map", "backend_z3.op_type_map", "ConstrainedFrontend.simplify", "BackendZ3._boolref_tactics (frame: only equivalence-preserving tactics)", "BackendZ3.simplify"]
TRUSTED = ["z3.simplify and the tactics listed in z3rt.EQUIVALENCE_PRESERVING_TACTICS, combined with Then, are meaning preserving (that the backend uses only those is the frame obligation z3rt.tactics/...)", "z3 decides the equivalences",
           "the abstraction cache is keyed by the Z3 AST pointer with a reference held (no pointer reuse)"]
ASSUMPTIONS = ["Z3-only operator kinds (bvsdiv_i, ...) are harvested from what the installed Z3's simplifier and claripy's tactic pipeline return for the hand-built terms",
               "integer-sorted kinds, IFF, INTERNAL, REPEAT are outside the round trip (reasons in vf/contracts/z3rt.py NOT_ROUNDTRIPPED)",
               "widths 1, 8, 32, 64 (quick: 1, 8, 64); FLOAT and DOUBLE; string operators are a listed known finding (no reverse mapping)",
               "kinds claripy never emits (bvsmod, implies, arrays, ...) are expected to raise ClaripyError"]


def tasks(tier, seed=0):
    ws = [1, 8, 64] if tier == "quick" else [1, 2, 8, 16, 32, 64]
    out = [task(M, "ob_roundtrip", f"z3rt.bv/roundtrip@w{w}", ["C09"], replay="vf.contracts.z3rt:replay", family="bv", w=w, tier=tier) for w in ws]
    for fam in ("bool", "fp32", "fp64"):
        out.append(task(M, "ob_roundtrip", f"z3rt.{fam}/roundtrip", ["C09"], replay="vf.contracts.z3rt:replay", family=fam, w=0, tier=tier))
    out.append(task(M, "ob_coverage", "z3rt.coverage/every-mapped-kind-exercised", ["C09"], tier=tier))
    # the simplification cache (claripy/algorithm/simplify.py): every entry is stored under the hash of the expression it is the simplification of and
    # has that expression's meaning - the same obligation as under C07, which adds the annotation clauses
    out.append(task("vf.contracts.annos", "ob_algo_simplify", "annos.algorithm.simplify/meaning+clauses", ["C07", "C09"], tier=tier))
    out.append(task("vf.contracts.annos", "ob_algo_simplify", "annos.algorithm.simplify[conjunction]/meaning+clauses", ["C07", "C09"], tier=tier, shape="and"))
    out.append(task(M, "ob_hash_collision", "z3rt.abstraction-cache/terms-with-colliding-z3-hashes", ["C09", "C26"], replay="vf.contracts.z3rt:replay", tier=tier))
    out.append(task(M, "ob_symbol_history", "z3rt.symbol-leaf/sort-independent-of-history", ["C09", "C05"], replay="vf.contracts.z3rt:replay", tier=tier))
    out.append(task(M, "ob_totality", "z3rt.totality/all-claripy-operators", ["C09"], replay="vf.contracts.z3rt:replay", tier=tier))
    # the trusted base pinned: which Z3 tactics simplify() runs (frame), and the real pipeline on a corpus (bounded)
    out.append(task(M, "ob_tactic_frame", "z3rt.tactics/only-equivalence-preserving-tactics", ["C09"], replay="vf.contracts.z3rt:replay_tactics", tier=tier))
    out.append(task(M, "tactic_corpus", "z3rt.tactics/pipeline-equivalent-on-corpus", ["C09"], kind="bounded", replay="vf.contracts.z3rt:replay_tactics", tier=tier))
    out.append(task("vf.contracts.frontend", "ob_simplify", "frontend.ConstrainedFrontend.simplify/models-unchanged", ["C09", "C07"], tier=tier))
    return out
