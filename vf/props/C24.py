"""C24 - VSA evaluation of expressions over annotated variables over-approximates.
Mixed: every operator wrapper / dispatch entry / query of BackendVSA is PROVED sound against the C21-C23 contracts of the abstract
values it calls (lifting lemmas); the composition over Backend.convert's traversal is checked BOUNDED."""
from vf.common import task

LEVEL = "other"
LEVEL_TEXT = ("Mixed.  PROVED (contract-based, per operation): for every bit-vector/Boolean operation name of claripy.operations the real dispatch "
              "of the VSA backend (tables built by the real BackendVSA.__init__, real Backend._call and its operator-module fallback, the real "
              "wrapper, the real StridedInterval dunder methods) is executed on abstract operands with ARBITRARY member sets whose named "
              "transfer functions are answered by the C21/C22 contract (gamma containment, exact queries), and z3 proves that the reference "
              "SMT-LIB result of every member tuple is in gamma(result); likewise If (both sorts), the leaves BVV/BVS/BoolV, "
              "apply_annotation (interval, region, uninitialized), the expression-level union/intersection/widen, the queries _eval/_min/_max/"
              "_solution/_has_true/_has_false/_is_true/_is_false/_cardinality/_identical, and LightFrontend's eval/min/max/solution/"
              "is_true/is_false/satisfiable on top of a contract of the backend; the per-node step of excavate_ite (which BackendVSA.convert puts "
              "in front of the evaluation) is validated for every combination of operand kinds per operation (real output proved equivalent "
              "to the input by z3).  The member sets are symbolic bit masks over all values of "
              "the width, so each lemma holds for strided intervals, discrete sets and value-set regions alike.  BOUNDED (never counted as "
              "proved): the composition 'sound wrappers => sound evaluation' over Backend.convert's explicit-stack traversal and excavate_ite "
              "is exercised on operation trees over annotated variables against every concrete assignment.")
EXPLANATION = ("proved: 36 dispatch lemmas + If + leaves + annotations + set operations + queries + LightFrontend, each modulo the C21-C23 "
               "contracts; bounded: random operation trees (depth<=2) over 2 annotated variables of width 3-4, all assignments enumerated")
TECHNIQUE = "contract-based deductive verification of the real BackendVSA wrappers against abstract-value contracts (pyvc + z3) + bounded tree enumeration for the composition"
RULE = "random operation trees (depth<=2) over 2 annotated variables of width 3-4; all assignments enumerated; distinct = distinct expressions"
M = "vf.contracts.vsaops"
FUNCTIONS = ["BackendVSA.__init__ (dispatch tables)", "Backend._call", "BackendVSA._op_add", "BackendVSA._op_sub", "BackendVSA._op_mul", "BackendVSA._op_or",
             "BackendVSA._op_xor", "BackendVSA._op_and", "BackendVSA._op_mod", "BackendVSA.And", "BackendVSA.Or", "BackendVSA.Not", "BackendVSA.If",
             "BackendVSA.ULT", "BackendVSA.ULE", "BackendVSA.UGT", "BackendVSA.UGE", "BackendVSA.SLT", "BackendVSA.SLE", "BackendVSA.SGT", "BackendVSA.SGE",
             "normalize_arg_order", "BackendVSA.LShR", "BackendVSA.Concat", "BackendVSA.Extract", "BackendVSA.SignExt", "BackendVSA.ZeroExt", "BackendVSA.Reverse",
             "BackendVSA.BVV", "BackendVSA.BVS", "BackendVSA.BoolV", "BackendVSA.apply_annotation", "BackendVSA.union", "BackendVSA.intersection", "BackendVSA.widen",
             "BackendVSA._eval", "BackendVSA._min", "BackendVSA._max", "BackendVSA._solution", "BackendVSA._has_true", "BackendVSA._has_false",
             "BackendVSA._is_true", "BackendVSA._is_false", "BackendVSA._cardinality", "BackendVSA._identical", "BackendVSA._convert",
             "StridedInterval.__add__/__sub__/__mul__/__floordiv__/__truediv__/__neg__/__invert__/__or__/__and__/__xor__/__lshift__/__rshift__/__eq__/__ne__ (dunder -> named operation, incl. normalize_types)",
             "BoolResult.__and__/__or__/__invert__/union/has_true/has_false/is_true/is_false",
             "LightFrontend.eval", "LightFrontend.min", "LightFrontend.max", "LightFrontend.solution", "LightFrontend.is_true", "LightFrontend.is_false",
             "LightFrontend.satisfiable", "LightFrontend.batch_eval", "BackendVSA.convert (excavate_ite in front)", "algorithm.ite_relocation._excavate_ite (per-node step)"]
TRUSTED = ["z3 4.13 (decides the VCs)", "CPython 3.12 executes the function bodies",
           "ASSUMED callee contracts (vf/contracts/absval.py): the C21 transfer functions, C22 joins/meets/queries and C23 value-set operations satisfy "
           "their property (that is what C21-C23 check; their recorded known findings are therefore NOT excluded here - the lemmas are 'modulo C21-C23')",
           "reference semantics vf/contracts/sem.py (SMT-LIB)"]
ASSUMPTIONS = ["widths 2 and 3 (8 for Reverse); variadic arity 2 and 3; extension by 0..2 bits; every Extract bound pair",
               "structural induction from sound wrappers to Backend.convert's traversal is stated, not mechanised (bounded part exercises it)",
               "depth <= 2, two variables, widths 3 and 4 in the bounded part", "division/remainder by an interval containing zero is exempt"]


def tasks(tier, seed=0):
    from vf import common
    from vf.contracts import vsaops
    R = "vf.contracts.vsaops:replay"
    out = []
    ws = [2, 3]
    for op in vsaops.bv_ops():
        for w in ws:
            ars = [2, 3] if op in vsaops.NARY or op in ("And", "Or", "Concat") else [2]
            for ar in ars:
                if ar == 3 and w == 3:
                    continue
                out.append(task(M, "ob_dispatch", f"vsa.dispatch.{op}/gamma@w{w}" + (f"x{ar}" if len(ars) > 1 else ""), ["C24"], replay=R, op=op, w=w, arity=ar, tier=tier))
    for w in ws:
        out.append(task(M, "ob_if", f"vsa.If/gamma@w{w}", ["C24"], replay=R, w=w, tier=tier))
        for k in ("BVV", "BVS"):
            out.append(task(M, "ob_leaf", f"vsa.{k}/gamma@w{w}", ["C24"], replay=R, what=k, w=w, tier=tier))
        for k in ("si", "region", "uninit"):
            out.append(task(M, "ob_annotation", f"vsa.apply_annotation[{k}]/gamma@w{w}", ["C24"], replay=R, what=k, w=w, tier=tier))
        for q in ("eval1", "eval2", "eval5", "eval9", "min", "max", "solution", "cardinality", "identical"):
            out.append(task(M, "ob_query", f"vsa._{q}/sound@w{w}", ["C24"], replay=R, q=q, w=w, tier=tier))
        for op in ("union", "intersection", "widen"):
            out.append(task(M, "ob_setop", f"vsa.{op}[expr]/gamma@w{w}", ["C24"], replay=R, op=op, w=w, tier=tier))
    out.append(task(M, "ob_if_bool", "vsa.If[bool]/gamma", ["C24"], replay=R, tier=tier))
    for op in ("__eq__", "__ne__"):
        out.append(task(M, "ob_dispatch", f"vsa.dispatch.{op}[bool operands]/gamma", ["C24"], replay=R, op=op, w=1, bool_operands=True, tier=tier))
    out.append(task(M, "ob_leaf", "vsa.BoolV/gamma", ["C24"], replay=R, what="BoolV", w=1, tier=tier))
    for q in ("has_true", "has_false", "is_true", "is_false", "solution[bool]"):
        out.append(task(M, "ob_query", f"vsa._{q}/sound", ["C24", "C10"], replay=R, q=q, w=1, tier=tier))
    for m in vsaops.LIGHT_METHODS:
        out.append(task(M, "ob_light", f"light.{m}/sound", ["C24", "C13"], replay="vf.contracts.vsaops:replay_light", method=m, tier=tier))
    out.append(task(M, "ob_canary", "vsa.canaries/wrong-postconditions-fail", ["C24"], tier=tier))
    # SolverVSA.is_true / is_false / satisfiable go through the cached Backend.is_true / is_false that every backend inherits: with the VSA
    # backend's three-valued answers "not definitely true" must never be cached as "definitely false" (obligations shared with C10)
    for wch in ("is_true", "is_false"):
        out.append(task("vf.contracts.truth", "ob_backend_cache", f"truth.Backend.{wch}/cache-invariant", ["C10", "C24"], which=wch))
    from vf.props import C08
    out += C08.ite_step_tasks(tier, ["C24", "C08"])       # BackendVSA.convert evaluates excavate_ite(e), not e
    kl = sorted({l for f in common.load_findings()["findings"] for l in f.get("vsa_labels", [])})
    for i in range(16 if tier == "quick" else 64):
        out.append(task("vf.bounded.vsa_trees", "run", f"vsa.trees/bounded#{i}", ["C24"], kind="bounded", replay="vf.bounded.vsa_trees:replay",
                        seed=seed * 1000 + i, w=3 if i % 2 == 0 else 4, n=150 if tier == "quick" else 1500, budget_s=40 if tier == "quick" else 500,
                        known_labels=kl))
    return out
