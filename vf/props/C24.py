"""C24 - VSA evaluation of expressions over annotated variables over-approximates (bounded only)."""
from vf.common import task

LEVEL = "exploration"
LEVEL_TEXT = ("Bounded stand-in, never counted as proved: the composition 'sound transfer functions => sound evaluation' is a structural induction "
              "over Backend.convert's explicit-stack traversal that the contract engine cannot state, and the transfer functions themselves "
              "carry the recorded C21/C22 findings.  Operation trees over strided-interval-annotated variables are evaluated by the real VSA "
              "backend and compared with EVERY concrete assignment; a failure is attributed to the deepest operator at which containment breaks, "
              "so the recorded strided-interval findings are recognised and anything else (add, sub, neg, not, unsigned comparisons, If joins, "
              "annotation application) is reported.")
TECHNIQUE = "bounded enumeration of operation trees and of all assignments against the real VSA backend (stand-in)"
RULE = "random operation trees (depth<=2) over 2 annotated variables of width 3-4; all assignments enumerated; distinct = distinct expressions"
FUNCTIONS = []
TRUSTED = []
ASSUMPTIONS = ["depth <= 2, two variables, widths 3 and 4", "division/remainder by an interval containing zero is exempt"]


def tasks(tier, seed=0):
    from vf import common
    kl = sorted({l for f in common.load_findings()["findings"] for l in f.get("vsa_labels", [])})
    out = []
    for i in range(16 if tier == "quick" else 64):
        out.append(task("vf.bounded.vsa_trees", "run", f"vsa.trees/bounded#{i}", ["C24"], kind="bounded", replay="vf.bounded.vsa_trees:replay",
                        seed=seed * 1000 + i, w=3 if i % 2 == 0 else 4, n=150 if tier == "quick" else 1500, budget_s=40 if tier == "quick" else 500,
                        known_labels=kl))
    return out
