"""C07 - annotations survive rewriting as the annotation contract promises."""
from vf.common import task

LEVEL = "proof"
LEVEL_TEXT = ("Proved on the real code with symbolic nodes whose annotation sets range over a universe of real Annotation objects (eliminatable, "
              "non-eliminatable non-relocatable, relocatable): operations._handle_annotations (a rewrite is accepted only if no non-eliminatable "
              "annotation is eliminated, and every relocatable annotation of an argument is on the result); the constructor wrapper operations.op._op "
              "composed with it (rewriters by contract); every rewriter that reports annotated=True (bypassing the handler) keeps the clauses itself; "
              "algorithm.simplify re-attaches the top annotations and the direct arguments' relocatable ones; ConstrainedFrontend.simplify leaves "
              "constraints carrying a SimplificationAvoidanceAnnotation untouched; Base.__new__ / Base.make_like accumulate the protected annotations of sub-expressions "
              "and the relocatable ones of the arguments for every keyword combination (so _handle_annotations sees what a sub-expression carries even "
              "after the top-level annotations were edited).  The If() shortcuts are a listed known finding.")
TECHNIQUE = "pyvc symbolic execution of the real annotation-handling code over an annotation universe; set-inclusion obligations"
A = "vf.contracts.annos"
FUNCTIONS = ["Base.__new__ (annotation accumulation)", "Base.make_like (annotation edits)", "operations._handle_annotations", "operations.op._op", "algorithm.simplify.simplify", "ConstrainedFrontend.simplify",
             "simplifications.extract_simplifier (annotated flag)", "simplifications.concat_simplifier", "simplifications._flatten_simplifier users"]
TRUSTED = ["z3",
           "contract of any_backend.simplify: an equivalent expression with arbitrary annotations"]
ASSUMPTIONS = ["annotation universe: one eliminatable, one non-eliminatable non-relocatable, two relocatable annotations (the code treats annotations uniformly)",
               "Annotation.relocate returns the annotation itself (base class behaviour)"]
RW = [("extract_simplifier", "Extract", 1), ("concat_simplifier", "Concat", 2), ("bitwise_or_simplifier", "__or__", 2),
      ("bitwise_add_simplifier", "__add__", 2), ("boolean_or_simplifier", "Or", 2)]


def tasks(tier, seed=0):
    out = [task(A, "ob_handle_annotations", "annos._handle_annotations/clauses", ["C07"], tier=tier),
           task(A, "ob_op_wrapper", "annos.op._op/meaning+clauses", ["C07", "C01"], tier=tier),
           *[task(A, "ob_op_wrapper", f"annos.op._op[{n}]/meaning+clauses", ["C07", "C01"], tier=tier, arity=k) for n, k in (("unary", 1), ("variadic", 0))],
           task("vf.contracts.basenew", "ob_base_new_table", "hashcons.Base.__new__/table-discipline", ["C06", "C05", "C07"], tier=tier),
           task(A, "ob_algo_simplify", "annos.algorithm.simplify/meaning+clauses", ["C07", "C09"], tier=tier),
           task(A, "ob_algo_simplify", "annos.algorithm.simplify[conjunction]/meaning+clauses", ["C07", "C09"], tier=tier, shape="and"),
           task("vf.contracts.frontend", "ob_simplify", "frontend.ConstrainedFrontend.simplify/models-unchanged", ["C09", "C07"], tier=tier)]
    B = "vf.contracts.basenew"
    out += [task(B, "ob_base_new", "basenew.Base.__new__/metadata", ["C05", "C07"], tier=tier),
            task(B, "ob_make_like", "basenew.Base.make_like/metadata", ["C05", "C07"], tier=tier)]
    for rw, op, ar in RW:
        out.append(task("vf.contracts.simp", "ob_rewriter", f"simp.{rw}[{op}/{ar},annotated]/clauses@w8", ["C07"], rw=rw, op=op, w=8, arity=ar,
                        tier=tier, annotated=True))
    return out
