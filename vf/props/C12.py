"""C12 - SolverComposite answers like a monolithic solver.  Mixed: CompositeFrontend (+ CompositedCacheMixin) proved in isolation over
independent children, histories on the real SolverComposite bounded."""
from vf.common import task
from vf.props import _rtc

LEVEL = "other"
LEVEL_TEXT = ("Mixed.  PROVED: the real CompositeFrontend with the real CompositedCacheMixin on top (as in SolverComposite), in isolation over contract "
              "stubs of its child solvers.  Constraints are symbolic truth tables over three 1-bit variables that depend only on their own variables, "
              "so children over disjoint variables are independent.  From an arbitrary state satisfying the representation invariant - children "
              "partition the variables (every partition shape of three variables), the children's constraints have the models of everything that "
              "was added (or the unsat flag is set and the constraints are unsatisfiable), only owned children are ever extended (copy on write), "
              "children not marked unchecked are satisfiable, and every cached merged solver holds the current constraints of the children it stands "
              "for -: _add (constraint over any variable set: connecting children, new variables, concrete True/False) re-establishes the invariant; "
              "satisfiable is exact (also with extra constraints); eval / batch_eval / max / min / solution ask exactly one child, with the caller's "
              "expression and extra constraints, whose constraints allow exactly the values the whole constraint set allows, and return its answer "
              "unchanged; is_true / is_false ask a child whose constraints are implied; branch leaves no child owned by both sides and an add on the "
              "branch leaves the parent intact; split hands out copies with the solver's models; simplify keeps the models.  (The value clause failed on the unchanged "
              "tree for extra constraints on an already unsatisfiable set - repaired in /repo, no exclusion remains.)  BOUNDED (never counted as proved): "
              "histories on the real SolverComposite (adds, queries, branch, simplify, split, combine, merge) judged by a stateless reference; "
              "CompositeFrontend.merge/combine and unsat cores are covered there only.")
EXPLANATION = ("proved: 61 obligations of CompositeFrontend+CompositedCacheMixin over stub children (13 methods, the query methods per partition shape); "
               "bounded: histories on the real SolverComposite")
TECHNIQUE = "class-in-isolation deductive proof of CompositeFrontend's representation invariant, copy-on-write discipline and query equivalence over independent children (pyvc, z3) + bounded run-time contracts on histories"
RULE = _rtc.RTC_RULE
M = "vf.contracts.composite"
FUNCTIONS = ["CompositeFrontend." + m for m in ["_add", "_add_dependent_constraints", "_claim", "_store_child", "_solver_for_names", "_merged_solver_for", "_names_for",
                                                "_solvers_for_variables", "_solver_list", "_ensure_sat", "_reabsorb_solver", "_split_child", "check_satisfiability", "satisfiable",
                                                "eval", "batch_eval", "max", "min", "solution", "is_true", "is_false", "_copy", "_blank_copy", "split", "simplify", "merge", "_shared_solvers"]] + \
            ["CompositedCacheMixin." + m for m in ["_solver_for_names", "_store_child", "_remove_cached", "_copy", "_blank_copy"]] + ["ConstrainedFrontend._split_constraints (C15)"] + \
            ["the seven thin mixins of the SolverComposite stack (vf/contracts/layers.py: 31 obligations, shared with C11)"]
TRUSTED = _rtc.RTC_TRUSTED + ["contract of the child solvers (vf/contracts/composite.py:TChild): exact satisfiability, combine / split / branch per C15, queries answered with a token; their own correctness is C11",
                              "children over disjoint variables are independent (true of constraints that mention only their own variables: the support assumption of the truth tables)"]
ASSUMPTIONS = ["ASSUMED child contract that the real child does NOT satisfy: a child's .variables is exactly the set of variables of its constraints (the real ConstrainedFrontend.variables only grows: after simplify() a child can report variables none of its constraints mentions, and two children can overlap - the state in which fix f46b33e's defect showed; reached only by the bounded histories)",
               "universe of three 1-bit variables; every partition of them into children; one constraint per child in the start state; 1-bit query expressions",
               "CompositeFrontend.merge is proved for three branches of one ancestor (each child shared or extended by one constraint, checked or not; merge conditions over any variables; constant-False conditions are the recorded unsat-flag finding); combine (inherited: re-adds every constraint through _add), unsat_core, timeout/max_memory setters: bounded part only",
               "ModelCacheMixin.update during _reabsorb_solver is a no-op in the stub (the children's caches are C11)",
               "per-method contracts compose to histories by induction (stated, not mechanised)"]


def tasks(tier, seed=0):
    from vf.contracts import composite
    out = []
    for m in composite.METHODS:
        if m in ("satisfiable", "eval", "batch_eval", "max", "min", "solution", "is_true", "is_false"):
            for p in range(len(composite.PARTITIONS)):
                out.append(task(M, "ob_composite", f"composite.{m}/rep+answer@children={'+'.join(composite.PARTITIONS[p]) or 'none'}", ["C12"], method=m, part=p, tier=tier))
        else:
            out.append(task(M, "ob_composite", f"composite.{m}/rep", ["C12"] + (["C14"] if m == "branch" else []) + (["C15"] if m == "split" else []), method=m, tier=tier))
    for m in composite.FAULT_METHODS:
        out.append(task(M, "ob_composite", f"composite.{m}/rep-after-a-child-gave-up", ["C17", "C12"], method=m, tier=tier))
    for sh in range(3):
        out.append(task(M, "ob_composite_merge", f"composite.merge/rep+model-set@ancestor-children={'+'.join([['a'], ['a', 'b'], ['ab', 'c']][sh])}", ["C12", "C15"], shape=sh, tier=tier))
    # the thin mixins of the SolverComposite stack above CompositedCacheMixin (the same obligations as under C11)
    from vf.contracts import layers
    out += layers.all_tasks(tier)
    out.append(task("vf.contracts.canaries", "ob_canaries", "harness.canaries/wrong-methods-are-noticed", ["C03", "C11", "C12", "C13", "C15"], tier=tier))
    return out + _rtc.rtc_tasks("C12", tier, seed)
