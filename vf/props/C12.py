"""C12 - SolverComposite answers like a monolithic solver (bounded only)."""
from vf.props import _rtc

LEVEL = "exploration"
LEVEL_TEXT = ("Bounded only, never counted as proved: CompositeFrontend needs ownership reasoning over weak sets of shared mutable child solvers "
              "that the contract engine cannot express; histories (adds, queries, branch, simplify, split, combine, merge) over alphabets that "
              "connect and disconnect variable groups are driven against the real SolverComposite and every answer is judged by a stateless reference.")
TECHNIQUE = "bounded run-time contracts on histories (stand-in; no deductive part)"
RULE = _rtc.RTC_RULE
FUNCTIONS = []
TRUSTED = _rtc.RTC_TRUSTED
ASSUMPTIONS = ["bounded: histories of length <= 3 exhaustively over a reduced alphabet (quick), longer and random in thorough"]


def tasks(tier, seed=0):
    return _rtc.rtc_tasks("C12", tier, seed)
