"""glue: bounded run-time-contract tasks (vf/rtc) with the labels of all listed known findings"""
from vf import common


def known_labels():
    out = []
    for f in common.load_findings().get("findings", []):
        out.extend(f.get("labels", []))
    return sorted(set(out))


def rtc_tasks(prop, tier, seed):
    from vf import rtc
    return rtc.tasks(prop, tier, seed, known_labels=known_labels())


RTC_RULE = ("bounded part: histories over small constraint alphabets driven against the real solver classes, every answer judged by a "
            "stateless reference (fresh z3 solver per question + enumeration of all assignments); exhaustive up to the stated length, "
            "then hash-sampled; distinct_nontrivial = distinct histories with at least one judged answer after at least one add")
RTC_TRUSTED = ["z3 (reference oracle of the bounded part and VC solver)", "enumeration oracle (vf/rtc/oracle.py)"]
MIXED = ("Mixed: the per-layer obligations listed under functions_under_contract are PROVED (real mixin code executed symbolically on "
         "top of a contract of the rest of the stack, invariant + answer specification discharged by z3 for every state of a finite "
         "semantic universe); the whole-history statement is only checked BOUNDED by run-time contracts on the real classes against an "
         "independent reference.  The bounded part is never counted as proved.")
