"""C25: constraint_to_si never cuts off a satisfying assignment.

Proved (real balancer.py on symbolic nodes; VSA queries by contract): every truism-balancing rule as an
implication  [[truism]] => [[balanced]]  for all assignments, the comparison reversal as an equivalence,
the implicit assumptions as valid formulas, and the bound extraction of _handle_comparison / _handle_ne
as  [[truism]] => lower <= lhs <= upper  in the signedness of the comparison.
Bounded: Balancer end to end (worklist, _balance_if, bound intersection in _replacements_iter) on
enumerated constraints with every satisfying assignment enumerated."""
from __future__ import annotations

import itertools
import z3

import claripy as real
from vf.engine import loader, paths, proxies, symnode as SN
from vf.engine.paths import cur, explore, Undecided, PathEnd
from vf.engine.proxies import SymInt, SymBool
from vf.contracts import simp as SIMP
from vf.contracts import sem as S

_c = {}
CMP = ["__eq__", "__ne__", "ULT", "ULE", "UGT", "UGE", "SLT", "SLE", "SGT", "SGE"]


class VSAContract:
    """contracts of the VSA backend queries used by the balancer (C10 / C22 / C24 contracts)"""

    @staticmethod
    def is_true(e):
        return SN.is_true_contract(e)

    @staticmethod
    def is_false(e):
        return SN.is_false_contract(e)

    @staticmethod
    def has_true(e):
        # may be False only if e is unsatisfiable
        return cur().choose([True, z3.Not(e.root().den)], "has_true") == 0

    @staticmethod
    def identical(a, b):
        # True only if the two always have the same value (sound reading of the abstract identity used here)
        return cur().choose([a.den == b.den, True], "vsa.identical") == 0

    @staticmethod
    def simplify(a):
        return a

    @staticmethod
    def eval(e, n):
        """up to n distinct values; fewer than n means these are all values the expression takes"""
        c = cur()
        w = e.length
        if c.choose([True, True], "vsa.eval-single") == 0 and n >= 2:
            v = SymInt.fresh(f"evalv{e.root().uid}", 0, (1 << w) - 1)
            c.assume(e.den == z3.Extract(w - 1, 0, v.z))
            return [v]
        vs = [SymInt.fresh(f"evalv{e.root().uid}_{i}", 0, (1 << w) - 1) for i in range(n)]
        return vs

    @staticmethod
    def _ext(e, signed):
        iw = proxies.get_iw()
        return z3.SignExt(iw - e.length, e.den) if signed else z3.ZeroExt(iw - e.length, e.den)

    @staticmethod
    def min(e, signed=False):
        m = SymInt.fresh(f"min{e.root().uid}_{int(signed)}")
        cur().assume(m.z <= VSAContract._ext(e, signed))
        w = e.length
        cur().assume(z3.And(m.z >= (-(1 << (w - 1)) if signed else 0), m.z <= ((1 << (w - 1)) - 1 if signed else (1 << w) - 1)))
        return m

    @staticmethod
    def max(e, signed=False):
        m = SymInt.fresh(f"max{e.root().uid}_{int(signed)}")
        cur().assume(m.z >= VSAContract._ext(e, signed))
        w = e.length
        cur().assume(z3.And(m.z >= (-(1 << (w - 1)) if signed else 0), m.z <= ((1 << (w - 1)) - 1 if signed else (1 << w) - 1)))
        return m


def load():
    if "b" not in _c:
        cl = SIMP.contract_claripy()
        cl.backends = SIMP._NS(vsa=VSAContract, concrete=SIMP._NS(handles=lambda e: True))
        cl.annotation = real.annotation
        cl.excavate_ite = lambda e: e
        cl.BVS = lambda name, size, **kw: SN.new_node(("bv", size), label="bvs")
        vsa_mod = SIMP._NS(StridedInterval=SIMP._NS(max_int=lambda k: (1 << k) - 1))
        ns = loader.load("claripy/backends/backend_vsa/balancer.py", "claripy.backends.backend_vsa.balancer",
                         overrides={"claripy": cl, "vsa": vsa_mod, "BV": SN.SymBV, "Base": SN.SymNode, "Bool": SN.SymBoolN},
                         extra_shadow={"getattr": SIMP.vf_getattr})
        _c["b"] = ns
    return _c["b"]


def _cardinality_prop():
    # Base.cardinality: contract - 1 exactly when the node takes a single value; modelled as "concrete"
    def card(self):
        return 1 if not bool(self.symbolic) else 2
    SN.SymNode.cardinality = property(card)


def _truism(c, op, lhs_op, w, sized=None):
    """truism  op(lhs, rhs)  with lhs decided as `lhs_op`"""
    t = SN.new_node(("bool",), "root_t")
    lhs = SN.new_node(("bv", w), "root_l")
    rhs = SN.new_node(("bv", w), "root_r")
    if lhs_op is not None:
        if not lhs._op_is(lhs_op):
            raise PathEnd()
    t._set_shape(op, (lhs, rhs))
    c.assume(t.den == S.sem(op, [lhs.den, rhs.den]))
    c.assume(t.zsym == z3.Or(lhs.zsym, rhs.zsym))
    return t


def _opts(tier, **kw):
    o = {"budget_s": 400 if tier == "quick" else 3000, "max_depth": 3000, "max_failures": 3, "timeout_ms": 20000, "max_paths": 400000,
         "max_arity": 3, "nested_arity": 3, "cmp_widths": [8],
         "ext_amounts": lambda x: sorted({1, x // 2, x - 1} & set(range(1, x))),
         "concat_filter": lambda x, cs: [cc for cc in cs if cc[0] in (1, x // 2, x - 1)],
         "child_widths": lambda x: sorted({x, x + 1, x + 4})}
    o.update(kw)
    return o


RULES = {"_balance_reverse": "Reverse", "_balance_add": "__add__", "_balance_sub": "__sub__", "_balance_zeroext": "ZeroExt",
         "_balance_signext": "SignExt", "_balance_extract": "Extract", "_balance_and": "__and__", "_balance_concat": "Concat",
         "_balance_lshift": "__lshift__"}


def ob_rule(rule, cmp="__eq__", w=8, tier="quick"):
    ns = load()
    _cardinality_prop()
    B = ns["Balancer"]
    proxies.set_iw(3 * w + 12)
    def body(c):
        op = cmp
        t = _truism(c, op, RULES[rule], w)
        c.describers.append(lambda m: {"truism": SN.describe(t, m)})
        try:
            r = getattr(B, rule)(t)
        except (PathEnd, Undecided):
            raise
        except Exception as ex:  # noqa
            import traceback
            from claripy.errors import ClaripyBalancerError
            if isinstance(ex, ClaripyBalancerError):
                c.check(f"{rule}/balancer-error-is-caught-by-_balance", True)
                return "balancer-error"
            c.fail(f"Balancer.{rule}/raises", f"{type(ex).__name__}: {ex} {traceback.format_exc()[-250:]}", kind="raises")
            return "raised"
        if r is t:
            c.check(f"Balancer.{rule}/unchanged", True)
            return "unchanged"
        if not isinstance(r, SN.SymBoolN):
            c.fail(f"Balancer.{rule}/type", f"returned {type(r).__name__}")
            return "type"
        c.describers.append(lambda m: {"balanced": SN.describe(r, m)})
        c.check(f"Balancer.{rule}/implied", z3.Implies(t.den, r.den),
                "an assignment satisfies the truism but not the balanced truism: bounds derived from it cut off a satisfying assignment")
        return "balanced:" + op

    return explore(body, _opts(tier, replay=lambda f: replay_rule(rule, cmp, f)))


def _build_pinned(d, vals):
    """rebuild a described node with the real claripy; every undecided leaf becomes a variable annotated with the
    singleton strided interval of its counter-model value (so the VSA facts the rule relies on hold natively)"""
    import claripy
    from claripy.ast import BV, Bool
    if not isinstance(d, dict):
        return d
    sort = tuple(d["sort"])
    if "leaf" in d or d.get("op") in ("BVS", "BoolS"):
        uid = d.get("leaf", d.get("uid"))
        if sort[0] == "bv":
            v = d.get("value") or 0
            if not d.get("symbolic", True):
                return claripy.BVV(v, sort[1])
            x = claripy.SI(name=f"p{uid}", bits=sort[1], lower_bound=v, upper_bound=v, stride=0, explicit_name=True)
            vals[x.args[0]] = (v, sort[1])
            return x
        b = claripy.BoolS(f"p{uid}", explicit_name=True)
        vals[b.args[0]] = (bool(d.get("value")), None)
        return b
    op = d["op"]
    if op == "BVV":
        return claripy.BVV(d["args"][0], d["args"][1])
    if op == "BoolV":
        return claripy.BoolV(bool(d["args"][0]))
    args = tuple(_build_pinned(a, vals) for a in d["args"])
    return BV(op, args, length=sort[1]) if sort[0] == "bv" else Bool(op, args)


def _concrete(e, vals):
    import claripy

    def leaf(a):
        if a.op == "BVS" and a.args[0] in vals:
            return claripy.BVV(vals[a.args[0]][0], a.length)
        if a.op == "BoolS" and a.args[0] in vals:
            return claripy.BoolV(vals[a.args[0]][0])
        return a
    r = claripy.replace_dict(e.clear_annotations() if False else e, {}, leaf_operation=leaf)
    return claripy.backends.concrete.eval(r, 1)[0]


def replay_rule(rule, cmp, failure):
    """native replay: rebuild the truism with every leaf pinned (by a singleton strided-interval annotation) to its
    counter-model value, run the real rule, and evaluate truism and balanced truism under that assignment"""
    import claripy
    from claripy.backends.backend_vsa.balancer import Balancer
    d = failure.get("witness", {}).get("truism")
    if not d:
        return {"reproduced": False, "text": "no truism in the witness"}
    vals = {}
    t = _build_pinned(d, vals)
    try:
        r = getattr(Balancer, rule)(t)
    except Exception as e:  # noqa
        return {"reproduced": failure.get("kind") == "raises", "text": f"Balancer.{rule}({t!r}) raised {type(e).__name__}: {e}"}
    if r is t:
        return {"reproduced": False, "text": f"Balancer.{rule}({t!r}) left the truism unchanged"}
    sizes = [a.length for a in r.args if isinstance(a, claripy.ast.BV)]
    if len(set(sizes)) > 1:
        return {"reproduced": True, "text": f"Balancer.{rule}({t!r}) = {r!r}: ill-sorted comparison of widths {sizes}"}
    try:
        tv, rv = _concrete(t, vals), _concrete(r, vals)
    except Exception as e:  # noqa
        return {"reproduced": False, "text": f"could not evaluate: {type(e).__name__}: {e}"}
    asg = {k: v[0] for k, v in vals.items()}
    if tv and not rv:
        return {"reproduced": True, "text": f"Balancer.{rule}({t!r}) = {r!r}; the assignment {asg} (each variable annotated with that singleton interval) satisfies the truism but not the balanced truism"}
    return {"reproduced": False, "text": f"Balancer.{rule}({t!r}) = {r!r}; under {asg}: truism {tv}, balanced {rv}"}


def ob_reverse_comparison(w=8, tier="quick"):
    ns = load()
    _cardinality_prop()
    B = ns["Balancer"]
    proxies.set_iw(40)
    # getattr(BV, new_op) inside the real code: comparison constructors of the symbolic BV class
    def body(c):
        op = CMP[c.choose([True] * len(CMP), "cmp-op")]
        t = _truism(c, op, None, w)
        try:
            r = B._reverse_comparison(t)
        except (PathEnd, Undecided):
            raise
        except Exception as ex:  # noqa
            from claripy.errors import ClaripyBalancerError
            if isinstance(ex, ClaripyBalancerError):
                c.check("_reverse_comparison/balancer-error", True)
                return "balancer-error"
            c.fail("Balancer._reverse_comparison/raises", f"{type(ex).__name__}: {ex}", kind="raises")
            return "raised"
        c.check("Balancer._reverse_comparison/equivalent", r.den == t.den, "the reversed comparison is not equivalent")
        return "ret:" + op

    return explore(body, _opts(tier))


def ob_assumptions(w=8, tier="quick"):
    ns = load()
    _cardinality_prop()
    B = ns["Balancer"]
    proxies.set_iw(40)

    def body(c):
        op = CMP[c.choose([True] * len(CMP), "cmp-op")]
        t = _truism(c, op, None, w)
        try:
            rs = B._get_assumptions(t)
        except (PathEnd, Undecided):
            raise
        except Exception as ex:  # noqa
            c.fail("Balancer._get_assumptions/raises", f"{type(ex).__name__}: {ex}", kind="raises")
            return "raised"
        for a in rs:
            if not isinstance(a, SN.SymBoolN):
                c.fail("Balancer._get_assumptions/type", f"assumption is {type(a).__name__}")
                continue
            c.check("Balancer._get_assumptions/valid", a.den, "an implicit assumption is not valid")
        c.check("Balancer._get_assumptions/done", True)
        return f"{op}:{len(rs)}"

    return explore(body, _opts(tier))


def ob_handle_comparison(w=4, tier="quick"):
    """{truism: cmp(lhs, rhs)}  _handle_comparison  {every bound recorded for lhs holds under the truism, in the
    signedness of the comparison}"""
    ns = load()
    _cardinality_prop()
    B = ns["Balancer"]
    proxies.set_iw(3 * w + 12)
    iw = proxies.get_iw()

    def body(c):
        ops = [o for o in CMP if o not in ("__eq__", "__ne__")]
        op = ops[c.choose([True] * len(ops), "cmp-op")]
        t = _truism(c, op, None, w)
        lhs, rhs = t.args
        b = object.__new__(B)
        b._truisms, b._ast_hash_map, b._lower_bounds, b._upper_bounds = [], {}, {}, {}
        from claripy.errors import ClaripyBalancerUnsatError
        try:
            b._handle_comparison(t)
        except ClaripyBalancerUnsatError:
            c.check("Balancer._handle_comparison/unsat-only-if-unsat", z3.Not(t.den), "reported unsatisfiable although an assignment satisfies the truism")
            return "unsat"
        except (PathEnd, Undecided):
            raise
        except Exception as ex:  # noqa
            c.fail("Balancer._handle_comparison/raises", f"{type(ex).__name__}: {ex}", kind="raises")
            return "raised"
        signed = op.startswith("S")
        val = z3.SignExt(iw - w, lhs.den) if signed else z3.ZeroExt(iw - w, lhs.den)
        for k, bound in b._upper_bounds.items():
            c.watch["upper"] = proxies._bv(bound)
            c.check("Balancer._handle_comparison/upper-bound", z3.Implies(t.den, val <= proxies._bv(bound)), "upper bound excludes a satisfying value")
        for k, bound in b._lower_bounds.items():
            c.watch["lower"] = proxies._bv(bound)
            c.check("Balancer._handle_comparison/lower-bound", z3.Implies(t.den, val >= proxies._bv(bound)), "lower bound excludes a satisfying value")
        c.check("Balancer._handle_comparison/done", True)
        return "ret:" + op

    return explore(body, _opts(tier))


# ---- bounded end to end ------------------------------------------------------------------------------------------

def _members_of_bound(bound, w):
    """concrete values admitted by the replacement `bound` (a claripy AST evaluated by the VSA backend)"""
    import claripy
    m = claripy.backends.vsa.convert(bound)
    from vf.contracts import si as SI
    if hasattr(m, "stride"):
        return SI.py_members(m)
    return None


def end_to_end(seed=0, w=4, budget_s=60, known_labels=(), shard=0, nshards=1, known_cases=(), collect=False, only=None):
    """constraint_to_si on every constraint  cmp(shape(x[, y]), constant)  over the stated shapes; every satisfying
    assignment is enumerated and must lie inside every returned bound; sat must be reported for satisfiable constraints"""
    import time
    import claripy
    t0 = time.time()
    x = claripy.BVS("e2e_x", w, explicit_name=True)
    y = claripy.BVS("e2e_y", w, explicit_name=True)
    M = 1 << w
    shapes = {
        "x": (x, lambda a, b: a), "x+c": (x + 3, lambda a, b: (a + 3) % M), "x-c": (x - 2, lambda a, b: (a - 2) % M),
        "c-x": (5 - x, lambda a, b: (5 - a) % M), "x&m": (x & 6, lambda a, b: a & 6), "x<<1": (x << 1, lambda a, b: (a << 1) % M),
        "zext(x)[w-1:0]": (x.zero_extend(4)[w - 1:0], lambda a, b: a), "x+y": (x + y, lambda a, b: (a + b) % M),
        "If(x<4,x,y)": (claripy.If(x.ULT(4), x, y), lambda a, b: a if a < 4 else b),
    }
    if w >= 4:
        shapes["x[2:0]"] = (x[2:0], lambda a, b: a & 7)
        shapes["x[w-1:1]"] = (x[w - 1:1], lambda a, b: a >> 1)
        shapes["concat(0,x[1:0])"] = (claripy.Concat(claripy.BVV(0, 2), x[1:0]), lambda a, b: a & 3)
        shapes["sext(x[1:0])"] = (x[1:0].sign_extend(2), lambda a, b: ((a & 3) | (12 if a & 2 else 0)))
    sg = lambda v, n: v - (1 << n) if v >> (n - 1) else v
    cmps = {"__eq__": lambda p, q, n: p == q, "__ne__": lambda p, q, n: p != q, "ULT": lambda p, q, n: p < q, "ULE": lambda p, q, n: p <= q,
            "UGT": lambda p, q, n: p > q, "UGE": lambda p, q, n: p >= q, "SLT": lambda p, q, n: sg(p, n) < sg(q, n),
            "SLE": lambda p, q, n: sg(p, n) <= sg(q, n), "SGT": lambda p, q, n: sg(p, n) > sg(q, n), "SGE": lambda p, q, n: sg(p, n) >= sg(q, n)}
    evals, distinct, failures, samples, kh = 0, 0, [], [], {}
    cases = [(sn, cn, k) for sn in shapes for cn in cmps for k in range(0, 1 << min(w, 4))]
    for idx, (sn, cn, k) in enumerate(cases):
        if only is not None:
            if (sn, cn, k) != tuple(only):
                continue
        elif idx % nshards != shard:
            continue
        if time.time() - t0 > budget_s:
            break
        e, f = shapes[sn]
        n = e.length
        kk = k % (1 << n)
        cst = getattr(e, cn)(claripy.BVV(kk, n))
        sat_assign = [(a, b) for a in range(M) for b in (range(M) if "y" in sn else [0]) if cmps[cn](f(a, b) % (1 << n), kk, n)]
        evals += 1
        try:
            sat, repl = claripy.backends.vsa.constraint_to_si(cst)
        except Exception as ex:  # noqa
            failures.append({"label": f"constraint_to_si/raises-{type(ex).__name__}", "kind": "bounded", "witness": {"constraint": f"{cn}({sn},{kk})", "w": w},
                             "detail": f"constraint_to_si raised {type(ex).__name__}: {ex}"})
            continue
        if len(samples) < 2:
            samples.append({"constraint": repr(cst), "sat": sat, "replacements": repr(repl)[:200]})
        if sat_assign:
            distinct += 1
        lab = None
        if sat_assign and not sat:
            lab = (f"constraint_to_si/unsat-for-satisfiable+{_shape_class(sn)}+{'signed' if cn.startswith('S') else ('eq' if cn.startswith('__') else 'unsigned')}",
                   f"{cst!r} is satisfiable ({sat_assign[0]}) but reported unsatisfiable")
        else:
            for (expr, bound) in repl:
                vals = _members_of_bound(bound, w)
                if vals is None:
                    continue
                # value of expr under each satisfying assignment
                for (a, b) in sat_assign:
                    try:
                        v = claripy.backends.concrete.eval(claripy.replace_dict(expr, {x.hash(): claripy.BVV(a, w), y.hash(): claripy.BVV(b, w)}), 1)[0]
                    except Exception:  # noqa
                        continue
                    if v not in vals:
                        lab = (f"constraint_to_si/bound-excludes-satisfying+{_shape_class(sn)}+{'signed' if cn.startswith('S') else ('eq' if cn.startswith('__') else 'unsigned')}",
                               f"{cst!r}: x={a}{', y=%d' % b if 'y' in sn else ''} satisfies it, but {expr!r}={v} is outside the returned bound {sorted(vals)[:12]}")
                        break
                if lab:
                    break
        if lab:
            case = f"{lab[0].split('/')[1].split('+')[0]}:{cn}({sn},{kk})@w{w}"
            f_ = {"label": lab[0], "kind": "bounded", "witness": {"constraint": f"{cn}({sn},{kk})", "w": w, "case": case, "shape": sn, "cmp": cn, "k": kk}, "detail": lab[1]}
            # a listed finding is identified by the specific constraint that fails (known_cases); label globs are kept for the families
            # that fail on every input of the class (exceptions in _balance_lshift)
            if case in known_cases or any(_match(lab[0], p) for p in known_labels):
                kh[lab[0]] = kh.get(lab[0], 0) + 1
            else:
                failures.append(f_)
    if collect:
        return failures
    return {"status": "violated" if failures else "ok", "evaluations": evals, "distinct_nontrivial": distinct, "failures": failures[:5],
            "n_failures": len(failures), "known_hits": kh, "samples": samples, "reason": "",
            "rule": f"every constraint cmp(shape, constant) over {len(shapes)} shapes x 10 comparisons x all constants at width {w}; every satisfying assignment enumerated; nontrivial = satisfiable"}


def _shape_class(sn):
    if "[" in sn and "zext" not in sn:
        return "extract"
    for k in ("+", "-", "&", "<<", "If", "concat", "sext", "zext"):
        if k in sn:
            return {"+": "add", "-": "sub", "&": "and", "<<": "lshift", "If": "if", "concat": "concat", "sext": "signext", "zext": "zeroext"}[k]
    return "var"


def _match(label, pat):
    import fnmatch
    return label == pat or fnmatch.fnmatch(label, pat)


def replay_e2e(task, failure):
    """re-run the one constraint of the witness on the real claripy and re-evaluate the failed clause"""
    wit = failure.get("witness", {})
    if "shape" not in wit:
        return {"reproduced": False, "text": "witness carries no constraint"}
    w = wit.get("w", 4)
    out = end_to_end(w=w, budget_s=120, collect=True, only=(wit["shape"], wit["cmp"], wit["k"]))
    if out:
        return {"reproduced": True, "text": out[0]["detail"]}
    return {"reproduced": False, "text": f"constraint_to_si({wit['constraint']}) at {w} bits reports satisfiable and its bounds contain every satisfying assignment"}


def replay_finding_e2e(f):
    """known finding: the listed constraints still fail natively (at least the recorded witness)"""
    wit = f.get("witness") or {}
    return replay_e2e({}, {"witness": wit})
