"""C25: constraint_to_si never cuts off a satisfying assignment.

Proved (real balancer.py on symbolic nodes; VSA queries by contract): every truism-balancing rule as an
implication  [[truism]] => [[balanced]]  for all assignments, the comparison reversal as an equivalence,
the implicit assumptions as valid formulas, and the bound extraction of _handle_comparison / _handle_ne
as  [[truism]] => lower <= lhs <= upper  in the signedness of the comparison.
Bounded: Balancer end to end (worklist, _balance_if, bound intersection in _replacements_iter) on
enumerated constraints with every satisfying assignment enumerated."""
from __future__ import annotations

import itertools
import z3

import claripy as real
from vf.engine import loader, paths, proxies, symnode as SN
from vf.engine.paths import cur, explore, Undecided, PathEnd
from vf.engine.proxies import SymInt, SymBool
from vf.contracts import simp as SIMP
from vf.contracts import sem as S

_c = {}
CMP = ["__eq__", "__ne__", "ULT", "ULE", "UGT", "UGE", "SLT", "SLE", "SGT", "SGE"]


class VSAContract:
    """contracts of the VSA backend queries used by the balancer (C10 / C22 / C24 contracts)"""

    @staticmethod
    def is_true(e):
        return SN.is_true_contract(e)

    @staticmethod
    def is_false(e):
        return SN.is_false_contract(e)

    @staticmethod
    def has_true(e):
        # may be False only if e is unsatisfiable
        return cur().choose([True, z3.Not(e.root().den)], "has_true") == 0

    @staticmethod
    def identical(a, b):
        # True only if the two always have the same value (sound reading of the abstract identity used here)
        return cur().choose([a.den == b.den, True], "vsa.identical") == 0

    @staticmethod
    def simplify(a):
        return a

    @staticmethod
    def eval(e, n):
        """up to n distinct values; fewer than n means these are all values the expression takes"""
        c = cur()
        w = e.length
        if c.choose([True, True], "vsa.eval-single") == 0 and n >= 2:
            v = SymInt.fresh(f"evalv{e.root().uid}", 0, (1 << w) - 1)
            c.assume(e.den == z3.Extract(w - 1, 0, v.z))
            return [v]
        vs = [SymInt.fresh(f"evalv{e.root().uid}_{i}", 0, (1 << w) - 1) for i in range(n)]
        return vs

    @staticmethod
    def _ext(e, signed):
        iw = proxies.get_iw()
        return z3.SignExt(iw - e.length, e.den) if signed else z3.ZeroExt(iw - e.length, e.den)

    @staticmethod
    def min(e, signed=False):
        m = SymInt.fresh(f"min{e.root().uid}_{int(signed)}")
        cur().assume(m.z <= VSAContract._ext(e, signed))
        w = e.length
        cur().assume(z3.And(m.z >= (-(1 << (w - 1)) if signed else 0), m.z <= ((1 << (w - 1)) - 1 if signed else (1 << w) - 1)))
        return m

    @staticmethod
    def max(e, signed=False):
        m = SymInt.fresh(f"max{e.root().uid}_{int(signed)}")
        cur().assume(m.z >= VSAContract._ext(e, signed))
        w = e.length
        cur().assume(z3.And(m.z >= (-(1 << (w - 1)) if signed else 0), m.z <= ((1 << (w - 1)) - 1 if signed else (1 << w) - 1)))
        return m


def load():
    if "b" not in _c:
        cl = SIMP.contract_claripy()
        cl.backends = SIMP._NS(vsa=VSAContract, concrete=SIMP._NS(handles=lambda e: True))
        cl.annotation = real.annotation
        cl.excavate_ite = lambda e: e
        cl.BVS = lambda name, size, **kw: SN.new_node(("bv", size), label="bvs")
        vsa_mod = SIMP._NS(StridedInterval=SIMP._NS(max_int=lambda k: (1 << k) - 1))
        ns = loader.load("claripy/backends/backend_vsa/balancer.py", "claripy.backends.backend_vsa.balancer",
                         overrides={"claripy": cl, "vsa": vsa_mod, "BV": SN.SymBV, "Base": SN.SymNode, "Bool": SN.SymBoolN},
                         extra_shadow={"getattr": SIMP.vf_getattr})
        _c["b"] = ns
    return _c["b"]


def _cardinality_prop():
    # Base.cardinality: contract - 1 exactly when the node takes a single value; modelled as "concrete"
    def card(self):
        return 1 if not bool(self.symbolic) else 2
    SN.SymNode.cardinality = property(card)


def _truism(c, op, lhs_op, w, sized=None):
    """truism  op(lhs, rhs)  with lhs decided as `lhs_op`"""
    t = SN.new_node(("bool",), "root_t")
    lhs = SN.new_node(("bv", w), "root_l")
    rhs = SN.new_node(("bv", w), "root_r")
    if lhs_op is not None:
        if not lhs._op_is(lhs_op):
            raise PathEnd()
    t._set_shape(op, (lhs, rhs))
    c.assume(t.den == S.sem(op, [lhs.den, rhs.den]))
    c.assume(t.zsym == z3.Or(lhs.zsym, rhs.zsym))
    return t


def _opts(tier, **kw):
    o = {"budget_s": 400 if tier == "quick" else 3000, "max_depth": 3000, "max_failures": 3, "timeout_ms": 20000, "max_paths": 400000,
         "max_arity": 3, "nested_arity": 3, "cmp_widths": [8],
         "ext_amounts": lambda x: sorted({1, x // 2, x - 1} & set(range(1, x))),
         "concat_filter": lambda x, cs: [cc for cc in cs if cc[0] in (1, x // 2, x - 1)],
         "child_widths": lambda x: sorted({x, x + 1, x + 4})}
    o.update(kw)
    return o


RULES = {"_balance_reverse": "Reverse", "_balance_add": "__add__", "_balance_sub": "__sub__", "_balance_zeroext": "ZeroExt",
         "_balance_signext": "SignExt", "_balance_extract": "Extract", "_balance_and": "__and__", "_balance_concat": "Concat",
         "_balance_lshift": "__lshift__"}


def ob_rule(rule, cmp="__eq__", w=8, tier="quick"):
    ns = load()
    _cardinality_prop()
    B = ns["Balancer"]
    proxies.set_iw(3 * w + 12)
    def body(c):
        op = cmp
        t = _truism(c, op, RULES[rule], w)
        c.describers.append(lambda m: {"truism": SN.describe(t, m)})
        try:
            r = getattr(B, rule)(t)
        except (PathEnd, Undecided):
            raise
        except Exception as ex:  # noqa
            import traceback
            from claripy.errors import ClaripyBalancerError
            if isinstance(ex, ClaripyBalancerError):
                c.check(f"{rule}/balancer-error-is-caught-by-_balance", True)
                return "balancer-error"
            c.fail(f"Balancer.{rule}/raises", f"{type(ex).__name__}: {ex} {traceback.format_exc()[-250:]}", kind="raises")
            return "raised"
        if r is t:
            c.check(f"Balancer.{rule}/unchanged", True)
            return "unchanged"
        if not isinstance(r, SN.SymBoolN):
            c.fail(f"Balancer.{rule}/type", f"returned {type(r).__name__}")
            return "type"
        c.describers.append(lambda m: {"balanced": SN.describe(r, m)})
        c.check(f"Balancer.{rule}/implied", z3.Implies(t.den, r.den),
                "an assignment satisfies the truism but not the balanced truism: bounds derived from it cut off a satisfying assignment")
        return "balanced:" + op

    return explore(body, _opts(tier, replay=lambda f: replay_rule(rule, cmp, f)))


def _build_pinned(d, vals):
    """rebuild a described node with the real claripy; every undecided leaf becomes a variable annotated with the
    singleton strided interval of its counter-model value (so the VSA facts the rule relies on hold natively)"""
    import claripy
    from claripy.ast import BV, Bool
    if not isinstance(d, dict):
        return d
    sort = tuple(d["sort"])
    if "leaf" in d or d.get("op") in ("BVS", "BoolS"):
        uid = d.get("leaf", d.get("uid"))
        if sort[0] == "bv":
            v = d.get("value") or 0
            if not d.get("symbolic", True):
                return claripy.BVV(v, sort[1])
            x = claripy.SI(name=f"p{uid}", bits=sort[1], lower_bound=v, upper_bound=v, stride=0, explicit_name=True)
            vals[x.args[0]] = (v, sort[1])
            return x
        b = claripy.BoolS(f"p{uid}", explicit_name=True)
        vals[b.args[0]] = (bool(d.get("value")), None)
        return b
    op = d["op"]
    if op == "BVV":
        return claripy.BVV(d["args"][0], d["args"][1])
    if op == "BoolV":
        return claripy.BoolV(bool(d["args"][0]))
    args = tuple(_build_pinned(a, vals) for a in d["args"])
    return BV(op, args, length=sort[1]) if sort[0] == "bv" else Bool(op, args)


def _concrete(e, vals):
    import claripy

    def leaf(a):
        if a.op == "BVS" and a.args[0] in vals:
            return claripy.BVV(vals[a.args[0]][0], a.length)
        if a.op == "BoolS" and a.args[0] in vals:
            return claripy.BoolV(vals[a.args[0]][0])
        return a
    r = claripy.replace_dict(e.clear_annotations() if False else e, {}, leaf_operation=leaf)
    return claripy.backends.concrete.eval(r, 1)[0]


def replay_rule(rule, cmp, failure):
    """native replay: rebuild the truism with every leaf pinned (by a singleton strided-interval annotation) to its
    counter-model value, run the real rule, and evaluate truism and balanced truism under that assignment"""
    import claripy
    from claripy.backends.backend_vsa.balancer import Balancer
    d = failure.get("witness", {}).get("truism")
    if not d:
        return {"reproduced": False, "text": "no truism in the witness"}
    vals = {}
    t = _build_pinned(d, vals)
    try:
        r = getattr(Balancer, rule)(t)
    except Exception as e:  # noqa
        return {"reproduced": failure.get("kind") == "raises", "text": f"Balancer.{rule}({t!r}) raised {type(e).__name__}: {e}"}
    if r is t:
        return {"reproduced": False, "text": f"Balancer.{rule}({t!r}) left the truism unchanged"}
    sizes = [a.length for a in r.args if isinstance(a, claripy.ast.BV)]
    if len(set(sizes)) > 1:
        return {"reproduced": True, "text": f"Balancer.{rule}({t!r}) = {r!r}: ill-sorted comparison of widths {sizes}"}
    try:
        tv, rv = _concrete(t, vals), _concrete(r, vals)
    except Exception as e:  # noqa
        return {"reproduced": False, "text": f"could not evaluate: {type(e).__name__}: {e}"}
    asg = {k: v[0] for k, v in vals.items()}
    if tv and not rv:
        return {"reproduced": True, "text": f"Balancer.{rule}({t!r}) = {r!r}; the assignment {asg} (each variable annotated with that singleton interval) satisfies the truism but not the balanced truism"}
    return {"reproduced": False, "text": f"Balancer.{rule}({t!r}) = {r!r}; under {asg}: truism {tv}, balanced {rv}"}


def ob_reverse_comparison(w=8, tier="quick"):
    ns = load()
    _cardinality_prop()
    B = ns["Balancer"]
    proxies.set_iw(40)
    # getattr(BV, new_op) inside the real code: comparison constructors of the symbolic BV class
    def body(c):
        op = CMP[c.choose([True] * len(CMP), "cmp-op")]
        t = _truism(c, op, None, w)
        try:
            r = B._reverse_comparison(t)
        except (PathEnd, Undecided):
            raise
        except Exception as ex:  # noqa
            from claripy.errors import ClaripyBalancerError
            if isinstance(ex, ClaripyBalancerError):
                c.check("_reverse_comparison/balancer-error", True)
                return "balancer-error"
            c.fail("Balancer._reverse_comparison/raises", f"{type(ex).__name__}: {ex}", kind="raises")
            return "raised"
        c.check("Balancer._reverse_comparison/equivalent", r.den == t.den, "the reversed comparison is not equivalent")
        return "ret:" + op

    return explore(body, _opts(tier))


def ob_assumptions(w=8, tier="quick"):
    ns = load()
    _cardinality_prop()
    B = ns["Balancer"]
    proxies.set_iw(40)

    def body(c):
        op = CMP[c.choose([True] * len(CMP), "cmp-op")]
        t = _truism(c, op, None, w)
        try:
            rs = B._get_assumptions(t)
        except (PathEnd, Undecided):
            raise
        except Exception as ex:  # noqa
            c.fail("Balancer._get_assumptions/raises", f"{type(ex).__name__}: {ex}", kind="raises")
            return "raised"
        for a in rs:
            if not isinstance(a, SN.SymBoolN):
                c.fail("Balancer._get_assumptions/type", f"assumption is {type(a).__name__}")
                continue
            c.check("Balancer._get_assumptions/valid", a.den, "an implicit assumption is not valid")
        c.check("Balancer._get_assumptions/done", True)
        return f"{op}:{len(rs)}"

    return explore(body, _opts(tier))


def ob_handle_comparison(w=4, tier="quick"):
    """{truism: cmp(lhs, rhs)}  _handle_comparison  {every bound recorded for lhs holds under the truism, in the
    signedness of the comparison}"""
    ns = load()
    _cardinality_prop()
    B = ns["Balancer"]
    proxies.set_iw(3 * w + 12)
    iw = proxies.get_iw()

    def body(c):
        ops = [o for o in CMP if o not in ("__eq__", "__ne__")]
        op = ops[c.choose([True] * len(ops), "cmp-op")]
        t = _truism(c, op, None, w)
        lhs, rhs = t.args
        b = object.__new__(B)
        b._truisms, b._ast_hash_map, b._lower_bounds, b._upper_bounds = [], {}, {}, {}
        from claripy.errors import ClaripyBalancerUnsatError
        try:
            b._handle_comparison(t)
        except ClaripyBalancerUnsatError:
            c.check("Balancer._handle_comparison/unsat-only-if-unsat", z3.Not(t.den), "reported unsatisfiable although an assignment satisfies the truism")
            return "unsat"
        except (PathEnd, Undecided):
            raise
        except Exception as ex:  # noqa
            c.fail("Balancer._handle_comparison/raises", f"{type(ex).__name__}: {ex}", kind="raises")
            return "raised"
        signed = op.startswith("S")
        val = z3.SignExt(iw - w, lhs.den) if signed else z3.ZeroExt(iw - w, lhs.den)
        for k, bound in b._upper_bounds.items():
            c.watch["upper"] = proxies._bv(bound)
            c.check("Balancer._handle_comparison/upper-bound", z3.Implies(t.den, val <= proxies._bv(bound)), "upper bound excludes a satisfying value")
        for k, bound in b._lower_bounds.items():
            c.watch["lower"] = proxies._bv(bound)
            c.check("Balancer._handle_comparison/lower-bound", z3.Implies(t.den, val >= proxies._bv(bound)), "lower bound excludes a satisfying value")
        c.check("Balancer._handle_comparison/done", True)
        return "ret:" + op

    return explore(body, _opts(tier))


# ---- the remaining functions of the balancer (round 4): _unpack_truisms*, _handle_eq / _handle_ne / _handle_if, _balance_if,
# ---- the bound store (_add_lower_bound / _add_upper_bound) and _replacements_iter ---------------------------------

def _cardinality_free():
    """Base.cardinality by contract: 1 for a concrete node; for a symbolic node 1 or more (an annotated symbol, x - x, ...) - decided once per
    node; 1 means the VSA value is a singleton, so by C24 the expression has that one value (vsa.eval(e, 1)[0] == [[e]])"""
    def card(self):
        r = self.root()
        if not hasattr(r, "vf_card"):
            if not bool(self.symbolic):
                r.vf_card = 1
            else:
                r.vf_card = 1 if cur().choose([True, True], f"cardinality{r.uid}") == 0 else 2
        return r.vf_card
    SN.SymNode.cardinality = property(card)


class VSAContract2(VSAContract):
    """VSAContract + what the handlers need: eval of a cardinality-1 expression is its value; min / max of a symbol that carries a
    StridedIntervalAnnotation(stride, lb, ub) with lb <= ub are exactly lb / ub (C24: leaf obligations)"""

    @staticmethod
    def eval(e, n):
        if getattr(e.root(), "vf_card", None) == 1 or not bool(e.symbolic):
            w = e.length
            v = SymInt.fresh(f"the-value{e.root().uid}", 0, (1 << w) - 1)
            cur().assume(e.den == z3.Extract(w - 1, 0, v.z))
            return [v]
        return VSAContract.eval(e, n)

    @staticmethod
    def _anno(e):
        return e.get_annotation(real.annotation.StridedIntervalAnnotation) if e.root()._op in (None, "BVS") and getattr(e.root(), "vf_bvs", False) else None

    @staticmethod
    def min(e, signed=False):
        a = VSAContract2._anno(e)
        if a is not None and not signed:
            if not cur().branch(proxies._bv(a.lower_bound) <= proxies._bv(a.upper_bound), "annotation-does-not-wrap"):
                raise Undecided("min of a wrapping annotation")
            return a.lower_bound
        return VSAContract.min(e, signed)

    @staticmethod
    def max(e, signed=False):
        a = VSAContract2._anno(e)
        if a is not None and not signed:
            if not cur().branch(proxies._bv(a.lower_bound) <= proxies._bv(a.upper_bound), "annotation-does-not-wrap"):
                raise Undecided("max of a wrapping annotation")
            return a.upper_bound
        return VSAContract.max(e, signed)


def _isect(a, b):
    """contract of the AST operation a.intersection(b) as the VSA backend evaluates it (C22 / C24): a value both operands take is a value of
    the result - under an assignment where the operands are equal the result has that value"""
    r = SN.new_node(a.root().sort, label="isect")
    cur().assume(z3.Implies(a.den == b.den, r.den == a.den))
    cur().assume(r.zsym == z3.Or(a.zsym, b.zsym))
    r.vf_isect = (a, b)
    return r


def _bvs(name, size, **kw):
    r = SN.new_node(("bv", size), label="bvs")
    r.vf_bvs = True
    return r


def load2():
    """the same real source, with the extended VSA contract"""
    import logging
    logging.getLogger("claripy.backends.backend_vsa.balancer").setLevel(logging.CRITICAL + 1)
    if "b2" not in _c:
        cl = SIMP.contract_claripy()
        cl.backends = SIMP._NS(vsa=VSAContract2, concrete=SIMP._NS(handles=lambda e: True))
        cl.annotation = real.annotation
        cl.excavate_ite = lambda e: e
        cl.BVS = _bvs
        vsa_mod = SIMP._NS(StridedInterval=SIMP._NS(max_int=lambda k: (1 << k) - 1))
        _c["b2"] = loader.load("claripy/backends/backend_vsa/balancer.py", "claripy.backends.backend_vsa.balancer",
                               overrides={"claripy": cl, "vsa": vsa_mod, "BV": SN.SymBV, "Base": SN.SymNode, "Bool": SN.SymBoolN},
                               extra_shadow={"getattr": SIMP.vf_getattr})
    return _c["b2"]


class _Patched:
    """SymBV.intersection answered by the VSA-level contract while one obligation runs; _with_annotations keeps the vf_bvs mark"""
    def __enter__(self):
        self.old = SN.SymBV.intersection
        self.oldw = SN.SymNode._with_annotations
        SN.SymBV.intersection = _isect
        oldw = self.oldw

        def w(node, annos):
            r = oldw(node, annos)
            if getattr(node.root(), "vf_bvs", False):
                r.root().vf_bvs = True
            return r
        SN.SymNode._with_annotations = w

    def __exit__(self, *a):
        SN.SymBV.intersection = self.old
        SN.SymNode._with_annotations = self.oldw


def _blank(B):
    b = object.__new__(B)
    b._truisms, b._ast_hash_map, b._lower_bounds, b._upper_bounds = [], {}, {}, {}
    b.sat = True
    return b


def _bounds_hold(c, label, b, t, w, iw, signed=False):
    """every bound recorded in b holds under the truism t for the expression it is recorded for"""
    for store, is_upper in ((b._upper_bounds, True), (b._lower_bounds, False)):
        for k, bound in store.items():
            ast = b._ast_hash_map.get(k)
            if ast is None:
                c.fail(label + "/bound-without-expression", "a bound is recorded under a key that _ast_hash_map does not know")
                continue
            val = z3.SignExt(iw - w, ast.den) if signed else z3.ZeroExt(iw - w, ast.den)
            bz = proxies._bv(bound)
            c.watch["upper" if is_upper else "lower"] = bz
            c.check(label + ("/upper-bound" if is_upper else "/lower-bound"), z3.Implies(t.den, (val <= bz) if is_upper else (val >= bz)),
                    f"the {'upper' if is_upper else 'lower'} bound recorded for an operand excludes a value it takes under a satisfying assignment")


def ob_handler(what, w=4, tier="quick"):
    """{truism}  _handle_eq / _handle_ne / _handle_if  {every recorded bound holds under the truism (unsigned); every truism pushed on the
    worklist is implied by the truism}"""
    ns = load2()
    _cardinality_free()
    B = ns["Balancer"]
    proxies.set_iw(3 * w + 12)
    iw = proxies.get_iw()
    from claripy.errors import ClaripyBalancerUnsatError
    label = f"Balancer._handle_{what}"

    def body(c):
        with _Patched():
            if what == "if":
                t = SN.new_node(("bool",), "root_t")
                cond, tb, fb = (SN.new_node(("bool",), n) for n in ("cond", "then", "else"))
                t._set_shape("If", (cond, tb, fb))
                c.assume(t.den == z3.If(cond.den, tb.den, fb.den))
                c.assume(t.zsym == z3.Or(cond.zsym, tb.zsym, fb.zsym))
            else:
                t = _truism(c, "__eq__" if what == "eq" else "__ne__", None, w)
            c.describers.append(lambda m: {"truism": SN.describe(t, m)})
            b = _blank(B)
            try:
                getattr(b, "_handle_" + what)(t)
            except ClaripyBalancerUnsatError:
                c.check(label + "/unsat-only-if-unsat", z3.Not(t.den), "reported unsatisfiable although an assignment satisfies the truism")
                return "unsat"
            except (PathEnd, Undecided):
                raise
            except Exception as ex:  # noqa
                import traceback
                c.fail(label + "/raises", f"{type(ex).__name__}: {ex} {traceback.format_exc()[-300:]}", kind="raises")
                return "raised"
            _bounds_hold(c, label, b, t, w, iw)
            for p in b._truisms:
                if not isinstance(p, SN.SymBoolN):
                    c.fail(label + "/pushed-type", f"pushed a {type(p).__name__} on the worklist")
                    continue
                c.check(label + "/pushed-truism-implied", z3.Implies(t.den, p.den), "a truism pushed on the worklist does not follow from the handled truism")
            c.check(label + "/done", True)
            return f"{what}:{len(b._lower_bounds)}+{len(b._upper_bounds)}+{len(b._truisms)}"

    return explore(body, _opts(tier))


def ob_unpack(tier="quick"):
    """{c}  _unpack_truisms(c)  {c => every returned truism; ClaripyBalancerUnsatError only if c has no satisfying assignment}"""
    ns = load2()
    _cardinality_free()
    B = ns["Balancer"]
    proxies.set_iw(24)
    from claripy.errors import ClaripyBalancerUnsatError
    label = "Balancer._unpack_truisms"

    real_unpack = B.__dict__["_unpack_truisms"].__func__
    DEPTH = 6 if tier == "quick" else 9

    def body(c):
        t = SN.new_node(("bool",), "root_t")
        c.describers.append(lambda m: {"constraint": SN.describe(t, m)})
        # stated bound: recursion depth of _unpack_truisms <= DEPTH.  The expressions the function builds itself (De Morgan) come back from
        # the constructor contract with an undecided shape, so unlike on a finite AST the recursion need not end: deeper paths are cut
        # (not claimed), every path within the bound is checked
        depth = [0]

        def counted(x):
            depth[0] += 1
            try:
                if depth[0] > DEPTH:
                    c.ghost["cut"] = True
                    raise PathEnd()
                return real_unpack(x)
            finally:
                depth[0] -= 1
        B._unpack_truisms = staticmethod(counted)
        old_hash = SN.SymBoolN.__hash__
        SN.SymBoolN.__hash__ = lambda self: id(self.root())      # the function collects truisms in sets: identity of the node object
        try:
            try:
                rs = B._unpack_truisms(t)
            finally:
                SN.SymBoolN.__hash__ = old_hash
        except ClaripyBalancerUnsatError:
            c.check(label + "/unsat-only-if-unsat", z3.Not(t.den), "reported unsatisfiable although an assignment satisfies the constraint")
            return "unsat"
        except (PathEnd, Undecided):
            raise
        except Exception as ex:  # noqa
            import traceback
            c.fail(label + "/raises", f"{type(ex).__name__}: {ex} {traceback.format_exc()[-300:]}", kind="raises")
            return "raised"
        if not isinstance(rs, (set, frozenset, list, tuple)):
            c.fail(label + "/type", f"returned {type(rs).__name__}")
            return "type"
        for r in rs:
            c.check(label + "/implied", z3.Implies(t.den, r.den), "a returned truism does not follow from the constraint")
        c.check(label + "/done", True)
        return f"ret:{len(rs)}"

    return explore(body, _opts(tier, max_arity=2, nested_arity=2, mentioned={"And", "Or", "Not"}, result_levels=True, op_depth_bound={"And": 2, "Or": 2, "Not": 2}))


def ob_balance_if(cmp="__eq__", w=4, tier="quick"):
    """{truism cmp(If(c, a, b), rhs)}  _balance_if  {the truism implies the returned truism and every truism pushed on the worklist;
    ClaripyBalancerUnsatError only if the truism has no satisfying assignment; never returns None}"""
    ns = load2()
    _cardinality_free()
    B = ns["Balancer"]
    proxies.set_iw(3 * w + 12)
    from claripy.errors import ClaripyBalancerUnsatError
    label = "Balancer._balance_if"

    def body(c):
        t = _truism(c, cmp, "If", w)
        c.describers.append(lambda m: {"truism": SN.describe(t, m)})
        b = _blank(B)
        try:
            r = b._balance_if(t)
        except ClaripyBalancerUnsatError:
            c.check(label + "/unsat-only-if-unsat", z3.Not(t.den), "reported unsatisfiable although an assignment satisfies the truism")
            return "unsat"
        except (PathEnd, Undecided):
            raise
        except Exception as ex:  # noqa
            import traceback
            c.fail(label + "/raises", f"{type(ex).__name__}: {ex} {traceback.format_exc()[-300:]}", kind="raises")
            return "raised"
        if not isinstance(r, SN.SymBoolN):
            c.fail(label + "/type", f"returned {type(r).__name__} (the caller _balance dereferences the result)")
            return "type"
        c.check(label + "/implied", z3.Implies(t.den, r.den), "an assignment satisfies the truism but not the balanced truism")
        for p in b._truisms:
            c.check(label + "/pushed-condition-implied", z3.Implies(t.den, p.den), "the condition pushed on the worklist does not follow from the truism")
        return "unchanged" if r is t else f"branch-selected:{len(b._truisms)}"

    return explore(body, _opts(tier, if_depth_bound=1))


def _in_annotation(v, lb, ub, w, iw):
    """member of the strided interval the VSA backend builds from StridedIntervalAnnotation(1, lb, ub) at w bits: bounds are taken modulo 2^w,
    the interval runs upwards from lb to ub (wrapping)"""
    m = (1 << w) - 1
    lo, hi = proxies._bv(lb) & m, proxies._bv(ub) & m
    return ((v - lo) & m) <= ((hi - lo) & m)


def ob_bound_store(w=4, tier="quick"):
    """the bound store.  _add_lower_bound / _add_upper_bound: if every recorded bound of an expression holds for its value (in ONE reading of
    the value - unsigned, or signed - per expression) and the added bound does too, every recorded bound holds afterwards and the expression is
    registered.  _replacements_iter: for an expression whose recorded bounds hold in one reading and which has BOTH bounds, or only bounds of
    the unsigned reading, the yielded replacement is `expr ∩ bound-symbol` (for Reverse(x): x is replaced by the reversed intersection) and
    the bound symbol's annotation contains the value.  (A signed bound on one side only is completed by the implicit assumption that
    _get_assumptions queues - that the worklist processes it is the bounded part.)"""
    ns = load2()
    _cardinality_free()
    B = ns["Balancer"]
    proxies.set_iw(3 * w + 12)
    iw = proxies.get_iw()
    label = "Balancer.bound-store"

    def body(c):
        with _Patched():
            b = _blank(B)
            rev = c.choose([True, True], "expression-is-a-Reverse") == 1
            x = SN.new_node(("bv", w), "root_x")
            if rev:
                if w % 8:
                    raise PathEnd()
                if not x._op_is("Reverse"):
                    raise PathEnd()
            else:
                x._excl.add("Reverse")
            signed = c.choose([True, True], "reading") == 1
            val = z3.SignExt(iw - w, x.den) if signed else z3.ZeroExt(iw - w, x.den)
            lo_r, hi_r = (-(1 << (w - 1)), (1 << (w - 1)) - 1) if signed else (0, (1 << w) - 1)
            seq = []
            nadd = 1 + c.choose([True, True, True], "n-adds")
            for i in range(nadd):
                upper = c.choose([True, True], f"add{i}-is-upper") == 1
                bd = SymInt.fresh(f"b{i}", lo_r, hi_r)
                c.assume((val <= bd.z) if upper else (val >= bd.z))           # the added bound holds for the value
                (b._add_upper_bound if upper else b._add_lower_bound)(x, bd)
                seq.append(upper)
            k = x.hash()
            if k not in b._ast_hash_map or b._ast_hash_map[k] is not x:
                c.fail(label + "/registered", "the expression is not registered under its key")
                return "bad"
            for store, is_upper in ((b._upper_bounds, True), (b._lower_bounds, False)):
                if k in store:
                    bz = proxies._bv(store[k])
                    c.check(label + "/merged-bound-holds", (val <= bz) if is_upper else (val >= bz), "after merging, a recorded bound excludes the value")
            has_lo, has_hi = k in b._lower_bounds, k in b._upper_bounds
            if (any(seq) != has_hi) or (not all(seq)) != has_lo:
                c.fail(label + "/sides", "a bound was recorded on the wrong side")
                return "bad"
            if signed and not (has_lo and has_hi):
                c.check(label + "/one-sided-signed-bound-left-to-the-assumption", True)
                return "signed-one-sided"
            try:
                out = b.replacements
            except (PathEnd, Undecided):
                raise
            except Exception as ex:  # noqa
                import traceback
                c.fail(label + "/replacements-raises", f"{type(ex).__name__}: {ex} {traceback.format_exc()[-300:]}", kind="raises")
                return "raised"
            if len(out) != 1:
                c.fail(label + "/one-replacement-per-expression", f"{len(out)} replacements for one expression")
                return "bad"
            old, newv = out[0]
            inner = newv
            if rev:
                if old is not x.args[0]:
                    c.fail(label + "/reverse-replaces-the-operand", "for Reverse(y) the replaced expression is not y")
                    return "bad"
                gf = getattr(newv.root(), "ghost_from", None)
                if not (gf and gf[0] == "Reverse" and len(gf[1]) == 1):
                    c.fail(label + "/reverse-replacement-is-reversed", "for Reverse(y) the replacement is not the reversed intersection")
                    return "bad"
                inner = gf[1][0]
            elif old is not x:
                c.fail(label + "/replaces-the-expression", "the replaced expression is not the bounded one")
                return "bad"
            parts = getattr(inner.root(), "vf_isect", None)
            if parts is None or parts[0] is not x:
                c.fail(label + "/replacement-is-an-intersection-with-the-expression", "the replacement is not `expression ∩ bound`")
                return "bad"
            an = parts[1].get_annotation(real.annotation.StridedIntervalAnnotation)
            if an is None or not getattr(parts[1].root(), "vf_bvs", False):
                c.fail(label + "/bound-symbol", "the bound is not a fresh symbol with a StridedIntervalAnnotation")
                return "bad"
            st = an.stride
            c.check(label + "/stride-1", proxies._bv(st) == 1 if not isinstance(st, int) else st == 1, "the bound symbol's stride is not 1")
            v = z3.ZeroExt(iw - w, x.den)
            c.check(label + "/value-in-bound-annotation", _in_annotation(v, an.lower_bound, an.upper_bound, w, iw),
                    "the bound symbol's interval excludes a value that satisfies every recorded bound")
            return f"{'signed' if signed else 'unsigned'}:{'rev' if rev else 'plain'}:{int(has_lo)}{int(has_hi)}"

    return explore(body, _opts(tier))


# ---- alignment, dispatch and the two loops (_balance, _doit) by loop invariant --------------------------------------

class _Cut(Exception):
    """raised by a harness object at the start of the NEXT loop iteration: the state at that point is then checked against the invariant"""


class _AlignPatch:
    """canonicalize() / identical() of the VSA-level self check in _align_truism by contract: canonicalize keeps the meaning; identical()
    may answer anything (the function must be right whichever way its self check goes)"""
    def __enter__(self):
        SN.SymNode.canonicalize = lambda self, **kw: (None, None, self)
        SN.SymNode.identical = lambda self, o: cur().choose([True, True], "identical?") == 0

    def __exit__(self, *a):
        del SN.SymNode.canonicalize
        del SN.SymNode.identical


def ob_align(what, w=8, tier="quick"):
    """_align_ast on a bit-vector / on a comparison, _align_truism, _adjust_truism: the result has the meaning of the argument"""
    ns = load2()
    _cardinality_free()
    B = ns["Balancer"]
    proxies.set_iw(3 * w + 12)
    label = f"Balancer.{'_align_ast' if what.startswith('ast') else '_' + what}"

    def body(c):
        with _AlignPatch():
            if what == "ast-bv":
                t = SN.new_node(("bv", w), "root_a")
            else:
                op = CMP[c.choose([True] * len(CMP), "cmp-op")]
                t = _truism(c, op, None, w)
            c.describers.append(lambda m: {"argument": SN.describe(t, m)})
            try:
                r = {"ast-bv": B._align_ast, "ast-bool": B._align_ast, "align_truism": B._align_truism, "adjust_truism": B._adjust_truism}[what](t)
            except (PathEnd, Undecided):
                raise
            except Exception as ex:  # noqa
                from claripy.errors import ClaripyBalancerError
                if isinstance(ex, ClaripyBalancerError):
                    c.check(label + "/balancer-error-is-caught-by-the-caller", True)
                    return "balancer-error"
                import traceback
                c.fail(label + "/raises", f"{type(ex).__name__}: {ex} {traceback.format_exc()[-300:]}", kind="raises")
                return "raised"
            if not isinstance(r, SN.SymNode) or r.root().sort != t.root().sort:
                c.fail(label + "/sort", f"returned {type(r).__name__} of another sort")
                return "sort"
            c.describers.append(lambda m: {"result": SN.describe(r, m)})
            c.check(label + "/same-meaning", r.den == t.den, "the aligned expression does not have the meaning of the original")
            return "same" if r is t else "rebuilt"

    return explore(body, _opts(tier, mentioned={"__add__", "__sub__", "__mul__", "__and__", "__or__", "__xor__", "And", "Or"}, max_arity=3, nested_arity=2))


HANDLERS = {"__eq__": "_handle_eq", "__ne__": "_handle_ne", "If": "_handle_if", "ULT": "_handle_comparison", "ULE": "_handle_comparison",
            "UGT": "_handle_comparison", "UGE": "_handle_comparison", "SLT": "_handle_comparison", "SLE": "_handle_comparison",
            "SGT": "_handle_comparison", "SGE": "_handle_comparison"}


def ob_handle_dispatch(w=4, tier="quick"):
    """_handle: ClaripyBalancerUnsatError only if the truism has no satisfying assignment; a truism whose left side has one value records
    nothing; otherwise exactly the handler of the truism's operation runs, on that truism (the handlers have their own obligations)"""
    ns = load2()
    _cardinality_free()
    B = ns["Balancer"]
    proxies.set_iw(24)
    from claripy.errors import ClaripyBalancerUnsatError
    label = "Balancer._handle"

    def body(c):
        ops = CMP + ["If"]
        op = ops[c.choose([True] * len(ops), "op")]
        if op == "If":
            t = SN.new_node(("bool",), "root_t")
            cond, tb, fb = (SN.new_node(("bool",), n) for n in ("cond", "then", "else"))
            t._set_shape("If", (cond, tb, fb))
            c.assume(t.den == z3.If(cond.den, tb.den, fb.den))
        else:
            t = _truism(c, op, None, w)
        b = _blank(B)
        calls = []
        for h in set(HANDLERS.values()):
            setattr(b, h, (lambda hh: (lambda x: calls.append((hh, x))))(h))
        try:
            b._handle(t)
        except ClaripyBalancerUnsatError:
            c.check(label + "/unsat-only-if-unsat", z3.Not(t.den), "reported unsatisfiable although an assignment satisfies the truism")
            return "unsat"
        except (PathEnd, Undecided):
            raise
        except Exception as ex:  # noqa
            c.fail(label + "/raises", f"{type(ex).__name__}: {ex}", kind="raises")
            return "raised"
        single = op != "If" and t.args[0].cardinality == 1
        if single or (op == "If" and not calls):
            if calls and single:
                c.fail(label + "/single-valued-left-side", "a handler ran although the left side has one value")
            c.check(label + "/done", True)
            return "nothing"
        if len(calls) != 1 or calls[0][0] != HANDLERS[op] or calls[0][1] is not t:
            c.fail(label + "/dispatch", f"for {op} the handlers called were {[h for h, _ in calls]}; expected {HANDLERS[op]} on the truism")
            return "bad"
        c.check(label + "/done", True)
        return op

    return explore(body, _opts(tier))


def ob_handleable(w=4, tier="quick"):
    """_handleable_truism is the gate of the worklist: what it lets through is adjusted, balanced and handled, and all of that computes on
    bit-vectors (len(), min / max, bounds, a bound symbol of len(expr) bits).  Post: a truthy answer only for a truism with two operands that
    are both bit-vectors, at most one of them multi-valued, and whose operation is not If."""
    ns = load2()
    _cardinality_free()
    B = ns["Balancer"]
    proxies.set_iw(24)
    label = "Balancer._handleable_truism"

    def body(c):
        t = SN.new_node(("bool",), "root_t")
        c.describers.append(lambda m: {"truism": SN.describe(t, m)})
        try:
            r = B._handleable_truism(t)
        except (PathEnd, Undecided):
            raise
        except Exception as ex:  # noqa
            c.fail(label + "/raises", f"{type(ex).__name__}: {ex}", kind="raises")
            return "raised"
        if not r:
            c.check(label + "/declined", True)
            return "declined"
        args = t.args
        if len(args) < 2:
            c.fail(label + "/two-operands", "accepted a truism with fewer than two operands")
            return "bad"
        if not all(isinstance(a, SN.SymBV) for a in args[:2]):
            c.fail(label + "/bit-vector-operands", f"accepted {t.root()._op} over {[type(a).__name__ for a in args[:2]]}: the handlers compute bounds of len(operand) bits "
                   "and intersect the operand with a bit-vector bound", kind="precondition")
            return "bad"
        if t.root()._op == "If":
            c.fail(label + "/not-if", "accepted an If")
            return "bad"
        if args[0].cardinality > 1 and args[1].cardinality > 1:
            c.fail(label + "/one-side-single-valued", "accepted a truism whose operands are both multi-valued")
            return "bad"
        c.check(label + "/accepted", True)
        return "accepted:" + str(t.root()._op)

    return explore(body, _opts(tier, replay=replay_handleable))


def replay_handleable(failure):
    """native: constraint_to_si on a disequality between a comparison and a Boolean constant; every returned pair must be (expression, bound)
    with a bound that is an expression of the same sort"""
    import claripy
    x = claripy.BVS("x", 8)
    for t in [(x > 3) != claripy.false(), (x > 3) != claripy.true()]:
        try:
            sat, repl = claripy.backends.vsa.constraint_to_si(t)
        except Exception as e:  # noqa
            return {"reproduced": True, "text": f"constraint_to_si({t!r}) raised {type(e).__name__}: {e}"}
        for old, new in repl:
            if not isinstance(new, claripy.ast.Base) or type(new) is not type(old):
                return {"reproduced": True, "text": f"constraint_to_si({t!r}) = ({sat}, {repl!r}): the bound of {old!r} is {new!r}"}
    return {"reproduced": False, "text": "constraint_to_si returns well-formed pairs for Boolean disequalities"}


def _rule_stub(c, w, name, pushes=None):
    """contract of a balancing rule (each proved as its own obligation, except the recorded findings): the same truism, or a comparison that
    the truism implies; ClaripyBalancerError allowed; _balance_if may also push implied truisms / report an unsatisfiable truism"""
    from claripy.errors import ClaripyBalancerError, ClaripyBalancerUnsatError

    def stub(t):
        k = c.choose([True, True, True] + ([True] if pushes is not None else []), f"{name}-outcome")
        if k == 0:
            return t
        if k == 2:
            raise ClaripyBalancerError("spec: rule gave up")
        if k == 3:
            if c.choose([z3.Not(t.den), True], "if-unsat") == 0:
                raise ClaripyBalancerUnsatError()
            p = SN.new_node(("bool",), "pushed")
            c.assume(z3.Implies(t.den, p.den))
            pushes.append(p)
        op = CMP[c.choose([True] * len(CMP), f"{name}-result-op")]
        r = _truism(c, op, None, w)
        c.assume(z3.Implies(t.den, r.den))
        return r
    return stub


def ob_balance_loop(w=4, tier="quick"):
    """the loop of _balance by invariant.  Invariant: the current truism is implied by the truism _balance was called with.  One ARBITRARY
    iteration is executed on the real code (the rules and _align_truism by their contracts); at the start of the next iteration, and at every
    return, the invariant is checked.  ClaripyBalancerUnsatError only if the original truism has no satisfying assignment."""
    ns = load2()
    _cardinality_free()
    B = ns["Balancer"]
    proxies.set_iw(24)
    from claripy.errors import ClaripyBalancerUnsatError
    label = "Balancer._balance"

    def body(c):
        t0 = SN.new_node(("bool",), "root_original")
        op = CMP[c.choose([True] * len(CMP), "cmp-op")]
        t = _truism(c, op, None, w)                       # the truism at the start of an arbitrary iteration
        c.assume(z3.Implies(t0.den, t.den))                # invariant
        b = _blank(B)
        seen = []

        def align(x):
            if seen:
                seen.append(x)
                raise _Cut()
            seen.append(x)
            if c.choose([True, True], "align-rebuilds") == 0:
                return x
            r = _truism(c, x.root()._op, None, w)
            c.assume(r.den == x.den)
            return r
        saved = {}
        for name in list(RULES) + ["_align_truism"]:
            saved[name] = B.__dict__[name]
        try:
            B._align_truism = staticmethod(align)
            for name in RULES:
                setattr(B, name, staticmethod(_rule_stub(c, w, name)))
            b._balance_if = _rule_stub(c, w, "_balance_if", pushes=b._truisms)
            try:
                r = b._balance(t)
            except _Cut:
                nxt = seen[-1]
                c.check(label + "/invariant-at-next-iteration", z3.Implies(t0.den, nxt.den), "the truism carried into the next iteration does not follow from the original one")
                r = None
            except ClaripyBalancerUnsatError:
                c.check(label + "/unsat-only-if-unsat", z3.Not(t0.den), "reported unsatisfiable although an assignment satisfies the truism")
                return "unsat"
            except (PathEnd, Undecided):
                raise
            except Exception as ex:  # noqa
                import traceback
                c.fail(label + "/raises", f"{type(ex).__name__}: {ex} {traceback.format_exc()[-300:]}", kind="raises")
                return "raised"
        finally:
            for name, v in saved.items():
                setattr(B, name, v)
        if r is not None:
            if not isinstance(r, SN.SymBoolN):
                c.fail(label + "/type", f"returned {type(r).__name__}")
                return "type"
            c.check(label + "/result-implied", z3.Implies(t0.den, r.den), "the returned truism does not follow from the original one")
        for p in b._truisms:
            c.check(label + "/pushed-implied", z3.Implies(t0.den, p.den), "a truism pushed on the worklist does not follow from the original one")
        return "returned" if r is not None else "next-iteration"

    return explore(body, _opts(tier))


class _Worklist(list):
    """the worklist at the start of an ARBITRARY iteration of _doit: it holds some truisms, all implied by the constraint (the invariant); pop()
    yields an arbitrary one of them; the second evaluation of the loop condition ends the run (the state is then checked)"""
    def __init__(self, t):
        super().__init__()
        self.t, self.checks = t, 0

    def __len__(self):
        self.checks += 1
        if self.checks > 1:
            raise _Cut()
        return 1

    def pop(self, *a):
        return self.t


def ob_doit(w=4, tier="quick"):
    """the worklist loop of _doit by invariant.  Invariant: every truism on the worklist is implied by the constraint c, and every recorded
    bound holds under c.  One ARBITRARY iteration runs on the real code with every callee answered by its contract (_unpack_truisms,
    _handleable_truism, _adjust_truism, _get_assumptions, _balance, _handle, the VSA queries); afterwards every truism that was pushed and
    every bound fact that was recorded must follow from c; ClaripyBalancerUnsatError only if c has no satisfying assignment.  The entry
    (excavate_ite(c) is pushed first) is the base case: by contract excavate_ite keeps the meaning."""
    ns = load2()
    _cardinality_free()
    B = ns["Balancer"]
    proxies.set_iw(24)
    from claripy.errors import ClaripyBalancerUnsatError
    label = "Balancer._doit"

    def body(c):
        c0 = SN.new_node(("bool",), "root_c")
        t = SN.new_node(("bool",), "popped")
        c.assume(z3.Implies(c0.den, t.den))                       # invariant: the popped truism follows from c
        b = _blank(B)
        wl = _Worklist(t)
        b._truisms = wl
        facts = []

        def implied_by(x, name):
            r = SN.new_node(("bool",), name)
            c.assume(z3.Implies(x.den, r.den))
            return r

        def unpack(x):
            k = c.choose([True, True, z3.Not(x.den)], "unpack-outcome")
            if k == 2:
                raise ClaripyBalancerUnsatError()
            return set() if k == 0 else {implied_by(x, "unpacked")}

        def adjust(x):
            if c.choose([True, True], "adjust-reverses") == 0:
                return x
            r = SN.new_node(("bool",), "adjusted")
            c.assume(r.den == x.den)
            return r

        def assumptions(x):
            if c.choose([True, True], "has-assumption") == 0:
                return []
            a = SN.new_node(("bool",), "assumption")
            c.assume(a.den)
            return [a]

        def balance(x):
            if c.choose([z3.Not(x.den), True], "balance-unsat") == 0:
                raise ClaripyBalancerUnsatError()
            if c.choose([True, True], "balance-pushes") == 1:
                wl.append(implied_by(x, "pushed-by-balance"))
            return implied_by(x, "balanced")

        def handle(x):
            if c.choose([z3.Not(x.den), True], "handle-unsat") == 0:
                raise ClaripyBalancerUnsatError()
            if c.choose([True, True], "handle-pushes") == 1:
                wl.append(implied_by(x, "pushed-by-handle"))
            f = z3.Bool(f"bound_fact{len(facts)}")
            c.assume(z3.Implies(x.den, f))
            facts.append(f)

        saved = {n: B.__dict__[n] for n in ("_unpack_truisms", "_handleable_truism", "_adjust_truism", "_get_assumptions")}
        old_hash = SN.SymBoolN.__hash__
        try:
            SN.SymBoolN.__hash__ = lambda self: id(self.root())
            B._unpack_truisms = staticmethod(unpack)
            B._handleable_truism = staticmethod(lambda x: [None, False, True][c.choose([True, True, True], "handleable")])
            B._adjust_truism = staticmethod(adjust)
            B._get_assumptions = staticmethod(assumptions)
            b._balance = balance
            b._handle = handle
            entry = []
            try:
                b._doit(c0)
            except _Cut:
                pass
            except ClaripyBalancerUnsatError:
                c.check(label + "/unsat-only-if-unsat", z3.Not(c0.den), "reported unsatisfiable although an assignment satisfies the constraint")
                return "unsat"
            except (PathEnd, Undecided):
                raise
            except Exception as ex:  # noqa
                import traceback
                c.fail(label + "/raises", f"{type(ex).__name__}: {ex} {traceback.format_exc()[-300:]}", kind="raises")
                return "raised"
        finally:
            SN.SymBoolN.__hash__ = old_hash
            for n, v in saved.items():
                setattr(B, n, v)
        pushed = list.__iter__(wl)
        n = 0
        for p in pushed:
            n += 1
            if not isinstance(p, SN.SymBoolN):
                c.fail(label + "/pushed-type", f"pushed a {type(p).__name__}")
                continue
            c.check(label + "/worklist-invariant", z3.Implies(c0.den, p.den), "a truism on the worklist does not follow from the constraint")
        for f in facts:
            c.check(label + "/recorded-bounds-follow-from-the-constraint", z3.Implies(c0.den, f), "a bound was recorded from a truism that does not follow from the constraint")
        c.check(label + "/done", True)
        return f"iteration:{n}pushed:{len(facts)}facts"

    return explore(body, _opts(tier))


# ---- bounded end to end ------------------------------------------------------------------------------------------

def _members_of_bound(bound, w):
    """concrete values admitted by the replacement `bound` (a claripy AST evaluated by the VSA backend)"""
    import claripy
    m = claripy.backends.vsa.convert(bound)
    from vf.contracts import si as SI
    if hasattr(m, "stride"):
        return SI.py_members(m)
    return None


def end_to_end(seed=0, w=4, budget_s=60, known_labels=(), shard=0, nshards=1, known_cases=(), collect=False, only=None):
    """constraint_to_si on every constraint  cmp(shape(x[, y]), constant)  over the stated shapes; every satisfying
    assignment is enumerated and must lie inside every returned bound; sat must be reported for satisfiable constraints"""
    import time
    import claripy
    t0 = time.time()
    x = claripy.BVS("e2e_x", w, explicit_name=True)
    y = claripy.BVS("e2e_y", w, explicit_name=True)
    M = 1 << w
    shapes = {
        "x": (x, lambda a, b: a), "x+c": (x + 3, lambda a, b: (a + 3) % M), "x-c": (x - 2, lambda a, b: (a - 2) % M),
        "c-x": (5 - x, lambda a, b: (5 - a) % M), "x&m": (x & 6, lambda a, b: a & 6), "x<<1": (x << 1, lambda a, b: (a << 1) % M),
        "zext(x)[w-1:0]": (x.zero_extend(4)[w - 1:0], lambda a, b: a), "x+y": (x + y, lambda a, b: (a + b) % M),
        "If(x<4,x,y)": (claripy.If(x.ULT(4), x, y), lambda a, b: a if a < 4 else b),
    }
    if w >= 4:
        shapes["x[2:0]"] = (x[2:0], lambda a, b: a & 7)
        shapes["x[w-1:1]"] = (x[w - 1:1], lambda a, b: a >> 1)
        shapes["concat(0,x[1:0])"] = (claripy.Concat(claripy.BVV(0, 2), x[1:0]), lambda a, b: a & 3)
        shapes["sext(x[1:0])"] = (x[1:0].sign_extend(2), lambda a, b: ((a & 3) | (12 if a & 2 else 0)))
    sg = lambda v, n: v - (1 << n) if v >> (n - 1) else v
    cmps = {"__eq__": lambda p, q, n: p == q, "__ne__": lambda p, q, n: p != q, "ULT": lambda p, q, n: p < q, "ULE": lambda p, q, n: p <= q,
            "UGT": lambda p, q, n: p > q, "UGE": lambda p, q, n: p >= q, "SLT": lambda p, q, n: sg(p, n) < sg(q, n),
            "SLE": lambda p, q, n: sg(p, n) <= sg(q, n), "SGT": lambda p, q, n: sg(p, n) > sg(q, n), "SGE": lambda p, q, n: sg(p, n) >= sg(q, n)}
    evals, distinct, failures, samples, kh = 0, 0, [], [], {}
    cases = [(sn, cn, k) for sn in shapes for cn in cmps for k in range(0, 1 << min(w, 4))]
    for idx, (sn, cn, k) in enumerate(cases):
        if only is not None:
            if (sn, cn, k) != tuple(only):
                continue
        elif idx % nshards != shard:
            continue
        if time.time() - t0 > budget_s:
            break
        e, f = shapes[sn]
        n = e.length
        kk = k % (1 << n)
        cst = getattr(e, cn)(claripy.BVV(kk, n))
        sat_assign = [(a, b) for a in range(M) for b in (range(M) if "y" in sn else [0]) if cmps[cn](f(a, b) % (1 << n), kk, n)]
        evals += 1
        try:
            sat, repl = claripy.backends.vsa.constraint_to_si(cst)
        except Exception as ex:  # noqa
            failures.append({"label": f"constraint_to_si/raises-{type(ex).__name__}", "kind": "bounded", "witness": {"constraint": f"{cn}({sn},{kk})", "w": w},
                             "detail": f"constraint_to_si raised {type(ex).__name__}: {ex}"})
            continue
        if len(samples) < 2:
            samples.append({"constraint": repr(cst), "sat": sat, "replacements": repr(repl)[:200]})
        if sat_assign:
            distinct += 1
        lab = None
        if sat_assign and not sat:
            lab = (f"constraint_to_si/unsat-for-satisfiable+{_shape_class(sn)}+{'signed' if cn.startswith('S') else ('eq' if cn.startswith('__') else 'unsigned')}",
                   f"{cst!r} is satisfiable ({sat_assign[0]}) but reported unsatisfiable")
        else:
            for (expr, bound) in repl:
                vals = _members_of_bound(bound, w)
                if vals is None:
                    continue
                # value of expr under each satisfying assignment
                for (a, b) in sat_assign:
                    try:
                        v = claripy.backends.concrete.eval(claripy.replace_dict(expr, {x.hash(): claripy.BVV(a, w), y.hash(): claripy.BVV(b, w)}), 1)[0]
                    except Exception:  # noqa
                        continue
                    if v not in vals:
                        lab = (f"constraint_to_si/bound-excludes-satisfying+{_shape_class(sn)}+{'signed' if cn.startswith('S') else ('eq' if cn.startswith('__') else 'unsigned')}",
                               f"{cst!r}: x={a}{', y=%d' % b if 'y' in sn else ''} satisfies it, but {expr!r}={v} is outside the returned bound {sorted(vals)[:12]}")
                        break
                if lab:
                    break
        if lab:
            case = f"{lab[0].split('/')[1].split('+')[0]}:{cn}({sn},{kk})@w{w}"
            f_ = {"label": lab[0], "kind": "bounded", "witness": {"constraint": f"{cn}({sn},{kk})", "w": w, "case": case, "shape": sn, "cmp": cn, "k": kk}, "detail": lab[1]}
            # a listed finding is identified by the specific constraint that fails (known_cases); label globs are kept for the families
            # that fail on every input of the class (exceptions in _balance_lshift)
            if case in known_cases or any(_match(lab[0], p) for p in known_labels):
                kh[lab[0]] = kh.get(lab[0], 0) + 1
            else:
                failures.append(f_)
    if collect:
        return failures
    return {"status": "violated" if failures else "ok", "evaluations": evals, "distinct_nontrivial": distinct, "failures": failures[:5],
            "n_failures": len(failures), "known_hits": kh, "samples": samples, "reason": "",
            "rule": f"every constraint cmp(shape, constant) over {len(shapes)} shapes x 10 comparisons x all constants at width {w}; every satisfying assignment enumerated; nontrivial = satisfiable"}


def _shape_class(sn):
    if "[" in sn and "zext" not in sn:
        return "extract"
    for k in ("+", "-", "&", "<<", "If", "concat", "sext", "zext"):
        if k in sn:
            return {"+": "add", "-": "sub", "&": "and", "<<": "lshift", "If": "if", "concat": "concat", "sext": "signext", "zext": "zeroext"}[k]
    return "var"


def _match(label, pat):
    import fnmatch
    return label == pat or fnmatch.fnmatch(label, pat)


def replay_e2e(task, failure):
    """re-run the one constraint of the witness on the real claripy and re-evaluate the failed clause"""
    wit = failure.get("witness", {})
    if "shape" not in wit:
        return {"reproduced": False, "text": "witness carries no constraint"}
    w = wit.get("w", 4)
    out = end_to_end(w=w, budget_s=120, collect=True, only=(wit["shape"], wit["cmp"], wit["k"]))
    if out:
        return {"reproduced": True, "text": out[0]["detail"]}
    return {"reproduced": False, "text": f"constraint_to_si({wit['constraint']}) at {w} bits reports satisfiable and its bounds contain every satisfying assignment"}


def replay_finding_e2e(f):
    """known finding: the listed constraints still fail natively (at least the recorded witness)"""
    wit = f.get("witness") or {}
    return replay_e2e({}, {"witness": wit})
