"""C13 (proved part, hybrid solver): the real HybridFrontend (claripy/frontend/hybrid_frontend.py, re-loaded from /repo on every run) on top
of contract stubs of its two frontends, over the finite universe of vf/contracts/replfront.py.

Representation invariant: the exact and the approximate frontend are two distinct objects that no other hybrid solver holds, and each
holds a constraint list with the models of G (the constraints added to the hybrid solver).
Obligations per method, from an arbitrary state satisfying the invariant:
  queries       exact mode (exact is not False): the exact frontend is asked the same question with the same arguments and its answer is
                returned unchanged; approximate mode: the approximate frontend's answer, or - when it gives up with ClaripyFrontendError -
                the exact frontend's; never an answer that neither gave
  _approximate_first_call   returns a prefix (at most n) of what one of the two frontends answered
  _add          both frontends receive the constraints (invariant re-established for G + added)
  combine / merge / split   the result's two frontends are fresh, distinct per result, and hold the combined / merged / split constraints of
                the corresponding inputs (model sets equal pairwise: exact side == approximate side == specification); for split, every piece
                gets ITS OWN approximate frontend holding exactly that piece's constraints
  _copy / _blank_copy       the branch's frontends are its own
"""
from __future__ import annotations

import z3

from vf.engine import loader, paths, proxies
from vf.engine.paths import cur, explore, Undecided, PathEnd
from vf.engine.proxies import SymBool, SymInt
from vf.contracts.replfront import EH, U, conj, same_set, Answer
from claripy.errors import ClaripyFrontendError, ClaripySolverInterruptError

HF_PATH = "claripy/frontend/hybrid_frontend.py"


class FStub:
    """contract of a constrained frontend (exact or approximate): a constraint list; combine / merge / split per C15; queries answer with a
    recorded token; the approximate one may give up with ClaripyFrontendError"""
    n = 0
    faults = False      # C17: the exact frontend's solver may give up (timeout / resource limit) instead of answering

    def __init__(self, role, constraints=(), may_refuse=False):
        FStub.n += 1
        self.uid = FStub.n
        self.role = role
        self.constraints = list(constraints)
        self.may_refuse = may_refuse
        self.log = []
        self.finalized = False

    @property
    def variables(self):
        return set().union(*[c.variables for c in self.constraints]) if self.constraints else set()

    def blank_copy(self):
        return FStub(self.role, (), self.may_refuse)

    def _copy(self, c):
        c.constraints = list(self.constraints)

    def add(self, cs, invalidate_cache=True):
        cs = list(cs) if isinstance(cs, (list, tuple, set)) else [cs]
        self.constraints.extend(cs)
        return cs

    def _ask(self, name, args, kw):
        c = cur()
        if self.may_refuse and c.choose([True, True], f"{self.role}-gives-up") == 1:
            self.log.append((name, args, kw, "refused"))
            raise ClaripyFrontendError("approximate frontend cannot answer")
        if FStub.faults and self.role == "exact" and c.choose([True, True], "exact-solver-gives-up") == 1:
            self.log.append((name, args, kw, "interrupted"))
            raise ClaripySolverInterruptError("timeout")
        if name in ("eval", "eval_to_ast", "batch_eval"):
            n = args[1]
            k = c.choose([True] * (n + 1), f"{self.role}-n-results")
            ans = Answer(("value", self.role, self.uid, j) for j in range(k))
        else:
            ans = ("answer", self.role, self.uid, name)
        self.log.append((name, args, kw, ans))
        return ans

    def __getattr__(self, name):
        if name in ("eval", "eval_to_ast", "batch_eval", "max", "min", "solution", "is_true", "is_false", "satisfiable", "unsat_core"):
            return lambda *a, **k: self._ask(name, a, k)
        raise AttributeError(name)

    def combine(self, others):
        return FStub(self.role, [x for f in [self, *others] for x in f.constraints], self.may_refuse)

    def merge(self, others, conds, common_ancestor=None):
        if common_ancestor is None:
            opts = [EH("bool", vals=[z3.And(cd.vals[j], *[x.vals[j] for x in f.constraints]) for j in range(U)], name="opt") for f, cd in zip([self, *others], conds)]
            m = EH("bool", vals=[z3.Or(*[o.vals[j] for o in opts]) for j in range(U)], name="merged")
            return False, FStub(self.role, [m], self.may_refuse)
        m = EH("bool", vals=[z3.Or(*[cd.vals[j] for cd in conds]) for j in range(U)], name="mergedc")
        return False, FStub(self.role, [*common_ancestor.constraints, m], self.may_refuse)

    def split(self):
        # contract of ConstrainedFrontend.split (C15): independent pieces; here: one piece per constraint (at least one piece)
        if not self.constraints:
            return [FStub(self.role, [], self.may_refuse)]
        return [FStub(self.role, [x], self.may_refuse) for x in self.constraints]

    def simplify(self):
        return self.constraints

    def downsize(self):
        pass

    def finalize(self):
        self.finalized = True


def _opts(tier):
    return {"budget_s": 300, "max_depth": 4000, "max_failures": 3, "timeout_ms": 20000, "max_paths": 60000}


_cache = {}


def load():
    if "ns" not in _cache:
        _cache["ns"] = loader.load(HF_PATH, "claripy.frontend.hybrid_frontend")
    return _cache["ns"]


def mk(HF, name, ncons, approximate_first=False):
    G = [EH("bool", name=f"{name}_g") for _ in range(ncons)]
    for g in G:
        g.variables = frozenset({"v"})
    h = HF(FStub("exact", G), FStub("approximate", G, may_refuse=True), approximate_first=approximate_first)
    h.ghostG = list(G)
    h.ghost_name = name
    return h


def _inv(c, h, label, others=()):
    e, a = h._exact_frontend, h._approximate_frontend
    c.check(label + "/inv-two-frontends", isinstance(e, FStub) and isinstance(a, FStub) and e is not a, "exact and approximate frontend are the same object or missing")
    if not (isinstance(e, FStub) and isinstance(a, FStub)):
        return
    want = conj(h.ghostG)
    c.check(label + "/inv-exact-models", same_set(conj(e.constraints), want), "the exact frontend does not hold the solver's constraints")
    c.check(label + "/inv-approximate-models", same_set(conj(a.constraints), want), "the approximate frontend does not hold the solver's constraints (it could exclude values that exist, or accept too much)")
    for o in others:
        for x in (o._exact_frontend, o._approximate_frontend):
            c.check(label + "/inv-not-shared", x is not e and x is not a, f"a frontend is shared with solver '{getattr(o, 'ghost_name', '?')}'")


QUERIES = ["eval", "batch_eval", "max", "min", "solution", "is_true", "is_false", "satisfiable", "eval_to_ast", "unsat_core"]
METHODS = QUERIES + ["eval[approximate_first]", "_add", "combine", "merge", "merge[ancestor]", "split", "branch", "blank_copy", "simplify/downsize/finalize"]


def ob_hybrid(method, tier="quick", faults=False):
    """faults=True (C17): the exact frontend may raise ClaripySolverInterruptError instead of answering; the operation must then raise that
    error - in particular it must not hand out the approximate frontend's answer, which is not an answer to the caller's (exact or default
    mode) question - and the representation invariant must hold afterwards"""
    HF = load()["HybridFrontend"]
    proxies.set_iw(16)

    def body(c):
        EH.n = 0
        FStub.n = 0
        FStub.faults = faults
        label = f"HybridFrontend.{method}"
        h = mk(HF, "h", c.choose([True] * 3, "n-constraints"), approximate_first=method.endswith("[approximate_first]"))
        ex, ap = h._exact_frontend, h._approximate_frontend
        try:
            if method in QUERIES or method == "eval[approximate_first]":
                q = method.split("[")[0]
                mode = c.choose([True] * 3, "exact-arg")            # None, True, False
                exact = [None, True, False][mode]
                e, v, x = EH("bv", name="q"), EH("bv", name="val"), (EH("bool", name="x"),)
                e.variables = frozenset({"v"})
                n = 1 + c.choose([True] * 3, "n")
                signed = c.choose([True, True], "signed") == 1 if q in ("max", "min") else None
                try:
                    if q in ("eval", "eval_to_ast"):
                        r = getattr(h, q)(e, n, extra_constraints=x, exact=exact); args = (e, n)
                    elif q == "batch_eval":
                        r = h.batch_eval([e], n, extra_constraints=x, exact=exact); args = ([e], n)
                    elif q in ("max", "min"):
                        r = getattr(h, q)(e, extra_constraints=x, signed=signed, exact=exact); args = (e,)
                    elif q == "solution":
                        r = h.solution(e, v, extra_constraints=x, exact=exact); args = (e, v)
                    elif q in ("is_true", "is_false"):
                        r = getattr(h, q)(e, extra_constraints=x, exact=exact); args = (e,)
                    elif q == "satisfiable":
                        r = h.satisfiable(extra_constraints=x, exact=exact); args = ()
                    else:
                        r = h.unsat_core(extra_constraints=x); args = ()
                except ClaripySolverInterruptError:
                    c.check(label + "/interrupt-only-if-the-solver-gave-up", any(l[3] == "interrupted" for l in ex.log), "ClaripySolverInterruptError although no frontend gave up")
                    _inv(c, h, label + "[after-interrupt]")
                    return "interrupted"
                c.check(label + "/no-answer-after-the-solver-gave-up", not any(l[3] == "interrupted" for l in ex.log),
                        "the exact frontend's solver gave up during the operation, yet the operation returned an answer (the approximation's) instead of raising")
                asked_e = [l for l in ex.log]
                asked_a = [l for l in ap.log]
                answers = [l[3] for l in asked_e + asked_a if l[3] != "refused"]
                if method == "eval[approximate_first]" and exact is None:
                    ok = any(isinstance(a_, tuple) and tuple(r) == tuple(a_[:n]) for a_ in answers)
                    c.check(label + "/prefix-of-an-answer", ok, "the result is not a prefix (at most n) of what one of the two frontends answered")
                    c.check(label + "/at-most-n", len(r) <= n, "more than n results")
                else:
                    c.check(label + "/an-answer-of-a-frontend", any(r is a_ for a_ in answers), "the result is not the answer of either frontend")
                    if exact is not False or q == "unsat_core":
                        c.check(label + "/exact-mode-asks-exact", len(asked_e) == 1 and not asked_a and r is asked_e[0][3],
                                "in exact mode the exact frontend must be asked once and its answer returned")
                    else:
                        refused = any(l[3] == "refused" for l in asked_a)
                        c.check(label + "/approximate-mode", (not refused and len(asked_a) == 1 and not asked_e and r is asked_a[0][3]) or
                                (refused and len(asked_e) == 1 and r is asked_e[0][3]),
                                "in approximate mode the approximate frontend's answer must be returned, the exact one's only if it gave up")
                for l in asked_e + asked_a:
                    same_args = len(l[1]) == len(args) and all((p is q_) or (isinstance(p, list) and list(p) == list(q_)) or (isinstance(p, int) and isinstance(q_, int) and
                                                                 (p == q_ or method == "eval[approximate_first]"))
                                                                for p, q_ in zip(l[1], args))
                    c.check(label + "/same-question", l[0] == q and same_args and tuple(l[2].get("extra_constraints", ())) == x,
                            "a frontend was asked a different question than the caller's")
                    if signed is not None:
                        c.check(label + "/same-signedness", l[2].get("signed", False) == signed, "a frontend was asked for the optimum in the other signedness")
                _inv(c, h, label)
            elif method == "_add":
                new = [EH("bool", name="new") for _ in range(1 + c.choose([True, True], "n-added"))]
                added = h.add(new)
                h.ghostG = h.ghostG + new
                c.check(label + "/returns-added", list(added) == new, "add() did not return the constraints")
                _inv(c, h, label)
            elif method in ("combine", "merge", "merge[ancestor]"):
                others = [mk(HF, f"o{i}", c.choose([True] * 2, f"n-constraints-o{i}")) for i in range(1 + c.choose([True, True], "n-others"))]
                if method == "combine":
                    r = h.combine(others)
                    r.ghostG = [x for s_ in [h, *others] for x in s_.ghostG]
                else:
                    conds = [EH("bool", name=f"cond{i}") for i in range(1 + len(others))]
                    anc = mk(HF, "anc", 1) if method == "merge[ancestor]" else None
                    flag, r = h.merge(others, conds, common_ancestor=anc)
                    if anc is None:
                        want = [z3.Or(*[z3.And(cd.vals[j], *[x.vals[j] for x in s_.ghostG]) for s_, cd in zip([h, *others], conds)]) for j in range(U)]
                    else:
                        want = [z3.And(z3.Or(*[cd.vals[j] for cd in conds]), *[x.vals[j] for x in anc.ghostG]) for j in range(U)]
                        others = others + [anc]
                    r.ghostG = [EH("bool", vals=want, name="spec")]
                r.ghost_name = "result"
                c.check(label + "/hybrid-result", isinstance(r, HF), f"returned {type(r).__name__}")
                _inv(c, r, label + "[result]", others=[h, *others])
                _inv(c, h, label + "[self-unchanged]")
            elif method == "split":
                pieces = h.split()
                c.check(label + "/pieces", len(pieces) >= 1 and all(isinstance(p, HF) for p in pieces), "split() returned no hybrid solvers")
                allc = []
                for i, p in enumerate(pieces):
                    p.ghostG = list(p._exact_frontend.constraints)       # the exact split is the specification of the piece (C15)
                    p.ghost_name = f"piece{i}"
                    allc += p.ghostG
                for i, p in enumerate(pieces):
                    _inv(c, p, label + f"[piece]", others=[h] + [q_ for q_ in pieces if q_ is not p])
                c.check(label + "/model-set", same_set(conj(allc), conj(h.ghostG)), "the pieces together do not have the models of the solver")
            elif method in ("branch", "blank_copy"):
                b = getattr(h, method)()
                b.ghostG = list(h.ghostG) if method == "branch" else []
                b.ghost_name = "branch"
                _inv(c, b, label + "[copy]", others=[h])
                _inv(c, h, label + "[self]")
                c.check(label + "/approximate_first-carried", b._approximate_first == h._approximate_first, "the copy has another approximate_first setting")
            else:
                h.simplify(); h.downsize(); h.finalize()
                c.check(label + "/both-finalized", ex.finalized and ap.finalized, "finalize() did not reach both frontends")
                _inv(c, h, label)
        except (PathEnd, Undecided):
            raise
        except Exception as exn:  # noqa
            import traceback
            c.fail(label + "/raises", f"{type(exn).__name__}: {exn} :: {traceback.format_exc()[-300:]}", kind="raises")
            return "raised"
        return method
    return explore(body, _opts(tier))
