"""C07: annotations survive rewriting.  Real operations._handle_annotations and real ast.bool.If on symbolic nodes
whose annotation sets range over a small universe of real Annotation objects (one eliminatable, one
non-eliminatable non-relocatable, two relocatable)."""
from __future__ import annotations

import z3

import claripy as real
from vf.engine import loader, paths, proxies, symnode as SN
from vf.engine.paths import cur, explore, Undecided, PathEnd

_c = {}


class _E(real.Annotation):
    def __repr__(self):
        return "<eliminatable>"


class _U(real.Annotation):
    eliminatable = False
    relocatable = False

    def __repr__(self):
        return "<uneliminatable>"


class _R(real.Annotation):
    eliminatable = False
    relocatable = True

    def __init__(self, k):
        self.k = k

    def __repr__(self):
        return f"<relocatable{self.k}>"


UNIVERSE = [_E(), _U(), _R(1), _R(2)]


def pick_annotations(node, name, below=False):
    """an arbitrary set of top-level annotations; with below=True also an arbitrary set of non-eliminatable,
    non-relocatable annotations carried by sub-expressions (what Base.__new__ accumulates in
    _uneliminatable_annotations while .annotations only shows the top level)"""
    c = cur()
    uni = c.opts.get("anno_universe") or UNIVERSE
    k = c.choose([True] * (1 << len(uni)), f"annotations-{name}")
    node._annos = tuple(a for i, a in enumerate(uni) if k >> i & 1)
    if below:
        un = [a for a in uni if not (a.eliminatable or a.relocatable)]
        k = c.choose([True] * (1 << len(un)), f"annotations-below-{name}")
        node.root().child_unelim = {a for i, a in enumerate(un) if k >> i & 1}
    return node


def load_ops():
    if "o" not in _c:
        ns = loader.load("claripy/operations.py", "claripy.operations")
        ns["claripy"] = type("NS", (), {"ast": type("A", (), {"Base": SN.SymNode})})
        _c["o"] = ns
    return _c["o"]


def _unelim(n):
    return set(n._uneliminatable_annotations)


def _reloc(n):
    return set(n._relocatable_annotations)


def ob_handle_annotations(tier="quick"):
    """{simp, args arbitrary annotated nodes} r = _handle_annotations(simp, args)
       {r is None  or  (r means what simp means, unelim(r) >= U unelim(args), reloc(r) >= U reloc(args))}"""
    ns = load_ops()
    f = ns["_handle_annotations"]
    proxies.set_iw(24)

    def body(c):
        simp = pick_annotations(SN.new_node(("bv", 8), "root_simp"), "simp", below=True)
        nargs = 1 + c.choose([True, True], "n-args")
        args = [pick_annotations(SN.new_node(("bv", 8), f"root_a{i}"), f"a{i}", below=True) for i in range(nargs)]
        mixed = tuple(args) + (5,)     # non-AST arguments are skipped
        c.describers.append(lambda m: {"simp": _anno_desc(simp), "args": [_anno_desc(a) for a in args]})
        try:
            r = f(simp, mixed)
        except (PathEnd, Undecided):
            raise
        except Exception as ex:  # noqa
            c.fail("_handle_annotations/raises", f"{type(ex).__name__}: {ex}", kind="raises")
            return "raised"
        c.n_vcs += 1
        if r is None:
            lost = set().union(*[_unelim(a) for a in args]) - _unelim(simp)
            if not lost:
                # refusing is always safe, but it should only happen when something would be eliminated
                c.check("_handle_annotations/refuses-only-when-needed", True)
            c.check("_handle_annotations/none", True)
            return "none"
        if not isinstance(r, SN.SymNode):
            c.fail("_handle_annotations/type", f"returned {type(r).__name__}")
            return "type"
        c.check("_handle_annotations/meaning", r.den == simp.den, "annotation handling changed the meaning of the rewritten expression")
        need_u = set().union(*[_unelim(a) for a in args])
        need_r = set().union(*[_reloc(a) for a in args])
        if not need_u <= _unelim(r):
            c.fail("_handle_annotations/uneliminatable-kept", f"rewrite accepted although it eliminates {sorted(map(repr, need_u - _unelim(r)))}", kind="C07")
        if not need_r <= _reloc(r):
            c.fail("_handle_annotations/relocatable-carried", f"relocatable annotations {sorted(map(repr, need_r - _reloc(r)))} of an argument are missing on the result", kind="C07")
        return "kept"

    return explore(body, {"budget_s": 600, "max_depth": 2000, "max_paths": 500000, "replay": replay_handle_annotations})


def _anno_desc(n):
    idx = lambda a: next(i for i, u in enumerate(UNIVERSE) if u is a)
    return {"own": [idx(a) for a in n.root()._annos or ()], "below": sorted(idx(a) for a in getattr(n.root(), "child_unelim", ()))}


def _real_annotated(name, d):
    """a real compound node with top-level annotations d['own'] whose sub-expression carries d['below']"""
    import claripy
    from claripy.ast import BV
    inner = claripy.BVS(name + "_i", 8, explicit_name=True)
    if d["below"]:
        inner = inner.annotate(*[UNIVERSE[i] for i in d["below"]])
    node = BV("__xor__", (inner, claripy.BVS(name + "_j", 8, explicit_name=True)), length=8)
    if d["own"]:
        node = node.annotate(*[UNIVERSE[i] for i in d["own"]])
    return node


def replay_handle_annotations(failure):
    """the real operations._handle_annotations on real nodes carrying the counter-model's annotation sets"""
    import claripy
    wit = failure["witness"]
    simp = _real_annotated("simp", wit["simp"])
    args = [_real_annotated(f"a{i}", d) for i, d in enumerate(wit["args"])]
    try:
        r = claripy.operations._handle_annotations(simp, (*args, 5))
    except Exception as e:  # noqa
        return {"reproduced": True, "text": f"_handle_annotations raised {type(e).__name__}: {e}"}
    if r is None:
        return {"reproduced": False, "text": "the real _handle_annotations refuses this rewrite"}
    need_u = set().union(*[a._uneliminatable_annotations for a in args])
    need_r = set().union(*[a._relocatable_annotations for a in args])
    lost_u, lost_r = need_u - set(r._uneliminatable_annotations), need_r - set(r._relocatable_annotations)
    desc = (f"_handle_annotations(simp={simp!r} annotations={simp.annotations} (below: {sorted(map(repr, simp._uneliminatable_annotations))}), "
            f"args={[(repr(a), a.annotations, sorted(map(repr, a._uneliminatable_annotations))) for a in args]})")
    if lost_u or lost_r:
        return {"reproduced": True, "text": f"{desc} accepted the rewrite although it loses {sorted(map(repr, lost_u | lost_r))}"}
    return {"reproduced": False, "text": f"{desc}: nothing lost"}


def _if_rec_contract(cond, a, b):
    """contract of If for its own recursive calls: meaning of ite; annotations: at least the relocatable ones of
    the three arguments, and no uneliminatable annotation of them is lost (what the obligation proves at top level)"""
    r = SN.if_contract(cond, a, b)
    kids = [x for x in (cond, a, b) if isinstance(x, SN.SymNode)]
    rel = []
    for k in kids:
        for an in k._relocatable_annotations:
            if an not in rel:
                rel.append(an)
    r.root()._annos = tuple(rel)
    r.root().child_unelim = set().union(*[set(k._uneliminatable_annotations) | getattr(k.root(), "child_unelim", set()) for k in kids])
    return r


def load_bool():
    if "b" not in _c:
        overrides = {"Base": SN.SymNode, "Bits": SN.SymBits, "is_true": SN.is_true_contract, "is_false": SN.is_false_contract}
        ns = loader.load("claripy/ast/bool.py", "claripy.ast.bool", overrides=overrides)
        ns["BoolV"] = lambda v: SN._coerce(None, v)
        ns["true"] = lambda: SN.const_bool(True)
        ns["false"] = lambda: SN.const_bool(False)
        ns["Not"] = lambda x: SN.mk("Not", x)
        ns["And"] = lambda *a: SN.mk("And", *a)
        ns["Or"] = lambda *a: SN.mk("Or", *a)
        ns["__real_If__"] = ns["If"]
        ns["If"] = _if_rec_contract      # recursive calls of If are answered by its contract
        _c["b"] = ns
    return _c["b"]


def ob_if(sort, w=8, tier="quick", annotated=False):
    """real ast.bool.If: meaning (C01) for every shortcut; with annotated=True also the C07 clauses"""
    ns = load_bool()
    If = ns["__real_If__"]
    proxies.set_iw(24)

    def body(c):
        s = ("bv", w) if sort == "bv" else ("bool",)
        cond = SN.new_node(("bool",), "root_c")
        a = SN.new_node(s, "root_a")
        b = SN.new_node(s, "root_b")
        if annotated:
            for n, nm in ((cond, "c"), (a, "a"), (b, "b")):
                pick_annotations(n, nm)
        from vf import common
        if annotated and "C07-If-shortcuts-drop-annotations" in common.active_findings():
            pass
        c.describers.append(lambda m: {"args": [SN.describe(x, m) for x in (cond, a, b)]})
        try:
            r = If(cond, a, b)
        except (PathEnd, Undecided):
            raise
        except Exception as ex:  # noqa
            import traceback
            c.fail("If/raises", f"{type(ex).__name__}: {ex} {traceback.format_exc()[-200:]}", kind="raises")
            return "raised"
        if not isinstance(r, SN.SymNode):
            c.fail("If/type", f"returned {type(r).__name__}")
            return "type"
        if r.den.sort() != a.den.sort():
            c.fail("If/sort", "result sort differs")
            return "sort"
        c.check("If/meaning", r.den == z3.If(cond.den, a.den, b.den), "If() result is not equivalent to ite(cond, a, b)")
        if annotated:
            c.n_vcs += 1
            have_u = set(r._uneliminatable_annotations) | getattr(r.root(), "child_unelim", set())
            have_r = set(r._relocatable_annotations)
            need_u = set().union(*[set(x._uneliminatable_annotations) for x in (cond, a, b)])
            need_r = set().union(*[set(x._relocatable_annotations) for x in (cond, a, b)])
            if not need_u <= have_u:
                c.fail("If/uneliminatable-kept", f"a shortcut removed an argument carrying {sorted(map(repr, need_u - have_u))}", kind="C07")
            if not need_r <= have_r:
                c.fail("If/relocatable-carried", f"relocatable annotations {sorted(map(repr, need_r - have_r))} of an argument are missing on the result", kind="C07")
        return "ret"

    return explore(body, {"budget_s": 600, "max_depth": 3000, "max_paths": 500000, "max_failures": 3})


# ---- algorithm.simplify (explicit simplification keeps annotations) --------------------------------

def ob_algo_simplify(tier="quick", shape="add"):
    """shape: the expression is a bit-vector sum (`add`) or a conjunction of two constraints (`and` - what a solver hands to simplify)"""
    from claripy.errors import BackendError
    proxies.set_iw(24)

    def body(c):
        def any_simplify(e):
            k = c.choose([True, True, True], "backend.simplify")      # equivalent node / None / BackendError
            if k == 1:
                return None
            if k == 2:
                raise BackendError("no backend")
            r = SN.new_node(e.sort, label="zsimp")
            c.assume(r.den == e.den)
            pick_annotations(r, "backend-result")       # whatever annotations the backend's result happens to carry
            return r
        NS = type("NS", (), {"backends": type("B", (), {"any_backend": type("AB", (), {"simplify": staticmethod(any_simplify)})})})
        ns = loader.load("claripy/algorithm/simplify.py", "claripy.algorithm.simplify", overrides={"claripy": NS, "Base": SN.SymNode})
        writes = []

        class GhostCache(dict):
            """simplification_cache as a data structure with an invariant: whatever is stored under the key of an expression
            satisfies simplify()'s postcondition for that expression (checked on every write; assumed on a hit)"""
            def __setitem__(self, k, v):
                writes.append((k, v))
                dict.__setitem__(self, k, v)

            def setdefault(self, k, v=None):
                if not dict.__contains__(self, k):
                    self[k] = v
                return dict.__getitem__(self, k)

            def update(self, *a, **kw):
                for k, v in dict(*a, **kw).items():
                    self[k] = v
        cache = ns["simplification_cache"] = GhostCache()
        srt = ("bv", 8) if shape == "add" else ("bool",)
        e = pick_annotations(SN.new_node(srt, "root_e"), "e")
        e.is_leaf = lambda: False
        # shape: a binary node whose children carry annotations; Base.__new__ already propagated the children's
        # relocatable annotations to e (assumed as the constructor contract, proved bounded in the composition run)
        k1 = pick_annotations(SN.new_node(srt, "k1"), "k1")
        k2 = pick_annotations(SN.new_node(srt, "k2"), "k2")
        if shape == "add":
            e._set_shape("__add__", (k1, k2))
            c.assume(e.den == k1.den + k2.den)
        else:
            e._set_shape("And", (k1, k2))
            c.assume(e.den == z3.And(k1.den, k2.den))
        # requires (contract of Base.__new__, which built e): e carries the relocatable annotations of its children
        extra = [a for k in (k1, k2) for a in k._relocatable_annotations if a not in e._annos]
        e._annos = tuple(e._annos) + tuple(dict.fromkeys(extra))
        need_top = set(e.annotations)
        need_rel = set(k1._relocatable_annotations) | set(k2._relocatable_annotations)

        def annos_ok(node):
            have = set(node.annotations)
            return need_top <= have and (not e.annotations or need_rel <= have)
        hit = c.choose([True, True], "cache-state") == 1
        if hit:
            # requires (cache invariant): an earlier simplify(e) stored a node that satisfies the postcondition for e
            r0 = pick_annotations(SN.new_node(e.sort, label="cached"), "cached")
            c.assume(r0.den == e.den)
            if not annos_ok(r0):
                raise PathEnd()
            dict.__setitem__(cache, e.hash(), r0)
        try:
            r = ns["simplify"](e)
        except (PathEnd, Undecided):
            raise
        except Exception as ex:  # noqa
            c.fail("algorithm.simplify/raises", f"{type(ex).__name__}: {ex}", kind="raises")
            return "raised"
        if not isinstance(r, SN.SymNode):
            c.fail("algorithm.simplify/type", f"returned {type(r).__name__}")
            return "type"
        c.check("algorithm.simplify/meaning", r.den == e.den, "simplify() changed the meaning")
        c.n_vcs += 1
        have = set(r.annotations)
        if not need_top <= have:
            c.fail("algorithm.simplify/top-annotations-kept", f"annotations {sorted(map(repr, need_top - have))} of the simplified expression are lost", kind="C07")
        if e.annotations and not need_rel <= have:
            c.fail("algorithm.simplify/argument-relocatable-kept", f"relocatable annotations {sorted(map(repr, need_rel - have))} of a direct argument are lost", kind="C07")
        # ensures (cache invariant): every entry written satisfies the postcondition for the expression it is keyed by,
        # so that a later call answered from the cache (the `hit` paths above) is correct too
        for k, v in writes:
            if not (k == e.hash()):
                # an entry for another expression: it must be that expression's own simplification (the cache is global: the next
                # simplify() of that expression returns it)
                other = next((n for n in (k1, k2) if k == n.hash()), None)
                if other is None or not isinstance(v, SN.SymNode):
                    c.fail("algorithm.simplify/cache-key", "an entry was stored under a key that is not the hash of an expression at hand", kind="C07")
                else:
                    c.check("algorithm.simplify/cache-invariant-meaning[other-expression]", v.den == other.den,
                            "an entry was stored for ANOTHER expression (an operand) whose meaning it does not have: the next simplify() of that expression returns it")
                continue
            if not isinstance(v, SN.SymNode):
                c.fail("algorithm.simplify/cache-invariant", f"a {type(v).__name__} was stored in the cache")
                continue
            c.check("algorithm.simplify/cache-invariant-meaning", v.den == e.den, "the cached result has a different meaning")
            if not annos_ok(v):
                c.fail("algorithm.simplify/cache-invariant", "the node stored in simplification_cache lacks annotations the result must carry "
                       f"(stored: {sorted(map(repr, v.annotations))}, required: {sorted(map(repr, need_top | (need_rel if e.annotations else set())))}): "
                       "the next simplify() of the same expression returns it", kind="C07")
        return "ret-hit" if hit else "ret"

    def native(failure):
        """the real claripy.simplify, called twice on an annotated expression that Z3 changes, with the plain result alive"""
        import claripy
        if "cache" not in failure.get("label", ""):
            return {"reproduced": True, "text": "annotation clause on the direct result (no expression-level replay)"}
        x, y = claripy.BVS("sc_rx", 32, explicit_name=True), claripy.BVS("sc_ry", 32, explicit_name=True)
        bad = []
        for a in (UNIVERSE[1], UNIVERSE[2]):
            e = ((x + y) - y).annotate(a)
            keep = [claripy.simplify(e), claripy.simplify((x + y) - y)]
            for i in range(3):
                r = claripy.simplify(e)
                keep.append(r)
                if a not in r.annotations:
                    bad.append(f"call #{i + 2} of simplify({e!r} annotated with {a!r}) returned {r!r} with annotations {r.annotations}")
        if bad:
            return {"reproduced": True, "text": "; ".join(bad[:2])}
        # entries stored for OTHER expressions: simplify a conjunction, keep the result alive, then simplify each conjunct on its own
        p, q = x == 5, y == x + 1
        keep.append(claripy.simplify(claripy.And(p, q)))
        for cj in (p, q):
            r = claripy.simplify(cj)
            s = claripy.Solver()
            s.add(r != cj)
            if s.satisfiable():
                return {"reproduced": True, "text": f"after simplify(And({p!r}, {q!r})) = {keep[-1]!r}, simplify({cj!r}) returns {r!r}, which is not equivalent to it"}
        return {"reproduced": False, "text": "repeated simplify() keeps the annotations, and the conjuncts of a simplified conjunction still simplify to themselves, on the real code"}

    res = explore(body, {"budget_s": 900, "max_depth": 2000, "max_paths": 2000000, "replay": native,
                         "anno_universe": UNIVERSE[:3] if tier == "quick" else UNIVERSE})
    if res.status == "discharged" and not (res.covers.get("ret") and res.covers.get("ret-hit")):
        res.status, res.reason = "error", f"vacuity: cache-miss / cache-hit paths not both reached ({res.covers})"
    return res


# ---- operations.op._op: rewriting + annotation handling + node creation ---------------------------------------

def ob_op_wrapper(tier="quick", arity=2):
    """the closure built by operations.op for a BV operator declared with one, two or three operands or as variadic (`arity` 1 / 2 / 3 / 0:
    op() computes the expected number of operands from the declaration and the closure may branch on it), with simplifications.simplify by
    contract.  The operator's meaning is the sum of its operands (the complement for the unary one)."""
    import claripy.fp
    proxies.set_iw(24)
    nargs = arity or 2      # variadic: two operands (the closure branches on the DECLARATION being variadic, not on the count)

    def mean(ds):
        if len(ds) == 1:
            return ~ds[0]
        t = ds[0]
        for d in ds[1:]:
            t = t + d
        return t

    def body(c):
        def simplify_contract(name, args):
            k = c.choose([True, True], "simplifier")            # no rewrite / a rewrite
            if k == 0:
                return None, False
            kids = [a for a in args if isinstance(a, SN.SymNode)]
            r = SN.new_node(("bv", 8), label="simp")
            c.assume(r.den == mean([k.den for k in kids]))
            pick_annotations(r, "simp-result", below=True)
            annotated = c.choose([True, True], "annotated-flag") == 1
            if annotated:
                # contract of a rewriter that reports annotated=True: it has handled annotations itself
                need_u = set().union(*[set(x._uneliminatable_annotations) for x in kids])
                need_r = set().union(*[set(x._relocatable_annotations) for x in kids])
                if not (need_u <= set(r._uneliminatable_annotations) and need_r <= set(r._relocatable_annotations)):
                    raise PathEnd()
            return r, annotated
        ns = load_ops()
        ns["claripy"] = type("NS", (), {"ast": type("A", (), {"Base": SN.SymNode}), "fp": claripy.fp,
                                          "simplifications": type("S", (), {"simplify": staticmethod(simplify_contract)})})
        opf = ns["op"]("__invert__" if nargs == 1 else "__add__", (SN.SymBV,) * nargs if arity else SN.SymBV, SN.SymBV,
                       extra_check=ns["length_same_check"] if nargs > 1 else None, calc_length=ns["basic_length_calc"])
        operands = [pick_annotations(SN.new_node(("bv", 8), f"root_{nm}"), nm, below=True) for nm in "abd"[:nargs]]
        a = operands[0]
        try:
            r = opf(*operands)
        except (PathEnd, Undecided):
            raise
        except Exception as ex:  # noqa
            import traceback
            c.fail("op._op/raises", f"{type(ex).__name__}: {ex} {traceback.format_exc()[-300:]}", kind="raises")
            return "raised"
        if not isinstance(r, SN.SymNode):
            c.fail("op._op/type", f"returned {type(r).__name__}")
            return "type"
        c.check("op._op/meaning", r.den == mean([x.den for x in operands]), "constructor result does not mean the operation on its operands")
        c.n_vcs += 1
        have_u = set(r._uneliminatable_annotations) | getattr(r.root(), "child_unelim", set())
        have_r = set(r._relocatable_annotations)
        need_u = set().union(*[set(x._uneliminatable_annotations) for x in operands])
        need_r = set().union(*[set(x._relocatable_annotations) for x in operands])
        if not need_u <= have_u:
            c.fail("op._op/uneliminatable-kept", f"a rewrite removed a sub-expression carrying {sorted(map(repr, need_u - have_u))}", kind="C07")
        if not need_r <= have_r:
            c.fail("op._op/relocatable-carried", f"relocatable annotations {sorted(map(repr, need_r - have_r))} missing on the result", kind="C07")
        if r.length != 8:
            c.fail("op._op/length", f"length {r.length}", kind="C05")
        return "ret"

    return explore(body, {"budget_s": 900, "max_depth": 2000, "max_paths": 2000000})


def replay_if_finding(f):
    import claripy

    class U(claripy.Annotation):
        eliminatable = False
        relocatable = False

    class R(claripy.Annotation):
        eliminatable = False
        relocatable = True
    x, k = claripy.BVS("if_x", 8), claripy.BVS("if_k", 8).annotate(U(), R())
    r = claripy.If(claripy.true(), x, k)
    lost = not any(isinstance(a, (U, R)) for a in r.annotations) and r is x
    return {"reproduced": lost, "text": f"If(true, x, k[uneliminatable, relocatable]) = {r!r} with annotations {r.annotations}: k and its annotations are gone"}
