"""C13 (proved part): the real ReplacementFrontend (claripy/frontend/replacement_frontend.py, re-loaded from /repo on every run) in
isolation over a finite semantic universe.

Universe: U assignments; an expression is a value table (one 2-bit value or one truth value per assignment), a constraint is a
Boolean expression.  Ghost state: G = every constraint ever added (original form).  The actual frontend underneath is a contract stub
that records what it is given.  `claripy.replace_dict(e, D)` is answered by its C08 contract: it returns `e` itself or an
expression that agrees with `e` on every assignment that satisfies all equalities  key = D[key].

Representation invariant of ReplacementFrontend (default safe settings: auto_replace on, unsafe_replacement off, complex_auto_replace
off):
   I1  every entry of _replacements       (term |-> new) is implied by G:   forall s in Mod(G): term(s) = new(s)
   I2  every entry of _replacement_cache  likewise
   I3  Mod(constraints handed to the actual frontend) = Mod(G)
Obligations per public method: started in an arbitrary state satisfying I1-I3, the real method (a) hands the actual frontend a query
that is equivalent to the original query over Mod(G) - same model set of constraints+extra constraints, same value of the queried
expression on every such model -, (b) returns the actual frontend's answer unchanged, (c) re-establishes I1-I3; `_copy`/`_blank_copy`
give the branch its own dictionaries (no aliasing with the parent) holding the same / no entries.
"""
from __future__ import annotations

import z3

from vf.engine import loader, paths, proxies
from vf.engine.paths import cur, explore, Undecided, PathEnd
from vf.engine.proxies import SymBool, SymInt

U = 4
RF_PATH = "claripy/frontend/replacement_frontend.py"


class EH:
    """expression handle: value table over the U assignments"""
    n = 0

    def __init__(self, sort="bv", vals=None, name="e", op="opaque", args=(), symbolic=True):
        EH.n += 1
        self.uid = EH.n
        self.sort = sort
        mk = (lambda i: z3.BitVec(f"{name}{self.uid}_s{i}", 2)) if sort == "bv" else (lambda i: z3.Bool(f"{name}{self.uid}_s{i}"))
        self.vals = list(vals) if vals is not None else [mk(i) for i in range(U)]
        self.op, self.args = op, tuple(args)
        self.symbolic = symbolic
        self.annotations = ()
        self.variables = frozenset({f"v{self.uid}"}) if symbolic else frozenset()
        self.length = 2 if sort == "bv" else None
        for i, v in enumerate(self.vals):
            cur().watch[f"{name}{self.uid}[{i}]"] = v

    def hash(self):
        return self.uid

    def clear_annotations(self):
        return self

    def __vf_is__(self, o):
        return self is o

    def __bool__(self):
        raise Undecided("truth value of an expression handle")

    def __repr__(self):
        return f"<{self.op}#{self.uid}>"


def mask_of(c):
    """list of z3 Bools: assignment i satisfies constraint c"""
    return list(c.vals)


def conj(cs):
    out = [z3.BoolVal(True)] * U
    for c in cs:
        out = [z3.And(a, b) for a, b in zip(out, mask_of(c))]
    return out


def same_set(a, b):
    return z3.And(*[x == y for x, y in zip(a, b)])


def FALSE():
    g = cur().ghost
    if "FALSE" not in g:
        g["FALSE"] = EH("bool", vals=[z3.BoolVal(False)] * U, name="false", op="BoolV", args=(False,), symbolic=False)
    return g["FALSE"]


def const_bv(name="k"):
    v = z3.BitVec(f"{name}{EH.n + 1}", 2)
    return EH("bv", vals=[v] * U, name=name, op="BVV", symbolic=False)


class Registry:
    """hash -> expression, so that the invariant can speak about the term a dictionary key stands for"""
    def __init__(self):
        self.by_hash = {}

    def add(self, e):
        self.by_hash[e.hash()] = e
        return e


def replace_dict_contract(reg):
    def replace_dict(old, d):
        c = cur()
        if not d or c.choose([True, True], "replace_dict-identity") == 0:
            return old
        new = EH(old.sort, name="repl", op="replaced", symbolic=old.symbolic)
        for i in range(U):
            eqs = [reg.by_hash[k].vals[i] == v.vals[i] for k, v in d.items() if k in reg.by_hash and isinstance(v, EH) and v.sort == reg.by_hash[k].sort]
            c.assume(z3.Implies(z3.And(*eqs) if eqs else z3.BoolVal(True), new.vals[i] == old.vals[i]))
        reg.add(new)
        return new
    return replace_dict


class Answer(tuple):
    """a result tuple of the actual frontend (a distinct object, so that `is` identifies it)"""


class ActualStub:
    """contract of the actual frontend: records what it is handed; queries return an opaque answer token"""
    def __init__(self):
        self.added = []
        self.queries = []

    def add(self, cs):
        self.added.extend(cs)
        return list(cs)

    def _q(self, kind, e, extra, **kw):
        """the answer is what a correct frontend may return, as a value the caller could inspect: a tuple of 1..n values for eval (one
        symbolic value each), a number for min/max, a truth value otherwise.  Identity (`is`) tells whether it is returned unchanged."""
        c = cur()
        i = len(self.queries)
        if kind == "eval":
            k = 1 + c.choose([True] * max(1, kw.get("n", 1)), "n-results")
            tok = Answer(SymInt.fresh(f"ans{i}_{j}", 0, 3) for j in range(k))
        elif kind == "batch_eval":
            tok = Answer([Answer(SymInt.fresh(f"ans{i}_{j}", 0, 3) for j in range(len(e)))])
        elif kind in ("max", "min"):
            tok = SymInt.fresh(f"ans{i}", 0, 3)
        else:
            tok = SymBool(z3.Bool(f"ans{i}"))
        self.queries.append((kind, e, tuple(extra), kw, tok))
        return tok

    def eval(self, e, n, extra_constraints=(), exact=None):
        return self._q("eval", e, extra_constraints, n=n)

    def batch_eval(self, es, n, extra_constraints=(), exact=None):
        return self._q("batch_eval", tuple(es), extra_constraints, n=n)

    def max(self, e, extra_constraints=(), signed=False, exact=None):
        return self._q("max", e, extra_constraints, signed=signed)

    def min(self, e, extra_constraints=(), signed=False, exact=None):
        return self._q("min", e, extra_constraints, signed=signed)

    def solution(self, e, v, extra_constraints=(), exact=None):
        return self._q("solution", (e, v), extra_constraints)

    def is_true(self, e, extra_constraints=(), exact=None):
        return self._q("is_true", e, extra_constraints)

    def is_false(self, e, extra_constraints=(), exact=None):
        return self._q("is_false", e, extra_constraints)

    def satisfiable(self, extra_constraints=(), exact=None):
        return self._q("satisfiable", None, extra_constraints)

    def blank_copy(self):
        return ActualStub()

    def _copy(self, c):
        c.added = list(self.added)

    def downsize(self):
        pass


_cache = {}


def load_rf(reg_holder):
    ns = loader.load(RF_PATH, "claripy.frontend.replacement_frontend")
    import types
    import claripy as real_claripy

    class FakeClaripy:
        """contract namespace: the constructors the frontend calls are answered over the universe, everything else is the real package"""
        replace_dict = staticmethod(lambda old, d: reg_holder["rd"](old, d))
        false = staticmethod(FALSE)
        ast = types.SimpleNamespace(BV=EH, Bool=EH, Base=EH, Bits=EH)

        @staticmethod
        def BoolV(b):
            if b is False:
                return FALSE()
            raise Undecided("BoolV(True)")

        @staticmethod
        def BVV(v, n):
            return reg_holder["reg"].add(EH("bv", vals=[z3.Extract(1, 0, proxies._bv(v)) if not isinstance(v, int) else z3.BitVecVal(v & 3, 2)] * U,
                                            name="bvv", op="BVV", symbolic=False))

        def __getattr__(self, n):
            return getattr(real_claripy, n)
    fake = FakeClaripy()
    ns["claripy"] = fake
    ns["Base"] = EH
    return ns


def _state(c, RF, reg, nrep, ncache, ncons):
    """arbitrary state satisfying I1-I3 (complete: every state of this shape, entries and constraints arbitrary)"""
    s = object.__new__(RF)
    s._actual_frontend = ActualStub()
    s._allow_symbolic = True
    s._auto_replace = True
    s._complex_auto_replace = False
    s._replace_constraints = False
    s._unsafe_replacement = False
    s.constraints = []
    s.constraints_wo_annotations = set()
    s.variables = set()
    G = [reg.add(EH("bool", name="g")) for _ in range(ncons)]
    s.constraints = list(G)
    s.ghostG = list(G)
    # I3: what the actual frontend holds has the same models as G (it may be a different list)
    a = [reg.add(EH("bool", name="a")) for _ in range(max(1, ncons))]
    s._actual_frontend.added = list(a)
    c.assume(same_set(conj(a), conj(G)))
    modG = conj(G)
    s._replacements, s._replacement_cache = {}, {}
    terms = []
    for i in range(nrep):
        t = reg.add(EH("bv", name="t"))
        nw = reg.add(EH("bv", name="n", symbolic=(c.choose([True, True], f"rep{i}-symbolic") == 0)))
        for j in range(U):
            c.assume(z3.Implies(modG[j], t.vals[j] == nw.vals[j]))        # I1
        s._replacements[t.hash()] = nw
        s._replacement_cache[t.hash()] = nw
        terms.append(t)
    for i in range(ncache):
        t = reg.add(EH("bv", name="ct"))
        nw = reg.add(EH("bv", name="cn"))
        for j in range(U):
            c.assume(z3.Implies(modG[j], t.vals[j] == nw.vals[j]))        # I2
        s._replacement_cache[t.hash()] = nw
        terms.append(t)
    if not c.path_feasible():
        raise PathEnd()
    return s, terms


def _inv(c, s, reg, label):
    modG = conj(s.ghostG)
    for which, d in (("replacements", s._replacements), ("replacement_cache", s._replacement_cache)):
        for k, v in d.items():
            t = reg.by_hash.get(k)
            if t is None or not isinstance(v, EH):
                c.fail(f"{label}/inv-{which}-entry", f"{which} holds an entry whose key is not the hash of a known term or whose value is {type(v).__name__}", kind="invariant")
                continue
            if t.sort != v.sort:
                c.fail(f"{label}/inv-{which}-sort", "a term is replaced by an expression of another sort", kind="invariant")
                continue
            c.check(f"{label}/inv-{which}-implied", z3.And(*[z3.Implies(modG[j], t.vals[j] == v.vals[j]) for j in range(U)]),
                    f"an entry of _{which} is not implied by the constraints", kind="invariant")
    c.check(f"{label}/inv-actual-frontend-models", same_set(conj(s._actual_frontend.added), modG),
            "the constraints handed to the actual frontend do not have the models of the constraints that were added", kind="invariant")


def _query_equiv(c, s, label, kind, e, extra, q):
    """the query handed to the actual frontend is the original query over Mod(G)"""
    k2, e2, x2, kw, tok = q
    if k2 != kind:
        c.fail(label + "/delegates", f"asked the actual frontend for {k2} instead of {kind}")
        return
    modA = conj(s._actual_frontend.added)
    modG = conj(s.ghostG)
    mA = [z3.And(a, b) for a, b in zip(modA, conj(list(x2)))]
    mG = [z3.And(a, b) for a, b in zip(modG, conj(list(extra)))]
    c.check(label + "/same-models", same_set(mA, mG), "constraints + extra constraints handed to the actual frontend have different models than the original ones")
    pairs = []
    if kind == "batch_eval":
        pairs = list(zip(e, e2)) if len(e) == len(e2) else None
    elif kind == "solution":
        pairs = list(zip(e, e2))
    elif kind != "satisfiable":
        pairs = [(e, e2)]
    if pairs is None:
        c.fail(label + "/arity", "different number of expressions handed down")
        return
    for a, b in pairs:
        if not isinstance(b, EH) or a.sort != b.sort:
            c.fail(label + "/expr-sort", "the expression handed down is of another sort")
            continue
        c.check(label + "/same-values", z3.And(*[z3.Implies(mG[j], a.vals[j] == b.vals[j]) for j in range(U)]),
                "the expression handed to the actual frontend takes another value than the original on a model of the constraints")


METHODS = ["eval", "batch_eval", "max", "min", "solution", "is_true", "is_false", "satisfiable", "_add[eq]", "_add[not]", "_add[other]", "_add[batch]",
           "_replacement", "_copy", "_blank_copy", "downsize", "remove_replacements", "clear_replacements"]


def ob_replacement(method, tier="quick"):
    reg_holder = {}
    ns = load_rf(reg_holder)
    RF = ns["ReplacementFrontend"]
    proxies.set_iw(16)

    def body(c):
        EH.n = 0
        reg = Registry()
        reg_holder["rd"] = replace_dict_contract(reg)
        reg_holder["reg"] = reg
        shape = c.choose([True] * 4, "state")          # (replacements, extra cache entries, constraints)
        nrep, ncache, ncons = [(0, 0, 0), (1, 0, 1), (1, 1, 2), (2, 1, 1)][shape]
        s, terms = _state(c, RF, reg, nrep, ncache, ncons)
        label = f"ReplacementFrontend.{method}"
        nx = c.choose([True, True], "n-extra")
        extra = tuple(reg.add(EH("bool", name="x")) for _ in range(nx))
        # the queried expression: a fresh one, or a term that has a replacement / a cache entry
        pick = c.choose([True] * (1 + len(terms)), "queried")
        e = reg.add(EH("bv", name="q")) if pick == 0 else terms[pick - 1]
        A = s._actual_frontend
        try:
            if method in ("eval", "batch_eval", "max", "min", "solution", "is_true", "is_false", "satisfiable"):
                params = {}
                if method == "eval":
                    params = {"n": 1 + c.choose([True] * 3, "n")}
                    r = s.eval(e, params["n"], extra_constraints=extra); orig = e
                elif method == "batch_eval":
                    e2 = reg.add(EH("bv", name="q2"))
                    params = {"n": 1 + c.choose([True] * 3, "n")}
                    r = s.batch_eval([e, e2], params["n"], extra_constraints=extra); orig = (e, e2)
                elif method in ("max", "min"):
                    params = {"signed": c.choose([True, True], "signed") == 1}
                    r = getattr(s, method)(e, extra_constraints=extra, signed=params["signed"]); orig = e
                elif method == "solution":
                    v = reg.add(const_bv("val"))
                    r = s.solution(e, v, extra_constraints=extra); orig = (e, v)
                elif method in ("is_true", "is_false"):
                    b = reg.add(EH("bool", name="b"))
                    r = getattr(s, method)(b, extra_constraints=extra); orig = b
                else:
                    r = s.satisfiable(extra_constraints=extra); orig = None
                if len(A.queries) != 1:
                    c.fail(label + "/delegates-once", f"the actual frontend was asked {len(A.queries)} times")
                    return method
                _query_equiv(c, s, label, method, orig, extra, A.queries[0])
                c.check(label + "/same-parameters", A.queries[0][3] == params, f"the actual frontend was asked with {A.queries[0][3]}, the caller asked with {params}")
                c.check(label + "/answer-unchanged", r is A.queries[0][4], "the answer of the actual frontend is not what is returned")
            elif method.startswith("_add"):
                kind = method[5:-1]
                def mk(kind_):
                    if kind_ == "eq":
                        l = reg.add(EH("bv", name="lhs")) if pick == 0 else e
                        rconc = c.choose([True, True], "rhs-concrete") == 0
                        r_ = reg.add(const_bv("rhs")) if rconc else reg.add(EH("bv", name="rhs"))
                        if c.choose([True, True], "swap") == 1:
                            l, r_ = r_, l
                        con = EH("bool", vals=[l.vals[j] == r_.vals[j] for j in range(U)], name="eq", op="__eq__", args=(l, r_))
                    elif kind_ == "not":
                        b = reg.add(EH("bool", name="b"))
                        con = EH("bool", vals=[z3.Not(b.vals[j]) for j in range(U)], name="not", op="Not", args=(b,))
                    else:
                        con = EH("bool", name="o", op="ULT", args=())
                    return reg.add(con)
                cons = [mk(kind)] if kind != "batch" else [mk("eq"), mk("other"), mk("not")]
                s.ghostG = s.ghostG + cons
                added = s._add(cons)
                c.check(label + "/returns-added", list(added) == cons, "_add did not return the constraints it added")
            elif method == "_replacement":
                r = s._replacement(e)
                modG = conj(s.ghostG)
                if not isinstance(r, EH) or r.sort != e.sort:
                    c.fail(label + "/type", "the replacement is of another sort")
                else:
                    c.check(label + "/implied", z3.And(*[z3.Implies(modG[j], r.vals[j] == e.vals[j]) for j in range(U)]),
                            "the replaced expression takes another value than the original on a model of the constraints")
            elif method in ("_copy", "_blank_copy"):
                b = object.__new__(RF)
                b._actual_frontend = ActualStub()
                b.constraints, b.constraints_wo_annotations, b.variables = [], set(), set()
                getattr(s, method)(b)
                b.ghostG = list(s.ghostG) if method == "_copy" else []
                for nm in ("_replacements", "_replacement_cache"):
                    c.check(f"{label}/own-{nm}", getattr(b, nm) is not getattr(s, nm), f"the branch shares {nm} with its parent (a later add on one side changes the other)")
                c.check(label + "/own-actual-frontend", b._actual_frontend is not s._actual_frontend, "the branch shares the actual frontend with its parent")
                if method == "_copy":
                    c.check(label + "/same-replacements", b._replacements == s._replacements, "the branch does not start with the parent's replacements")
                    _inv(c, b, reg, label + "[branch]")
                else:
                    c.check(label + "/blank", not b._replacements and not b._replacement_cache, "a blank copy holds replacements")
                for flag in (("_allow_symbolic", "_auto_replace", "_complex_auto_replace", "_replace_constraints", "_unsafe_replacement") if method == "_blank_copy" else ()):
                    c.check(f"{label}/flag{flag}", getattr(b, flag, None) is getattr(s, flag), f"option {flag} is not carried over")
            elif method == "downsize":
                s.downsize()
            elif method == "remove_replacements":
                s.remove_replacements({terms[0].hash()} if terms else set())
            elif method == "clear_replacements":
                s.clear_replacements()
        except (PathEnd, Undecided):
            raise
        except Exception as ex:  # noqa
            import traceback
            c.fail(label + "/raises", f"{type(ex).__name__}: {ex} :: {traceback.format_exc()[-300:]}", kind="raises")
            return "raised"
        _inv(c, s, reg, label)
        return method
    return explore(body, {"budget_s": 300, "max_depth": 4000, "max_failures": 3, "timeout_ms": 20000, "max_paths": 60000})
