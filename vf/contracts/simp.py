"""Contracts for claripy/simplifications.py (C01 meaning, C04 exception freedom, C05 explicit metadata).

Every rewriter S registered for operation K gets:   ensures  result is None  or  forall sigma.
[[result]] = [[K]]([[args]])  and sort(result) = sort(K(args));   raises nothing.
The real function body (re-loaded from /repo on every run) is executed on SymNodes; every public
constructor it calls is answered by its contract (vf/engine/symnode.py)."""
from __future__ import annotations

import operator as _operator
import types
import z3

import claripy as _real_claripy
from vf.engine import loader, paths, proxies, symnode as SN
from vf.engine.paths import cur, explore, Undecided, PathEnd
from vf.engine.proxies import SymInt, SymBool
from vf.contracts import sem as S

REL = "claripy/simplifications.py"
_cache = {}


class _NS(types.SimpleNamespace):
    pass


def contract_claripy():
    """The `claripy` name inside the verified module: contracts for what has one, the real package
    for the rest (errors, fp sorts, ...)."""
    ns = _NS()
    ns.true = lambda: SN.const_bool(True)
    ns.false = lambda: SN.const_bool(False)
    ns.BoolV = lambda v: SN._coerce(None, v)
    ns.BVV = SN.bvv
    for op in ["Concat", "And", "Or"]:
        setattr(ns, op, (lambda o: lambda *a: SN.mk(o, *a))(op))
    for op in ["Not", "ULT", "ULE", "UGT", "UGE", "SLT", "SLE", "SGT", "SGE", "LShR", "SDiv", "SMod", "Reverse",
               "RotateLeft", "RotateRight"]:
        setattr(ns, op, (lambda o: lambda *a: SN.mk(o, *a))(op))
    ns.Extract = lambda hi, lo, x: SN.mk("Extract", hi, lo, x)
    ns.ZeroExt = lambda n, x: SN.mk("ZeroExt", n, x)
    ns.SignExt = lambda n, x: SN.mk("SignExt", n, x)
    ns.If = SN.if_contract
    ns.is_true = SN.is_true_contract
    ns.is_false = SN.is_false_contract
    ns.ast = _NS(Base=SN.SymNode, Bool=SN.SymBoolN, BV=SN.SymBV, Bits=SN.SymBits, FP=SN.SymFP, String=SN.SymStrN)
    ns.backends = _NS(concrete=_NS(handles=lambda e: cur().choose([True, True], "handles") == 0))
    ns.fp = _real_claripy.fp
    ns.errors = _real_claripy.errors
    return ns


def vf_getattr(obj, name, *d):
    if isinstance(name, SN.LazyOp):
        name = str(name)
    return getattr(obj, name, *d)


def load():
    if "ns" not in _cache:
        _cache["ns"] = loader.load(REL, "claripy.simplifications",
                                   overrides={"claripy": contract_claripy()},
                                   extra_shadow={"getattr": vf_getattr})
    return _cache["ns"]


def mentioned_ops(fn):
    """Operation names that function `fn` of simplifications.py and everything it can reach inside the
    module (functions, module-level sets/tuples) mention as string constants - computed from the AST of
    the current source on every run."""
    import ast, os
    key = ("mentions", fn)
    if key in _cache:
        return _cache[key]
    src = open(os.path.join(loader.REPO, REL)).read()
    tree = ast.parse(src)
    defs, consts = {}, {}
    for n in tree.body:
        if isinstance(n, ast.FunctionDef):
            defs[n.name] = n
        elif isinstance(n, ast.Assign):
            for t in n.targets:
                if isinstance(t, ast.Name):
                    consts[t.id] = n.value
    seen, out, todo = set(), set(), [fn]
    while todo:
        f = todo.pop()
        if f in seen:
            continue
        seen.add(f)
        node = defs.get(f) or consts.get(f)
        if node is None:
            continue
        for x in ast.walk(node):
            if isinstance(x, ast.Constant) and isinstance(x.value, str):
                out.add(x.value)
            elif isinstance(x, ast.Constant) and type(x.value) is int and 9 <= x.value <= 128:
                out.add(("width-literal", x.value))
            elif isinstance(x, ast.Name) and (x.id in defs or x.id in consts) and x.id != "_all_simplifiers":
                todo.append(x.id)
            elif isinstance(x, ast.Attribute) and isinstance(x.value, ast.Name) and x.value.id == "operator":
                out.add(x.attr)
    _cache[key] = out
    return out


def mentioned_widths(fn):
    """integer literals between 9 and 128 that `fn` and what it reaches mention: widths (or width sums) the code treats
    specially, added to the enumerated widths of that rewriter on every run"""
    return sorted(x[1] for x in mentioned_ops(fn) if isinstance(x, tuple))


# ---- argument generators per operation ------------------------------------------------------------

def _roots(c, op, w, arity):
    """Arbitrary well-typed arguments for operation `op` at result/operand width w."""
    N = SN.new_node
    N = lambda sort, label: SN.new_node(sort, "root_" + label)
    if op in ("__lshift__", "__rshift__", "LShR", "__sub__", "__eq__", "__ne__", "UGE"):
        return [N(("bv", w), "a"), N(("bv", w), "b")]
    if op in ("bool__eq__", "bool__ne__"):
        return [N(("bool",), "a"), N(("bool",), "b")]
    if op in ("__add__", "__mul__", "__and__", "__or__", "__xor__"):
        return [N(("bv", w), "abcd"[i]) for i in range(arity)]
    if op in ("And", "Or"):
        return [N(("bool",), "abcd"[i]) for i in range(arity)]
    if op == "Not":
        return [N(("bool",), "a")]
    if op in ("__invert__", "Reverse"):
        return [N(("bv", w), "a")]
    if op in ("ZeroExt", "SignExt"):
        # result width w = n + child width; n >= 0
        n = SymInt.fresh("n", 0, w - 1)
        nn = proxies.concretize(n, label="ext-n")
        return [nn, N(("bv", w - nn), "a")]
    if op == "Extract":
        ws = cur().opts["extract_from"](w)
        w2 = ws[c.choose([True] * len(ws), "extract-child-width")]
        lo = SymInt.fresh("lo", 0, w2 - w)
        hi = lo + (w - 1)
        return [hi, lo, N(("bv", w2), "a")]
    if op == "Concat":
        comps = [cc for n in range(1, arity + 1) for cc in SN._compositions(w, n) if n == arity]
        i = c.choose([True] * len(comps), "concat-widths")
        return [N(("bv", k), "abcd"[j]) for j, k in enumerate(comps[i])]
    raise Undecided(f"no generator for {op}")


def _ref(op, args, w):
    """[[K]](args) as a z3 term."""
    real = op.replace("bool", "")
    zs = []
    for a in args:
        zs.append(a.den if isinstance(a, SN.SymNode) else a)
    if real == "Extract":
        hi, lo, x = args
        if isinstance(lo, int):
            return z3.Extract(lo + w - 1, lo, x.den)
        return S.shift_extract(x.den, SN.int_to_bv(lo, x.length), w)
    if real == "Concat":
        return z3.Concat(*zs) if len(zs) > 1 else zs[0]
    return S.sem(real, zs)


def _opts(w, tier, **kw):
    mw = max(w, 8)
    o = {"timeout_ms": 20000 if tier == "quick" else 120000, "budget_s": 150 if tier == "quick" else 3000,
         "max_paths": 400000, "max_depth": 3000, "path_budget_s": 40, "max_failures": 3,
         "max_arity": 3, "nested_arity": 2, "cmp_widths": sorted({1, w}),
         "ext_amounts": (lambda x: sorted({1, x // 2, x - 1, 8} & set(range(1, x)))),
         # a Concat operand has two parts (first part 1, half, all but one, or 8 bits wide) or three (the first two 1 or a quarter wide):
         # rewrites that look through a Concat index its parts, so "two parts" must not be the only arity they ever see
         "concat_arity": 3,
         "concat_filter": (lambda x, cs: [c for c in cs if (len(c) == 2 and c[0] in (1, x // 2, x - 1, 8)) or
                                          (len(c) == 3 and c[0] in (1, x // 4) and c[1] in (1, x // 4))]),
         "child_widths": (lambda x: sorted({x, x + 1, x + 8} if x <= 16 else {x, x + 8})),
         "extract_from": (lambda x: sorted({x, x + 1, 2 * x, x + 8})),
         "size_obligation": None}
    o.update(kw)
    return o


def ob_rewriter(rw, op, w, arity=2, tier="quick", iw=None, annotated=False):
    fn = rw
    """{well-typed args} S(*args) {result is None or [[result]] == [[op]](args)}; raises nothing."""
    ns = load()
    f = ns[fn]
    proxies.set_iw(iw or max(3 * max(w, 8) + 10, 40))

    annotated_mode = annotated

    def body(c):
        args = _roots(c, op, w, arity)
        nodes = [a for a in args if isinstance(a, SN.SymNode)]
        c.describers.append(lambda m: {"args": [SN.describe(a, m) for a in args]})
        for fid, pred in KNOWN.get(fn, []):
            c.known(fid, pred(args, w))
        try:
            res = f(*args)
        except (PathEnd, Undecided):
            raise
        except Exception as e:  # any exception out of a rewriter is a crash of the public constructor
            import traceback
            tb = traceback.extract_tb(e.__traceback__)
            where = next((f"{fr.name}:{fr.lineno}" for fr in reversed(tb) if "simplifications" in fr.filename), "?")
            c.fail(f"{fn}/raises", f"{type(e).__name__}: {e} at {where}", kind="raises")
            return "raised"
        annotated = False
        if isinstance(res, tuple):
            res, annotated = res[0], res[1]
        if res is None:
            c.check(f"{fn}/none", True)
            return "none"
        if not isinstance(res, SN.SymNode):
            c.fail(f"{fn}/type", f"returned {type(res).__name__}")
            return "badtype"
        ref = _ref(op, args, w)
        c.describers.append(lambda m: {"result": SN.describe(res, m)})
        if ref.sort() != res.den.sort():
            c.fail(f"{fn}/sort", f"result sort {res.den.sort()} != {ref.sort()}", kind="C05")
            return "badsort"
        c.check(f"{fn}/meaning", res.den == ref, "rewritten expression is not equivalent to the written operation")
        if annotated_mode and annotated:
            # a rewriter that reports annotated=True bypasses _handle_annotations: it must itself keep every
            # non-eliminatable annotation of its arguments reachable and carry their relocatable annotations (C07)
            c.n_vcs += 1
            need_u = set().union(*[set(a._uneliminatable_annotations) for a in nodes])
            need_r = set().union(*[set(a._relocatable_annotations) for a in nodes])
            have_u = set(res._uneliminatable_annotations) | getattr(res.root(), "child_unelim", set())
            if not need_u <= have_u:
                c.fail(f"{fn}/annotated-flag-uneliminatable", f"rewrite reports annotated=True but eliminates {sorted(map(repr, need_u - have_u))}", kind="C07")
            if not need_r <= set(res._relocatable_annotations):
                c.fail(f"{fn}/annotated-flag-relocatable", "rewrite reports annotated=True but does not carry the relocatable annotations of its arguments", kind="C07")
            return "rewrite-annotated"
        return "rewrite"

    t = {"kwargs": {"rw": rw, "op": op, "w": w}}
    if annotated_mode:
        from vf.contracts import annos as AN
        return explore(body, _opts(w, tier, mentioned=mentioned_ops(fn), annotations=[AN.UNIVERSE[1], AN.UNIVERSE[2]],
                                   replay=lambda f: ({"reproduced": True, "text": "annotation clause (no expression-level replay)"}
                                                     if "annotated-flag" in f.get("label", "") else replay_rewriter(t, f))))
    return explore(body, _opts(w, tier, mentioned=mentioned_ops(fn), replay=lambda f: replay_rewriter(t, f)))


# known-finding input classes per rewriter: (finding id, predicate(args, w) -> z3 Bool)
KNOWN = {}


# ---- native replay --------------------------------------------------------------------------------

def build_real(d, names=None):
    """Rebuild a described node with the real claripy, using raw constructors (no re-simplification)."""
    import claripy
    from claripy.ast import BV, Bool
    names = {} if names is None else names
    if not isinstance(d, dict):
        return d
    sort = tuple(d["sort"])
    if "leaf" in d:
        if sort[0] == "bv":
            if d["symbolic"]:
                return claripy.BVS(f"v{d['leaf']}", sort[1], explicit_name=True)
            return claripy.BVV(d["value"] or 0, sort[1])
        if sort[0] == "bool":
            if d["symbolic"]:
                return claripy.BoolS(f"v{d['leaf']}", explicit_name=True)
            return claripy.BoolV(bool(d["value"]))
        if sort[0] == "fp":
            s = claripy.fp.FSORT_FLOAT if sort[1] == "FLOAT" else claripy.fp.FSORT_DOUBLE
            return claripy.FPS(f"v{d['leaf']}", s, explicit_name=True)
        return claripy.StringS(f"v{d['leaf']}", explicit_name=True)
    op = d["op"]
    if op == "BVV":
        return claripy.BVV(d["args"][0], d["args"][1])
    if op == "BoolV":
        return claripy.BoolV(bool(d["args"][0]))
    if op == "BVS":
        return claripy.BVS(f"v{d['uid']}", sort[1], explicit_name=True)
    if op == "BoolS":
        return claripy.BoolS(f"v{d['uid']}", explicit_name=True)
    args = tuple(build_real(a, names) for a in d["args"])
    if sort[0] == "bv":
        return BV(op, args, length=sort[1])
    if sort[0] == "bool":
        return Bool(op, args)
    raise NotImplementedError(sort)


def concretized(d):
    """the described expression with every undecided leaf replaced by the constant the counter-model gives it: a second,
    fully legitimate input for the real code when the symbolic instantiation does not reproduce (e.g. because the
    model relies on is_true/is_false answering for two leaves that happen to be equal)"""
    if isinstance(d, list):
        return [concretized(x) for x in d]
    if not isinstance(d, dict):
        return d
    d = dict(d)
    if "leaf" in d and d.get("sort", [None])[0] in ("bv", "bool"):
        d["symbolic"] = False
    if "args" in d:
        d["args"] = [concretized(a) for a in d["args"]]
    return d


def replay_rewriter(task, failure):
    """Call the real rewriter (and the real public operator) on the counter-model's expression and
    decide equivalence with the unrewritten node by z3."""
    r = _replay_rewriter(task, failure)
    if not r.get("reproduced"):
        f2 = dict(failure)
        f2["witness"] = dict(failure["witness"], args=concretized(failure["witness"]["args"]))
        try:
            r2 = _replay_rewriter(task, f2)
        except Exception:  # noqa
            return r
        if r2.get("reproduced"):
            r2["text"] = "(leaves instantiated with the counter-model's constants) " + r2["text"]
            return r2
        # the counter-model may live in the shape of a callee's result, which the witness (the top-level arguments) does not carry:
        # try the recorded inputs of defects that were repaired in this rewriter
        for name, build in REGRESSION_INPUTS.get(task["kwargs"]["rw"], []):
            try:
                build()
            except Exception as e:  # noqa
                return {"reproduced": True, "text": f"(recorded regression input {name}) raised {type(e).__name__}: {e}"}
    return r


def _reg_extract_reverse_concat():
    """fix ad66bf5: a valid slice of Reverse(Concat(..)) whose reversed parts consolidate into another Reverse(Concat(..)) raised
    'Extract bound must be less than BV size' (public constructors + claripy.replace)"""
    import claripy
    m, n, t2 = claripy.BVS("m", 16), claripy.BVS("n", 16), claripy.BVS("t2", 16)
    y = claripy.Reverse(claripy.Concat(claripy.Reverse(m & n), t2))
    q1, q2, p = claripy.BVS("q1", 16), claripy.BVS("q2", 16), claripy.BVS("p", 32)
    a = claripy.Reverse(claripy.Concat(q1, q2))
    b = claripy.replace(claripy.replace(a, q1, claripy.Reverse(p[15:0])), q2, claripy.Reverse(p[31:16]))
    return claripy.replace(b, p, y)[11:4]


REGRESSION_INPUTS = {"extract_simplifier": [("Reverse(Concat)-consolidating-to-Reverse(Concat) [11:4]", _reg_extract_reverse_concat)]}


def _replay_rewriter(task, failure):
    import claripy
    import z3 as _z3
    from claripy.ast import BV, Bool
    kw = task["kwargs"]
    fn, op = kw["rw"], kw["op"].replace("bool", "")
    wit = failure["witness"]
    args = tuple(build_real(a) for a in wit["args"])
    try:
        res = getattr(claripy.simplifications, fn)(*args)
    except Exception as e:
        bad = failure.get("kind") == "raises" or not isinstance(e, claripy.errors.ClaripyError)
        return {"reproduced": True, "text": f"{fn}{args!r} raised {type(e).__name__}: {e}"}
    if isinstance(res, tuple):
        res = res[0]
    if res is None:
        return {"reproduced": False, "text": f"{fn}{args!r} returned None (no rewrite)"}
    like = next(a for a in args if isinstance(a, claripy.ast.Base))
    if isinstance(res, Bool) or op in SN.RESULT_BOOL:
        raw = Bool(op, args)
    else:
        raw = BV(op, args, length=res.length)
    zr, ze = claripy.backends.z3.convert(res), claripy.backends.z3.convert(raw)
    if zr.sort() != ze.sort():
        # C05: the rewrite does not even have the width / sort of the operation it stands for
        return {"reproduced": True, "text": f"{fn}{args!r} = {res!r} has sort {zr.sort()}, the written {op} has sort {ze.sort()}"}
    s = _z3.Solver(ctx=zr.ctx)
    s.add(zr != ze)
    r = s.check()
    if r == _z3.sat:
        return {"reproduced": True, "text": f"{fn}{args!r} = {res!r} is not equivalent to the written {op}: differs under {s.model()}"}
    return {"reproduced": False, "text": f"{fn}{args!r} = {res!r}; z3 says {r} for non-equivalence"}


# ---- coverage of the rewrite table ----------------------------------------------------------------------------------

# entries of simplifications._all_simplifiers that have no obligation of their own, with the reason
TABLE_EXEMPT = {
    ("If", "if_simplifier"): "never consulted: claripy.If rewrites inline (ast.bool.If has its own obligation)",
    ("StrReverse", "str_reverse_simplifier"): "no operation StrReverse exists (no constructor, no backend handler): the entry cannot be reached",
    ("fpToIEEEBV", "fptobv_simplifier"): "C02: fpsimp.fptobv_simplifier",
    ("fpToFP", "fptofp_simplifier"): "C02: fpsimp.fptofp_simplifier",
}


def ob_table_coverage():
    """every rewriter that construction consults (simplifications._all_simplifiers, read from the current source) is under contract: it is
    in the table of obligations of C01 (vf/props/C01.py:RW) under the operation it is registered for, or exempt for a stated reason.  A rewriter
    added to the table without an obligation is an unverified change of what expressions mean."""
    from vf.props import C01
    ns = load()
    table = ns["_all_simplifiers"]
    res = paths.Result()
    res.paths = 1
    covered = {(op.replace("bool", ""), rw) for rw, op, _ in C01.RW}
    problems = []
    for op, fn in table.items():
        res.vcs += 1
        key = (op, getattr(fn, "__name__", str(fn)))
        if key in covered or key in TABLE_EXEMPT:
            continue
        problems.append(f"operation {op!r} is rewritten by {key[1]}, which has no obligation")
    for (op, rw) in covered:
        res.vcs += 1
        if getattr(table.get(op), "__name__", None) != rw:
            problems.append(f"the obligations for {rw} assume it is the rewriter of {op!r}; the table says {getattr(table.get(op), '__name__', None)}")
    for p in problems:
        res.failures.append(paths.Failure("simplifications.table/coverage", "frame", {}, p, []))
    res.status = "violated" if problems else ("discharged" if res.vcs else "undecided")
    return res
