"""C15 (proved part): merge / combine / split.

(1) The real ConstrainedFrontend.merge (both forms), combine, split and _split_constraints (claripy/frontend/constrained_frontend.py and
    frontend.py, re-loaded from /repo on every run) on frontends whose constraints are value tables over a finite universe (handles of
    vf/contracts/replfront.py); claripy.And / claripy.Or are answered by their C01 contract (pointwise conjunction / disjunction).
        merge, no ancestor :  Mod(merged) = U_i Mod(cond_i & G_i)
        merge, ancestor    :  Mod(merged) = Mod(ancestor) & U_i Mod(cond_i)
        combine            :  Mod(combined) = &_i Mod(G_i)
        split              :  the pieces' conjunction has the models of G, no two pieces share a variable, every conjunct is in exactly one
    and the inputs are not mutated (their constraint lists are the same objects with the same elements afterwards).
(2) The real ModelCacheMixin.combine / split (model_cache_mixin.py): every cached model of the result satisfies the result's constraints,
    given that every cached model of an input satisfies that input's constraints (the C11 invariant).  Models are concrete dictionaries
    over 1-bit variables, constraints are symbolic truth tables that depend only on their solver's variables.
"""
from __future__ import annotations

import itertools
import z3

from vf.engine import loader, paths, proxies
from vf.engine.paths import cur, explore, Undecided, PathEnd
from vf.contracts.replfront import EH, U, conj, same_set

CF_PATH = "claripy/frontend/constrained_frontend.py"
MC_PATH = "claripy/frontend/mixin/model_cache_mixin.py"


def And_c(*hs):
    vals = [z3.And(*[h.vals[j] for h in hs]) if hs else z3.BoolVal(True) for j in range(U)]
    vs = frozenset().union(*[h.variables for h in hs]) if hs else frozenset()
    r = EH("bool", vals=vals, name="and", op="And", args=tuple(hs))
    r.variables = vs
    return r


def Or_c(*hs):
    vals = [z3.Or(*[h.vals[j] for h in hs]) if hs else z3.BoolVal(False) for j in range(U)]
    r = EH("bool", vals=vals, name="or", op="Or", args=tuple(hs))
    r.variables = frozenset().union(*[h.variables for h in hs]) if hs else frozenset()
    return r


_cache = {}


def load_cf():
    if "cf" not in _cache:
        _cache["cf"] = loader.load(CF_PATH, "claripy.frontend.constrained_frontend", overrides={"And": And_c, "Or": Or_c})
    return _cache["cf"]


def _opts(tier):
    return {"budget_s": 300, "max_depth": 4000, "max_failures": 3, "timeout_ms": 20000, "max_paths": 60000}


def mk_front(CF, name, ncons):
    s = CF.__new__(CF)
    CF.__init__(s)
    s.ghost_name = name
    cons = [EH("bool", name=f"{name}_c") for _ in range(ncons)]
    s.add(cons)
    return s, cons


def _unchanged(c, label, fronts, snaps):
    for f, (lst, items) in zip(fronts, snaps):
        c.check(f"{label}/inputs-untouched", f.constraints is lst and len(lst) == len(items) and all(a is b for a, b in zip(lst, items)),
                f"the constraint list of input '{f.ghost_name}' was modified")


def ob_merge(form, tier="quick"):
    CF = load_cf()["ConstrainedFrontend"]
    proxies.set_iw(16)

    def body(c):
        EH.n = 0
        n = 1 + c.choose([True] * 3, "n-solvers")            # self + 0..2 others
        fronts, conds = [], []
        for i in range(n):
            k = c.choose([True] * 3, f"n-constraints{i}")
            f, _ = mk_front(CF, f"s{i}", k)
            fronts.append(f)
            conds.append(EH("bool", name=f"cond{i}"))
        if n >= 2 and c.choose([True, True], "receiver-simplified-after-fork") == 1:
            # a history the code allows: the solvers share constraints from before a fork, and the RECEIVER was simplified afterwards -
            # simplify() replaces its constraints by equivalent ones but leaves constraints_wo_annotations (a de-duplication aid) stale
            pre = [EH("bool", name="pre") for _ in range(1 + c.choose([True, True], "n-pre-fork"))]
            for f in fronts:
                f.add(pre)
            twins = []
            for x in fronts[0].constraints:
                t = EH("bool", vals=list(x.vals), name="simp")
                twins.append(t)
            fronts[0].constraints = twins            # equivalent, other nodes; the hash set still names the old ones
        snaps = [(f.constraints, list(f.constraints)) for f in fronts]
        label = f"ConstrainedFrontend.merge[{form}]"
        try:
            if form == "plain":
                flag, merged = fronts[0].merge(fronts[1:], conds)
                want = [z3.Or(*[z3.And(conds[i].vals[j], *[x.vals[j] for x in fronts[i].constraints]) for i in range(n)]) for j in range(U)]
            else:
                anc, _ = mk_front(CF, "ancestor", c.choose([True] * 3, "n-ancestor-constraints"))
                snaps.append((anc.constraints, list(anc.constraints)))
                flag, merged = fronts[0].merge(fronts[1:], conds, common_ancestor=anc)
                fronts = fronts + [anc]
                want = [z3.And(z3.Or(*[cd.vals[j] for cd in conds]), *[x.vals[j] for x in anc.constraints]) for j in range(U)]
        except (PathEnd, Undecided):
            raise
        except Exception as ex:  # noqa
            c.fail(label + "/raises", f"{type(ex).__name__}: {ex}", kind="raises")
            return "raised"
        c.check(label + "/fresh-solver", all(merged is not f for f in fronts), "merge returned one of its inputs")
        c.check(label + "/model-set", same_set(conj(merged.constraints), want), "the merged solver's models are not the union of the guarded inputs' models")
        c.check(label + "/own-list", all(merged.constraints is not f.constraints for f in fronts), "the merged solver shares its constraint list with an input")
        _unchanged(c, label, fronts, snaps)
        return form
    return explore(body, _opts(tier))


def ob_combine(tier="quick"):
    CF = load_cf()["ConstrainedFrontend"]
    proxies.set_iw(16)

    def body(c):
        EH.n = 0
        n = 1 + c.choose([True] * 3, "n-solvers")
        fronts = [mk_front(CF, f"s{i}", c.choose([True] * 3, f"n-constraints{i}"))[0] for i in range(n)]
        snaps = [(f.constraints, list(f.constraints)) for f in fronts]
        label = "ConstrainedFrontend.combine"
        try:
            comb = fronts[0].combine(fronts[1:])
        except (PathEnd, Undecided):
            raise
        except Exception as ex:  # noqa
            c.fail(label + "/raises", f"{type(ex).__name__}: {ex}", kind="raises")
            return "raised"
        want = conj([x for f in fronts for x in f.constraints])
        c.check(label + "/model-set", same_set(conj(comb.constraints), want), "the combined solver's models are not the intersection of the inputs' models")
        c.check(label + "/own-list", all(comb.constraints is not f.constraints for f in fronts) and all(comb is not f for f in fronts),
                "the combined solver shares state with an input")
        _unchanged(c, label, fronts, snaps)
        return "combine"
    return explore(body, _opts(tier))


VARSETS = [frozenset(), frozenset("a"), frozenset("b"), frozenset("ab"), frozenset("c"), frozenset("bc")]


def ob_split(tier="quick", via="split"):
    """split() / _split_constraints: independent pieces"""
    CF = load_cf()["ConstrainedFrontend"]
    proxies.set_iw(16)

    def body(c):
        EH.n = 0
        s = CF.__new__(CF)
        CF.__init__(s)
        s.ghost_name = "s"
        k = 1 + c.choose([True] * 3, "n-constraints")
        cons, leaves = [], []
        for i in range(k):
            def leaf(tag):
                h = EH("bool", name=f"l{tag}")
                h.variables = VARSETS[c.choose([True] * len(VARSETS), f"vars-{tag}")]
                h.symbolic = bool(h.variables)
                return h
            if i > 0 or c.choose([True, True], f"shape{i}") == 0:      # at most one And (first position; the code treats positions alike)
                h = leaf(f"{i}")
                leaves.append(h)
            else:
                a, b = leaf(f"{i}x"), leaf(f"{i}y")
                h = And_c(a, b)
                leaves += [a, b]
            cons.append(h)
        s.add(cons)
        label = f"ConstrainedFrontend.{via}"
        try:
            if via == "split":
                pieces = [(set().union(*[x.variables for x in p.constraints]) if p.constraints else set(), list(p.constraints)) for p in s.split()]
            else:
                pieces = [(set(v), list(cl)) for v, cl in CF._split_constraints(s.constraints)]
        except (PathEnd, Undecided):
            raise
        except Exception as ex:  # noqa
            c.fail(label + "/raises", f"{type(ex).__name__}: {ex}", kind="raises")
            return "raised"
        allc = [x for _, cl in pieces for x in cl]
        c.check(label + "/model-set", same_set(conj(allc), conj(cons)), "the pieces together do not have the models of the original constraints")
        for lf in leaves:
            cnt = sum(1 for x in allc if x is lf)
            c.check(label + "/each-conjunct-once", cnt == 1, f"a conjunct appears {cnt} times in the pieces")
        for (v1, c1), (v2, c2) in itertools.combinations(pieces, 2):
            real1 = set().union(*[x.variables for x in c1]) if c1 else set()
            real2 = set().union(*[x.variables for x in c2]) if c2 else set()
            c.check(label + "/independent", not (real1 & real2), f"two pieces share the variables {sorted(real1 & real2)}")
        if via != "split":
            for v, cl in pieces:
                real = set().union(*[x.variables for x in cl]) if cl else set()
                c.check(label + "/variables-reported", v == real or (v == {"CONCRETE"} and not real), f"piece reports variables {sorted(v)} but its constraints mention {sorted(real)}")
        return via
    return explore(body, _opts(tier))


# ---- ModelCacheMixin.combine / split ------------------------------------------------------------------------------

POOL = ["a", "b", "c"]
NA = 1 << len(POOL)


def _assign_bits(i):
    return {v: (i >> k) & 1 for k, v in enumerate(POOL)}


class TSolver:
    """contract of the stack below ModelCacheMixin for combine/split: constraints are one truth table over the assignments of POOL that
    depends only on this solver's variables"""
    def __init__(self, name, variables, table=None):
        c = cur()
        self.ghost_name = name
        self.variables = set(variables)
        self.table = table if table is not None else z3.BitVec(f"table_{name}", NA)
        c.watch[f"table_{name}"] = self.table
        if table is None:
            for i in range(NA):
                for k, v in enumerate(POOL):
                    if v not in self.variables:
                        c.assume(z3.Extract(i, i, self.table) == z3.Extract(i ^ (1 << k), i ^ (1 << k), self.table))
        self._models = set()

    def holds(self, model):
        """z3 Bool: every total assignment that extends `model` satisfies the constraints"""
        ok = []
        for i in range(NA):
            a = _assign_bits(i)
            if all(a[k] == v for k, v in model.items() if k in a):
                ok.append(z3.Extract(i, i, self.table) == 1)
        return z3.And(*ok) if ok else z3.BoolVal(True)


def ob_mc_combine(tier="quick"):
    ns = loader.load(MC_PATH, "claripy.frontend.mixin.model_cache_mixin")
    MCM, MC = ns["ModelCacheMixin"], ns["ModelCache"]
    proxies.set_iw(16)
    SELF = [frozenset("a"), frozenset("ab")]
    O1 = [frozenset("b"), frozenset("c"), frozenset("a")]
    O2 = [None, frozenset("c"), frozenset("b"), frozenset("bc")]

    class Base_(TSolver):
        def combine(self, others):          # contract of ConstrainedFrontend.combine (proved above): conjunction of the constraints
            t = self.table
            vs = set(self.variables)
            for o in others:
                t = t & o.table
                vs |= o.variables
            return H("combined", vs, table=t)

    class H(MCM, Base_):
        def __init__(self, *a, **k):
            Base_.__init__(self, *a, **k)

    def body(c):
        vs = [SELF[c.choose([True] * len(SELF), "self-vars")], O1[c.choose([True] * len(O1), "o1-vars")], O2[c.choose([True] * len(O2), "o2-vars")]]
        solvers = []
        for i, v in enumerate(vs):
            if v is None:
                continue
            s = H(f"s{i}", v)
            nm = c.choose([True, True], f"n-models{i}") if i else 1 + c.choose([True, True], "n-models0") - 0
            for j in range(nm if i else max(1, nm)):
                model = {k: c.choose([True, True], f"m{i}{j}[{k}]") for k in sorted(v)}
                c.assume(s.holds(model))                 # C11 invariant of the inputs
                s._models.add(MC(model))
            solvers.append(s)
        if not c.path_feasible():
            raise PathEnd()
        label = "ModelCacheMixin.combine"
        try:
            comb = solvers[0].combine(solvers[1:])
        except (PathEnd, Undecided):
            raise
        except Exception as ex:  # noqa
            c.fail(label + "/raises", f"{type(ex).__name__}: {ex}", kind="raises")
            return "raised"
        for m in comb._models:
            c.check(label + "/cached-models-satisfy-constraints", comb.holds(m.model),
                    f"a cached model of the combined solver ({m.model}) does not satisfy the combined constraints")
        return f"models:{len(comb._models)}"
    return explore(body, _opts(tier))


def _exh_ok(p, var, kind):
    """z3 Bool: the cache flag `kind` for the expression `var` is TRUE of piece p's cached models: eval - every feasible value of var is the
    value of var in some cached model; max / min - some cached model attains the largest / smallest feasible value"""
    feas = {v: z3.Or(*[z3.Extract(i, i, p.table) == 1 for i in range(NA) if _assign_bits(i)[var] == v]) for v in (0, 1)}
    have = {v: any(m.model.get(var) == v for m in p._models) for v in (0, 1)}
    if kind == "eval":
        return z3.And(*[z3.Implies(feas[v], z3.BoolVal(have[v])) for v in (0, 1)])
    hi, lo = (1, 0) if kind == "max" else (0, 1)
    return z3.And(z3.Implies(feas[hi], z3.BoolVal(have[hi])), z3.Implies(z3.And(z3.Not(feas[hi]), feas[lo]), z3.BoolVal(have[lo])))


EXH = {"eval": "_eval_exhausted", "max": "_max_exhausted", "min": "_min_exhausted"}


def ob_mc_split(tier="quick"):
    """ModelCacheMixin.split in isolation.  `super().split()` is the contract of ConstrainedFrontend.split: independent pieces whose
    conjunction is the original - built with blank_copy() + add(), i.e. THROUGH the piece's own _add, so a piece arrives with whatever cache
    state _add leaves (the trivial-model optimisation caches a model and marks the variable exhausted).  The contract therefore returns the
    pieces in ANY CONSISTENT cache state (0..1 valid models; each exhausted flag only if it is true of those models); the receiver has 0..2
    valid models.  Post: every cached model of a piece satisfies the piece and mentions only its variables, and every exhausted flag of a piece
    is still true of the piece's cached models."""
    ns = loader.load(MC_PATH, "claripy.frontend.mixin.model_cache_mixin")
    MCM, MC = ns["ModelCacheMixin"], ns["ModelCache"]
    proxies.set_iw(16)
    PV = [("p0", ["a"]), ("p1", ["b", "c"])]

    class Base_(TSolver):
        def split(self):
            c = cur()
            out = []
            for (name, vs), tab in zip(PV, (self.t0, self.t1)):
                p = H(name, set(vs), table=tab)
                if c.choose([True, True], f"{name}-has-model"):
                    model = {k: c.choose([True, True], f"{name}-m[{k}]") for k in vs}
                    c.assume(p.holds(model))
                    p._models.add(MC(model))
                for kind, attr in EXH.items():
                    d = {}
                    if c.choose([True, True], f"{name}-{kind}-exhausted"):
                        c.assume(_exh_ok(p, vs[0], kind))           # consistent on arrival
                        d[vs[0]] = vs[0]
                    setattr(p, attr, d)
                out.append(p)
            if not c.path_feasible():
                raise PathEnd()
            return out

    class H(MCM, Base_):
        def __init__(self, *a, **k):
            Base_.__init__(self, *a, **k)

    def body(c):
        p0 = TSolver("t0", {"a"})
        p1 = TSolver("t1", {"b", "c"})
        s = H("s", {"a", "b", "c"}, table=p0.table & p1.table)
        s.t0, s.t1 = p0.table, p1.table
        nm = c.choose([True, True, True], "n-models")
        for j in range(nm):
            model = {k: c.choose([True, True], f"m{j}[{k}]") for k in POOL}
            c.assume(s.holds(model))
            s._models.add(MC(model))
        if not c.path_feasible():
            raise PathEnd()
        c.describers.append(lambda m: {"receiver_models": [dict(x.model) for x in s._models]})
        label = "ModelCacheMixin.split"
        try:
            pieces = s.split()
        except (PathEnd, Undecided):
            raise
        except Exception as ex:  # noqa
            c.fail(label + "/raises", f"{type(ex).__name__}: {ex}", kind="raises")
            return "raised"
        for p, (name, vs) in zip(pieces, PV):
            for m in p._models:
                c.check(label + "/cached-models-satisfy-constraints", p.holds(m.model), f"a cached model of a piece ({m.model}) does not satisfy the piece's constraints")
                c.check(label + "/models-over-own-variables", set(m.model) <= p.variables, "a cached model of a piece mentions a variable of another piece")
            for kind, attr in EXH.items():
                if vs[0] in getattr(p, attr):
                    c.check(label + f"/{kind}-exhausted-flag-true-of-cached-models", _exh_ok(p, vs[0], kind),
                            f"piece {name}: {attr} still lists {vs[0]} but the piece's cached models {[dict(m.model) for m in p._models]} do not realise "
                            f"{'every feasible value' if kind == 'eval' else 'the ' + kind + 'imum'} of it: the next {kind}() is answered from the cache with a wrong / empty result")
        return f"split[{nm}]"
    return explore(body, dict(_opts(tier), replay=replay_mc_split))


def replay_mc_split(failure):
    """native: a real Solver whose constraints have the counter-model's two truth tables (a piece over {a} that pins a to one value is written
    `a == v`, which is what makes _add cache the trivial model), the receiver's models cached by a satisfiable() call when the counter-model has
    some; split(); every piece must answer eval / min / max like a fresh solver over the same constraints"""
    import claripy
    w = failure.get("witness") or {}
    t0, t1 = w.get("table_t0"), w.get("table_t1")
    if t0 is None or t1 is None:
        return {"reproduced": False, "text": "no tables in the counter-model"}
    vs = {k: claripy.BVS(k, 1, explicit_name=True) for k in POOL}
    sat0 = sorted({_assign_bits(i)["a"] for i in range(NA) if (t0 >> i) & 1})
    sat1 = sorted({(_assign_bits(i)["b"], _assign_bits(i)["c"]) for i in range(NA) if (t1 >> i) & 1})
    cons = []
    if len(sat0) == 1:
        cons.append(vs["a"] == sat0[0])
    elif not sat0:
        cons.append(claripy.And(vs["a"] == 0, vs["a"] == 1))
    else:
        cons.append(claripy.Or(vs["a"] == 0, vs["a"] == 1))
    cons.append(claripy.Or(*[claripy.And(vs["b"] == x, vs["c"] == y) for x, y in sat1]) if sat1 else claripy.And(vs["b"] == 0, vs["b"] == 1))
    texts = []
    for warm in ([False, True] if w.get("receiver_models") else [False]):
        s = claripy.Solver()
        s.add(cons)
        if warm:
            try:
                s.satisfiable()
            except Exception:  # noqa
                pass
        for piece in s.split():
            fresh = claripy.Solver()
            fresh.add(list(piece.constraints))
            for v in sorted(piece.variables):
                e = vs[v]
                for what, f in (("eval", lambda z: tuple(sorted(z.eval(e, 4)))), ("min", lambda z: z.min(e)), ("max", lambda z: z.max(e))):
                    def run(z):
                        try:
                            return f(z)
                        except claripy.errors.UnsatError:
                            return "UnsatError"
                    got, want = run(piece), run(fresh)
                    if got != want:
                        texts.append(f"Solver().add({cons!r}){'; satisfiable()' if warm else ''}; the piece {piece.constraints!r} of split() answers {what}({v}) = {got!r}, a fresh solver with the same constraints answers {want!r}")
    if texts:
        return {"reproduced": True, "text": texts[0]}
    return {"reproduced": False, "text": "the real Solver.split() pieces answer eval/min/max like fresh solvers for these tables"}
