"""C15 (proved part): merge / combine / split.

(1) The real ConstrainedFrontend.merge (both forms), combine, split and _split_constraints (claripy/frontend/constrained_frontend.py and
    frontend.py, re-loaded from /repo on every run) on frontends whose constraints are value tables over a finite universe (handles of
    vf/contracts/replfront.py); claripy.And / claripy.Or are answered by their C01 contract (pointwise conjunction / disjunction).
        merge, no ancestor :  Mod(merged) = U_i Mod(cond_i & G_i)
        merge, ancestor    :  Mod(merged) = Mod(ancestor) & U_i Mod(cond_i)
        combine            :  Mod(combined) = &_i Mod(G_i)
        split              :  the pieces' conjunction has the models of G, no two pieces share a variable, every conjunct is in exactly one
    and the inputs are not mutated (their constraint lists are the same objects with the same elements afterwards).
(2) The real ModelCacheMixin.combine / split (model_cache_mixin.py): every cached model of the result satisfies the result's constraints,
    given that every cached model of an input satisfies that input's constraints (the C11 invariant).  Models are concrete dictionaries
    over 1-bit variables, constraints are symbolic truth tables that depend only on their solver's variables.
"""
from __future__ import annotations

import itertools
import z3

from vf.engine import loader, paths, proxies
from vf.engine.paths import cur, explore, Undecided, PathEnd
from vf.contracts.replfront import EH, U, conj, same_set

CF_PATH = "claripy/frontend/constrained_frontend.py"
MC_PATH = "claripy/frontend/mixin/model_cache_mixin.py"


def And_c(*hs):
    vals = [z3.And(*[h.vals[j] for h in hs]) if hs else z3.BoolVal(True) for j in range(U)]
    vs = frozenset().union(*[h.variables for h in hs]) if hs else frozenset()
    r = EH("bool", vals=vals, name="and", op="And", args=tuple(hs))
    r.variables = vs
    return r


def Or_c(*hs):
    vals = [z3.Or(*[h.vals[j] for h in hs]) if hs else z3.BoolVal(False) for j in range(U)]
    r = EH("bool", vals=vals, name="or", op="Or", args=tuple(hs))
    r.variables = frozenset().union(*[h.variables for h in hs]) if hs else frozenset()
    return r


_cache = {}


def load_cf():
    if "cf" not in _cache:
        _cache["cf"] = loader.load(CF_PATH, "claripy.frontend.constrained_frontend", overrides={"And": And_c, "Or": Or_c})
    return _cache["cf"]


def _opts(tier):
    return {"budget_s": 300, "max_depth": 4000, "max_failures": 3, "timeout_ms": 20000, "max_paths": 60000}


def mk_front(CF, name, ncons):
    s = CF.__new__(CF)
    CF.__init__(s)
    s.ghost_name = name
    cons = [EH("bool", name=f"{name}_c") for _ in range(ncons)]
    s.add(cons)
    return s, cons


def _unchanged(c, label, fronts, snaps):
    for f, (lst, items) in zip(fronts, snaps):
        c.check(f"{label}/inputs-untouched", f.constraints is lst and len(lst) == len(items) and all(a is b for a, b in zip(lst, items)),
                f"the constraint list of input '{f.ghost_name}' was modified")


def ob_merge(form, tier="quick"):
    CF = load_cf()["ConstrainedFrontend"]
    proxies.set_iw(16)

    def body(c):
        EH.n = 0
        n = 1 + c.choose([True] * 3, "n-solvers")            # self + 0..2 others
        fronts, conds = [], []
        for i in range(n):
            k = c.choose([True] * 3, f"n-constraints{i}")
            f, _ = mk_front(CF, f"s{i}", k)
            fronts.append(f)
            conds.append(EH("bool", name=f"cond{i}"))
        if n >= 2 and c.choose([True, True], "receiver-simplified-after-fork") == 1:
            # a history the code allows: the solvers share constraints from before a fork, and the RECEIVER was simplified afterwards -
            # simplify() replaces its constraints by equivalent ones but leaves constraints_wo_annotations (a de-duplication aid) stale
            pre = [EH("bool", name="pre") for _ in range(1 + c.choose([True, True], "n-pre-fork"))]
            for f in fronts:
                f.add(pre)
            twins = []
            for x in fronts[0].constraints:
                t = EH("bool", vals=list(x.vals), name="simp")
                twins.append(t)
            fronts[0].constraints = twins            # equivalent, other nodes; the hash set still names the old ones
        snaps = [(f.constraints, list(f.constraints)) for f in fronts]
        label = f"ConstrainedFrontend.merge[{form}]"
        try:
            if form == "plain":
                flag, merged = fronts[0].merge(fronts[1:], conds)
                want = [z3.Or(*[z3.And(conds[i].vals[j], *[x.vals[j] for x in fronts[i].constraints]) for i in range(n)]) for j in range(U)]
            else:
                anc, _ = mk_front(CF, "ancestor", c.choose([True] * 3, "n-ancestor-constraints"))
                snaps.append((anc.constraints, list(anc.constraints)))
                flag, merged = fronts[0].merge(fronts[1:], conds, common_ancestor=anc)
                fronts = fronts + [anc]
                want = [z3.And(z3.Or(*[cd.vals[j] for cd in conds]), *[x.vals[j] for x in anc.constraints]) for j in range(U)]
        except (PathEnd, Undecided):
            raise
        except Exception as ex:  # noqa
            c.fail(label + "/raises", f"{type(ex).__name__}: {ex}", kind="raises")
            return "raised"
        c.check(label + "/fresh-solver", all(merged is not f for f in fronts), "merge returned one of its inputs")
        c.check(label + "/model-set", same_set(conj(merged.constraints), want), "the merged solver's models are not the union of the guarded inputs' models")
        c.check(label + "/own-list", all(merged.constraints is not f.constraints for f in fronts), "the merged solver shares its constraint list with an input")
        _unchanged(c, label, fronts, snaps)
        return form
    return explore(body, _opts(tier))


def ob_combine(tier="quick"):
    CF = load_cf()["ConstrainedFrontend"]
    proxies.set_iw(16)

    def body(c):
        EH.n = 0
        n = 1 + c.choose([True] * 3, "n-solvers")
        fronts = [mk_front(CF, f"s{i}", c.choose([True] * 3, f"n-constraints{i}"))[0] for i in range(n)]
        snaps = [(f.constraints, list(f.constraints)) for f in fronts]
        label = "ConstrainedFrontend.combine"
        try:
            comb = fronts[0].combine(fronts[1:])
        except (PathEnd, Undecided):
            raise
        except Exception as ex:  # noqa
            c.fail(label + "/raises", f"{type(ex).__name__}: {ex}", kind="raises")
            return "raised"
        want = conj([x for f in fronts for x in f.constraints])
        c.check(label + "/model-set", same_set(conj(comb.constraints), want), "the combined solver's models are not the intersection of the inputs' models")
        c.check(label + "/own-list", all(comb.constraints is not f.constraints for f in fronts) and all(comb is not f for f in fronts),
                "the combined solver shares state with an input")
        _unchanged(c, label, fronts, snaps)
        return "combine"
    return explore(body, _opts(tier))


VARSETS = [frozenset(), frozenset("a"), frozenset("b"), frozenset("ab"), frozenset("c"), frozenset("bc")]


def ob_split(tier="quick", via="split"):
    """split() / _split_constraints: independent pieces"""
    CF = load_cf()["ConstrainedFrontend"]
    proxies.set_iw(16)

    def body(c):
        EH.n = 0
        s = CF.__new__(CF)
        CF.__init__(s)
        s.ghost_name = "s"
        k = 1 + c.choose([True] * 3, "n-constraints")
        cons, leaves = [], []
        for i in range(k):
            def leaf(tag):
                h = EH("bool", name=f"l{tag}")
                h.variables = VARSETS[c.choose([True] * len(VARSETS), f"vars-{tag}")]
                h.symbolic = bool(h.variables)
                return h
            if i > 0 or c.choose([True, True], f"shape{i}") == 0:      # at most one And (first position; the code treats positions alike)
                h = leaf(f"{i}")
                leaves.append(h)
            else:
                a, b = leaf(f"{i}x"), leaf(f"{i}y")
                h = And_c(a, b)
                leaves += [a, b]
            cons.append(h)
        s.add(cons)
        label = f"ConstrainedFrontend.{via}"
        try:
            if via == "split":
                pieces = [(set().union(*[x.variables for x in p.constraints]) if p.constraints else set(), list(p.constraints)) for p in s.split()]
            else:
                pieces = [(set(v), list(cl)) for v, cl in CF._split_constraints(s.constraints)]
        except (PathEnd, Undecided):
            raise
        except Exception as ex:  # noqa
            c.fail(label + "/raises", f"{type(ex).__name__}: {ex}", kind="raises")
            return "raised"
        allc = [x for _, cl in pieces for x in cl]
        c.check(label + "/model-set", same_set(conj(allc), conj(cons)), "the pieces together do not have the models of the original constraints")
        for lf in leaves:
            cnt = sum(1 for x in allc if x is lf)
            c.check(label + "/each-conjunct-once", cnt == 1, f"a conjunct appears {cnt} times in the pieces")
        for (v1, c1), (v2, c2) in itertools.combinations(pieces, 2):
            real1 = set().union(*[x.variables for x in c1]) if c1 else set()
            real2 = set().union(*[x.variables for x in c2]) if c2 else set()
            c.check(label + "/independent", not (real1 & real2), f"two pieces share the variables {sorted(real1 & real2)}")
        if via != "split":
            for v, cl in pieces:
                real = set().union(*[x.variables for x in cl]) if cl else set()
                c.check(label + "/variables-reported", v == real or (v == {"CONCRETE"} and not real), f"piece reports variables {sorted(v)} but its constraints mention {sorted(real)}")
        return via
    return explore(body, _opts(tier))


# ---- ModelCacheMixin.combine / split ------------------------------------------------------------------------------

POOL = ["a", "b", "c"]
NA = 1 << len(POOL)


def _assign_bits(i):
    return {v: (i >> k) & 1 for k, v in enumerate(POOL)}


class TSolver:
    """contract of the stack below ModelCacheMixin for combine/split: constraints are one truth table over the assignments of POOL that
    depends only on this solver's variables"""
    def __init__(self, name, variables, table=None):
        c = cur()
        self.ghost_name = name
        self.variables = set(variables)
        self.table = table if table is not None else z3.BitVec(f"table_{name}", NA)
        c.watch[f"table_{name}"] = self.table
        if table is None:
            for i in range(NA):
                for k, v in enumerate(POOL):
                    if v not in self.variables:
                        c.assume(z3.Extract(i, i, self.table) == z3.Extract(i ^ (1 << k), i ^ (1 << k), self.table))
        self._models = set()

    def holds(self, model):
        """z3 Bool: every total assignment that extends `model` satisfies the constraints"""
        ok = []
        for i in range(NA):
            a = _assign_bits(i)
            if all(a[k] == v for k, v in model.items() if k in a):
                ok.append(z3.Extract(i, i, self.table) == 1)
        return z3.And(*ok) if ok else z3.BoolVal(True)


def ob_mc_combine(tier="quick"):
    ns = loader.load(MC_PATH, "claripy.frontend.mixin.model_cache_mixin")
    MCM, MC = ns["ModelCacheMixin"], ns["ModelCache"]
    proxies.set_iw(16)
    SELF = [frozenset("a"), frozenset("ab")]
    O1 = [frozenset("b"), frozenset("c"), frozenset("a")]
    O2 = [None, frozenset("c"), frozenset("b"), frozenset("bc")]

    class Base_(TSolver):
        def combine(self, others):          # contract of ConstrainedFrontend.combine (proved above): conjunction of the constraints
            t = self.table
            vs = set(self.variables)
            for o in others:
                t = t & o.table
                vs |= o.variables
            return H("combined", vs, table=t)

    class H(MCM, Base_):
        def __init__(self, *a, **k):
            Base_.__init__(self, *a, **k)

    def body(c):
        vs = [SELF[c.choose([True] * len(SELF), "self-vars")], O1[c.choose([True] * len(O1), "o1-vars")], O2[c.choose([True] * len(O2), "o2-vars")]]
        solvers = []
        for i, v in enumerate(vs):
            if v is None:
                continue
            s = H(f"s{i}", v)
            nm = c.choose([True, True], f"n-models{i}") if i else 1 + c.choose([True, True], "n-models0") - 0
            for j in range(nm if i else max(1, nm)):
                model = {k: c.choose([True, True], f"m{i}{j}[{k}]") for k in sorted(v)}
                c.assume(s.holds(model))                 # C11 invariant of the inputs
                s._models.add(MC(model))
            solvers.append(s)
        if not c.path_feasible():
            raise PathEnd()
        label = "ModelCacheMixin.combine"
        try:
            comb = solvers[0].combine(solvers[1:])
        except (PathEnd, Undecided):
            raise
        except Exception as ex:  # noqa
            c.fail(label + "/raises", f"{type(ex).__name__}: {ex}", kind="raises")
            return "raised"
        for m in comb._models:
            c.check(label + "/cached-models-satisfy-constraints", comb.holds(m.model),
                    f"a cached model of the combined solver ({m.model}) does not satisfy the combined constraints")
        return f"models:{len(comb._models)}"
    return explore(body, _opts(tier))


def ob_mc_split(tier="quick"):
    ns = loader.load(MC_PATH, "claripy.frontend.mixin.model_cache_mixin")
    MCM, MC = ns["ModelCacheMixin"], ns["ModelCache"]
    proxies.set_iw(16)

    class Base_(TSolver):
        def split(self):
            # contract of ConstrainedFrontend.split (proved above): independent pieces whose conjunction is the original.  Here: the
            # pieces are over {a} and {b, c}; the original table is the product of two tables
            return [H("p0", {"a"}, table=self.t0), H("p1", {"b", "c"}, table=self.t1)]

    class H(MCM, Base_):
        def __init__(self, *a, **k):
            Base_.__init__(self, *a, **k)

    def body(c):
        p0 = TSolver("t0", {"a"})
        p1 = TSolver("t1", {"b", "c"})
        s = H("s", {"a", "b", "c"}, table=p0.table & p1.table)
        s.t0, s.t1 = p0.table, p1.table
        for j in range(1 + c.choose([True, True], "n-models")):
            model = {k: c.choose([True, True], f"m{j}[{k}]") for k in POOL}
            c.assume(s.holds(model))
            s._models.add(MC(model))
        if not c.path_feasible():
            raise PathEnd()
        label = "ModelCacheMixin.split"
        try:
            pieces = s.split()
        except (PathEnd, Undecided):
            raise
        except Exception as ex:  # noqa
            c.fail(label + "/raises", f"{type(ex).__name__}: {ex}", kind="raises")
            return "raised"
        for p in pieces:
            for m in p._models:
                c.check(label + "/cached-models-satisfy-constraints", p.holds(m.model), f"a cached model of a piece ({m.model}) does not satisfy the piece's constraints")
                c.check(label + "/models-over-own-variables", set(m.model) <= p.variables, "a cached model of a piece mentions a variable of another piece")
        return "split"
    return explore(body, _opts(tier))
