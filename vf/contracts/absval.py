"""The C21/C22 postconditions as a *callee contract*: an abstract VSA value whose transfer functions, joins, meets and
queries are answered by their contract instead of their body (C23 and C24 lifting lemmas are proved against it).

`CSI` is a run-time subclass of the real StridedInterval class (re-loaded from /repo), so that
  * `isinstance(x, StridedInterval)` in the code under verification is answered natively,
  * the real dunder methods (`__add__ -> add`, `__rshift__ -> rshift_arithmetic`, `__or__` under the real
    `normalize_types` decorator, ...) are EXECUTED, and only the named operations they end in are contracts,
  * `CSI(bits=, stride=, lower_bound=, upper_bound=)` runs the real constructor (real `normalize`) on possibly symbolic fields
    and abstracts the result to its member set by the specification `si.member`.
Its denotation is the member set itself: a z3 bit-vector `mask` of 2^bits bits (bit v set <=> v in gamma).  Every contract
result is a fresh mask constrained only by what the property promises (containment for transfer functions / joins / meets,
exactness for the queries) - the weakest postcondition - so the caller is verified for *every* implementation that satisfies
C21/C22, not for the current one.  The representation fields (`_stride`, `_lower_bound`, `_upper_bound`) do not exist on a
contract value: code that reaches for them makes the obligation undecided, never discharged.
"""
from __future__ import annotations

import itertools
import z3

from vf.engine import paths, proxies
from vf.engine.paths import cur, Unsupported
from vf.engine.proxies import SymInt, SymBool, _bv
from vf.contracts import si as sic

_cache = {}


class _Ctr:
    """names of contract results must be the same on every re-execution of a path prefix (the incremental solver keeps the
    assumptions of replayed scopes), so the counter lives in the per-run context"""
    def __next__(self):
        g = cur().ghost
        g["absval_n"] = g.get("absval_n", 0) + 1
        return g["absval_n"]


_ctr = _Ctr()


def _sgn(v, w):
    return v - (1 << w) if v >> (w - 1) else v


def _sdiv(x, y, w):
    a, b = _sgn(x, w), _sgn(y, w)
    q = abs(a) // abs(b)
    return (q if (a < 0) == (b < 0) else -q) % (1 << w)


# reference semantics on concrete members (SMT-LIB), for the contract instantiation
REF2 = {
    "add": lambda x, y, w: (x + y) % (1 << w),
    "sub": lambda x, y, w: (x - y) % (1 << w),
    "mul": lambda x, y, w: (x * y) % (1 << w),
    "udiv": lambda x, y, w: x // y if y else None,          # division by zero: no obligation on that pair
    "sdiv": lambda x, y, w: _sdiv(x, y, w) if y else None,
    "__mod__": lambda x, y, w: x % y if y else None,
    "bitwise_or": lambda x, y, w: x | y,
    "bitwise_and": lambda x, y, w: x & y,
    "bitwise_xor": lambda x, y, w: x ^ y,
    "lshift": lambda x, y, w: (x << y) % (1 << w) if y < w else 0,
    "rshift_logical": lambda x, y, w: x >> y if y < w else 0,
    "rshift_arithmetic": lambda x, y, w: (_sgn(x, w) >> min(y, w)) % (1 << w),
}
REF1 = {
    "neg": lambda x, w: (-x) % (1 << w),
    "bitwise_not": lambda x, w: (~x) % (1 << w),
}
CMP = {
    "SLT": lambda x, y, w: _sgn(x, w) < _sgn(y, w), "SLE": lambda x, y, w: _sgn(x, w) <= _sgn(y, w),
    "SGT": lambda x, y, w: _sgn(x, w) > _sgn(y, w), "SGE": lambda x, y, w: _sgn(x, w) >= _sgn(y, w),
    "ULT": lambda x, y, w: x < y, "ULE": lambda x, y, w: x <= y, "UGT": lambda x, y, w: x > y, "UGE": lambda x, y, w: x >= y,
    "eq": lambda x, y, w: x == y,
}


def bit(mask, v):
    """z3 Bool: concrete v is a member"""
    return z3.Extract(v, v, mask) == 1


def bit_sym(mask, v):
    """z3 Bool: symbolic v (any width, value < 2^bits) is a member"""
    n = mask.size()
    vv = z3.ZeroExt(n - v.size(), v) if v.size() < n else z3.Extract(n - 1, 0, v)
    return z3.Extract(0, 0, z3.LShR(mask, vv)) == 1


def popcount(mask, iw):
    return z3.Sum([z3.ZeroExt(iw - 1, z3.Extract(i, i, mask)) for i in range(mask.size())])


def load():
    """CSI class bound to the freshly loaded real StridedInterval (per process)."""
    if "CSI" in _cache:
        return _cache["CSI"]
    ns = sic.load_si()
    Real = ns["StridedInterval"]
    from claripy.backends.backend_vsa.bool_result import BoolResult, TrueResult, FalseResult, MaybeResult
    from claripy.errors import ClaripyOperationError

    def fresh(bits, what):
        m = z3.BitVec(f"g{next(_ctr)}_{what}", 1 << bits)
        return CSI._mk(bits, m)

    def coerce(self, o, what):
        """the documented coercion of normalize_types: a Python number is the constant interval"""
        if isinstance(o, CSI):
            return o
        if isinstance(o, (int, SymInt)) and not isinstance(o, bool):
            return CSI(bits=self._bits, stride=0, lower_bound=o, upper_bound=o)
        cur().check(f"{what}/requires", False, f"operand of type {type(o).__name__} handed to a strided-interval operation", kind="requires")
        raise paths.PathEnd()

    def same_bits(a, b, what):
        if a._bits != b._bits:
            cur().check(f"{what}/requires", False, f"operands of different widths {a._bits} and {b._bits}", kind="requires")
            raise paths.PathEnd()

    def binary(name):
        def op(self, o):
            c = cur()
            o = coerce(self, o, name)
            if self._bits != o._bits:
                # the real normalize_types pads the narrower operand with agnostic_extend, which has no member-wise meaning:
                # nothing is promised about the result (weakest contract) except its width
                return fresh(max(self._bits, o._bits), name + "-mixed-widths")
            w = self._bits
            r = fresh(w, name)
            for x in range(1 << w):
                for y in range(1 << w):
                    v = REF2[name](x, y, w)
                    if v is not None:
                        c.assume(z3.Implies(z3.And(bit(self._mask, x), bit(o._mask, y)), bit(r._mask, v)))
            return r
        op.__name__ = name
        return op

    def unary(name):
        def op(self):
            c = cur()
            w = self._bits
            r = fresh(w, name)
            for x in range(1 << w):
                c.assume(z3.Implies(bit(self._mask, x), bit(r._mask, REF1[name](x, w))))
            return r
        op.__name__ = name
        return op

    def compare(name):
        def op(self, o):
            c = cur()
            o = coerce(self, o, name)
            same_bits(self, o, name)
            w = self._bits
            can_t, can_f = [], []
            for x in range(1 << w):
                for y in range(1 << w):
                    (can_t if CMP[name](x, y, w) else can_f).append(z3.And(bit(self._mask, x), bit(o._mask, y)))
            may_t = z3.Or(*can_t) if can_t else z3.BoolVal(False)
            may_f = z3.Or(*can_f) if can_f else z3.BoolVal(False)
            # result.value must contain every achievable truth value; any such answer is allowed
            i = c.choose([z3.Not(may_f), z3.Not(may_t), True], name + "-result")
            return (TrueResult, FalseResult, MaybeResult)[i]()
        op.__name__ = name
        return op

    def join(name, n_extra=0):
        def op(self, o):
            c = cur()
            o = coerce(self, o, name)
            if self._bits != o._bits:
                return fresh(max(self._bits, o._bits), name + "-mixed-widths")
            r = fresh(self._bits, name)
            c.assume((self._mask | o._mask) & ~r._mask == 0)
            return r
        op.__name__ = name
        return op

    class CSI(Real):
        __vf_contract__ = True

        def __init__(self, name=None, bits=0, stride=1, lower_bound=None, upper_bound=None, uninitialized=False, bottom=False, reversed=False):  # noqa: A002
            if reversed:
                raise Unsupported("reversed interval constructed (byte reversal is exempt)")
            real = Real(name=name, bits=bits, stride=stride, lower_bound=lower_bound, upper_bound=upper_bound,
                        uninitialized=uninitialized, bottom=bottom, reversed=False)
            if real._reversed:
                raise Unsupported("reversed interval")
            M = 1 << bits
            iw = proxies.get_iw()
            if real._is_bottom:
                mask = z3.BitVecVal(0, M)
            else:
                bits_ = [z3.If(sic.member(z3.BitVecVal(v, iw), real, bits), z3.BitVecVal(1, 1), z3.BitVecVal(0, 1)) for v in range(M)]
                mask = z3.simplify(z3.Concat(*reversed_(bits_))) if M > 1 else z3.simplify(bits_[0])
            object.__setattr__(self, "_bits", bits)
            object.__setattr__(self, "_mask", mask)
            object.__setattr__(self, "_name", real._name)
            object.__setattr__(self, "_reversed", False)
            object.__setattr__(self, "uninitialized", uninitialized)
            object.__setattr__(self, "_built_from", real)

        @classmethod
        def _mk(cls, bits, mask, name=None):
            o = object.__new__(cls)
            object.__setattr__(o, "_bits", bits)
            object.__setattr__(o, "_mask", mask)
            object.__setattr__(o, "_name", name or f"CSI_{next(_ctr)}")
            object.__setattr__(o, "_reversed", False)
            object.__setattr__(o, "uninitialized", False)
            return o

        def __getattr__(self, n):
            if n.startswith("__") and n.endswith("__"):
                raise AttributeError(n)
            if n in ("_lower_bound", "_upper_bound"):
                # representation-dependent: nothing is promised about the bounds of an abstract value (DiscreteStridedIntervalSet
                # book-keeps them, their value never enters a member set)
                return SymInt.fresh(f"opaque{next(_ctr)}{n}", 0, (1 << self._bits) - 1)
            raise Unsupported(f"representation field or uncontracted member '{n}' of an abstract value used by the code under verification")

        def __hash__(self):
            return id(self)

        def __repr__(self):
            return f"<CSI {self._bits} bits>"

        # ---- constructors
        @staticmethod
        def top(bits, name=None, uninitialized=False):
            return CSI._mk(bits, z3.BitVecVal((1 << (1 << bits)) - 1, 1 << bits), name)

        @staticmethod
        def empty(bits):
            return CSI._mk(bits, z3.BitVecVal(0, 1 << bits))

        # ---- structure-preserving
        def copy(self):
            r = CSI._mk(self._bits, self._mask, self._name)
            object.__setattr__(r, "uninitialized", self.uninitialized)
            return r

        def nameless_copy(self):
            return CSI._mk(self._bits, self._mask)

        def normalize(self):
            return self

        @property
        def name(self):
            return self._name

        @property
        def bits(self):
            return self._bits

        @property
        def reversed(self):
            return False

        def __len__(self):
            return self._bits

        # ---- transfer functions (C21): containment
        add = binary("add"); sub = binary("sub"); mul = binary("mul"); udiv = binary("udiv"); sdiv = binary("sdiv")
        __mod__ = binary("__mod__")
        bitwise_or = binary("bitwise_or"); bitwise_and = binary("bitwise_and"); bitwise_xor = binary("bitwise_xor")
        lshift = binary("lshift"); rshift_logical = binary("rshift_logical"); rshift_arithmetic = binary("rshift_arithmetic")
        neg = unary("neg"); bitwise_not = unary("bitwise_not")
        SLT = compare("SLT"); SLE = compare("SLE"); SGT = compare("SGT"); SGE = compare("SGE")
        ULT = compare("ULT"); ULE = compare("ULE"); UGT = compare("UGT"); UGE = compare("UGE"); eq = compare("eq")

        def __rsub__(self, o):
            return coerce(self, o, "rsub").sub(self)

        def concat(self, b):
            c = cur()
            if not isinstance(b, CSI):
                c.check("concat/requires", False, f"concat operand of type {type(b).__name__}", kind="requires")
                raise paths.PathEnd()
            r = fresh(self._bits + b._bits, "concat")
            for x in range(1 << self._bits):
                for y in range(1 << b._bits):
                    c.assume(z3.Implies(z3.And(bit(self._mask, x), bit(b._mask, y)), bit(r._mask, (x << b._bits) | y)))
            return r

        def extract(self, high_bit, low_bit):
            c = cur()
            h, l = proxies.concretize(high_bit), proxies.concretize(low_bit)
            if not (0 <= l <= h < self._bits):
                c.check("extract/requires", False, f"extract({h},{l}) of a {self._bits}-bit value", kind="requires")
                raise paths.PathEnd()
            r = fresh(h - l + 1, "extract")
            for x in range(1 << self._bits):
                c.assume(z3.Implies(bit(self._mask, x), bit(r._mask, (x >> l) & ((1 << (h - l + 1)) - 1))))
            return r

        def _extend(self, new_length, signed, what):
            c = cur()
            n = proxies.concretize(new_length)
            if n < self._bits:
                c.check(f"{what}/requires", False, f"{what}({n}) of a {self._bits}-bit value", kind="requires")
                raise paths.PathEnd()
            if n > 6:
                raise Unsupported("extension beyond 6 bits in the contract universe")
            r = fresh(n, what)
            for x in range(1 << self._bits):
                v = (_sgn(x, self._bits) % (1 << n)) if signed else x
                c.assume(z3.Implies(bit(self._mask, x), bit(r._mask, v)))
            return r

        def zero_extend(self, new_length):
            return self._extend(new_length, False, "zero_extend")

        def sign_extend(self, new_length):
            return self._extend(new_length, True, "sign_extend")

        def agnostic_extend(self, new_length):
            raise Unsupported("agnostic_extend has no member-wise meaning")

        def reverse(self):
            if self._bits % 8 != 0:
                raise Unsupported("byte reversal of a width that is not a multiple of 8 (exempt)")
            c = cur()
            nb = self._bits // 8
            r = fresh(self._bits, "reverse")
            for x in range(1 << self._bits):
                v = int.from_bytes(x.to_bytes(nb, "big"), "little")
                c.assume(z3.Implies(bit(self._mask, x), bit(r._mask, v)))
            return r

        # ---- joins / meets / widening (C22): containment
        union = join("union"); widen = join("widen"); _union = join("_union")

        def intersection(self, o):
            c = cur()
            o = coerce(self, o, "intersection")
            same_bits(self, o, "intersection")
            r = fresh(self._bits, "intersection")
            c.assume((self._mask & o._mask) & ~r._mask == 0)
            return r

        @staticmethod
        def least_upper_bound(*xs):
            c = cur()
            r = fresh(xs[0]._bits, "lub")
            for x in xs:
                c.assume(x._mask & ~r._mask == 0)
            return r

        @property
        def complement(self):
            r = fresh(self._bits, "complement")
            cur().assume(~self._mask & ~r._mask == 0)
            return r

        # ---- queries (C22): exact
        @property
        def is_empty(self):
            return SymBool(self._mask == 0)

        @property
        def is_top(self):
            # True only for the full set; False is always allowed (representation-dependent)
            full = self._mask == z3.BitVecVal((1 << (1 << self._bits)) - 1, 1 << self._bits)
            return cur().choose([full, True], "is_top") == 0

        @property
        def is_integer(self):
            return SymBool(popcount(self._mask, 8) == 1)

        @property
        def cardinality(self):
            iw = proxies.get_iw()
            return SymInt(popcount(self._mask, iw))

        @property
        def n_values(self):
            return self.cardinality

        def eval(self, n, signed=False):
            c = cur()
            n = proxies.concretize(n)
            iw = proxies.get_iw()
            card = popcount(self._mask, iw)
            alts = [card == k for k in range(n)] + [card >= n]
            k = c.choose(alts, "eval-count")
            out = []
            for i in range(k):
                v = SymInt.fresh(f"ev{next(_ctr)}", 0, (1 << self._bits) - 1)
                c.assume(bit_sym(self._mask, v.z))
                out.append(v)
            if len(out) > 1:
                c.assume(z3.Distinct(*[v.z for v in out]))
            if signed:
                out = [SymInt(sic.sx(v.z, self._bits)) for v in out]
            return out

        def _extremum(self, signed, want_max):
            c = cur()
            if c.branch(self._mask == 0, "empty"):
                return None
            w = self._bits
            v = SymInt.fresh(f"ext{next(_ctr)}", 0, (1 << w) - 1)
            c.assume(bit_sym(self._mask, v.z))
            key = (lambda t: _sgn(t, w)) if signed else (lambda t: t)
            kz = sic.sx(v.z, w) if signed else v.z
            for x in range(1 << w):
                c.assume(z3.Implies(bit(self._mask, x), (kz >= key(x)) if want_max else (kz <= key(x))))
            return SymInt(kz)

        def min(self, signed=False):
            return self._extremum(signed, False)

        def max(self, signed=False):
            return self._extremum(signed, True)

        def solution(self, b):
            if isinstance(b, CSI):
                raise ClaripyOperationError("Oops, Strided intervals cannot be passed as parameter to function solution.")
            bz = _bv(b)
            return SymBool(bit_sym(self._mask, bz & ((1 << self._bits) - 1)))

        def identical(self, o):
            # True only for equal member sets
            if not isinstance(o, CSI) or o._bits != self._bits:
                return False
            return cur().choose([self._mask == o._mask, True], "identical") == 0

        def stridedinterval(self):
            return self

    def reversed_(xs):
        return list(xs)[::-1]

    _cache["CSI"] = CSI
    _cache["ns"] = ns
    return CSI


def sym(name, bits, nonempty=False):
    """an arbitrary abstract value of the given width"""
    CSI = load()
    m = z3.BitVec(f"{name}_mask", 1 << bits)
    c = cur()
    c.watch[f"{name}_mask"] = m
    if nonempty:
        c.assume(m != 0)
    return CSI._mk(bits, m, name)


def sym_member(name, a):
    """a symbolic member of gamma(a) as a z3 term of a.bits bits (ends the path if a is empty)"""
    c = cur()
    v = z3.BitVec(name, a._bits)
    c.watch[name] = v
    c.assume(bit_sym(a._mask, v))
    if not c.path_feasible():
        raise paths.PathEnd()
    return v


def contains(obj, v):
    """z3 Bool: the w-bit term v is in gamma(obj) (obj a contract value)"""
    return bit_sym(obj._mask, v)


def describe_mask(m, bits):
    return sorted(v for v in range(1 << bits) if (m >> v) & 1)
