"""ConstrainedFrontend.simplify (C09: the model set is unchanged; C07: constraints carrying a
SimplificationAvoidanceAnnotation are left untouched), real code on symbolic constraint nodes."""
from __future__ import annotations

import z3

from vf.engine import loader, paths, proxies, symnode as SN
from vf.engine.paths import cur, explore, Undecided, PathEnd

_c = {}


def load_cf():
    if "cf" not in _c:
        def simplify_contract(e):
            # contract of algorithm.simplify: an equivalent expression of undecided shape
            r = SN.new_node(("bool",), label="simp")
            cur().assume(r.den == e.den)
            return r
        _c["cf"] = loader.load("claripy/frontend/constrained_frontend.py", "claripy.frontend.constrained_frontend",
                               overrides={"And": lambda *a: SN.mk("And", *a), "Or": lambda *a: SN.mk("Or", *a), "simplify": simplify_contract})
    return _c["cf"]


def ob_simplify(tier="quick"):
    ns = load_cf()
    CF = ns["ConstrainedFrontend"]
    from claripy.annotation import SimplificationAvoidanceAnnotation, Annotation
    proxies.set_iw(24)

    def body(c):
        s = object.__new__(CF)
        n = c.choose([True] * 4, "n-constraints")
        cons = []
        saa = SimplificationAvoidanceAnnotation()
        from vf.contracts import annos as AN
        uni = [saa, AN.UNIVERSE[1], AN.UNIVERSE[2]]
        for i in range(n):
            node = SN.new_node(("bool",), label="root_c")
            # any set of annotations: the avoidance annotation and/or annotations of other kinds
            k = c.choose([True] * (1 << len(uni)), f"annotations{i}")
            node._annos = tuple(a for j, a in enumerate(uni) if k >> j & 1)
            cons.append(node)
        s.constraints = list(cons)
        c.describers.append(lambda m: {"annotations": [[uni.index(a) for a in x._annos] for x in cons]})
        before = z3.And(*[x.den for x in cons]) if cons else z3.BoolVal(True)
        try:
            r = s.simplify()
        except (PathEnd, Undecided):
            raise
        except Exception as ex:  # noqa
            c.fail("ConstrainedFrontend.simplify/raises", f"{type(ex).__name__}: {ex}", kind="raises")
            return "raised"
        after_nodes = list(s.constraints)
        if not all(isinstance(x, SN.SymBoolN) for x in after_nodes):
            c.fail("ConstrainedFrontend.simplify/type", "constraints are not all Bool expressions afterwards")
            return "type"
        after = z3.And(*[x.den for x in after_nodes]) if after_nodes else z3.BoolVal(True)
        c.check("ConstrainedFrontend.simplify/models-unchanged", before == after, "simplify() changed the model set of the constraints")
        c.n_vcs += 1
        for x in cons:
            if saa in x._annos and not any(y is x for y in after_nodes):
                c.fail("ConstrainedFrontend.simplify/avoidance-annotation", "a constraint carrying a SimplificationAvoidanceAnnotation was rewritten or dropped", kind="C07")
        if r is not s.constraints:
            c.fail("ConstrainedFrontend.simplify/returns-constraints", "return value is not the constraint list")
        return f"n={n}"

    return explore(body, {"budget_s": 300, "max_depth": 2000, "max_arity": 3, "nested_arity": 2, "replay": replay_simplify})


def replay_simplify(failure):
    """the real ConstrainedFrontend.simplify on real Boolean variables carrying the counter-model's annotation sets"""
    import claripy
    import z3 as _z3
    from claripy.annotation import SimplificationAvoidanceAnnotation
    from claripy.frontend.constrained_frontend import ConstrainedFrontend
    from vf.contracts import annos as AN
    uni = [SimplificationAvoidanceAnnotation(), AN.UNIVERSE[1], AN.UNIVERSE[2]]
    cons = []
    for i, idx in enumerate(failure["witness"]["annotations"]):
        x = claripy.BoolS(f"rc{i}", explicit_name=True)
        cons.append(x.annotate(*[uni[j] for j in idx]) if idx else x)
    cf = ConstrainedFrontend()
    cf.constraints = list(cons)
    try:
        cf.simplify()
    except Exception as e:  # noqa
        return {"reproduced": True, "text": f"ConstrainedFrontend.simplify raised {type(e).__name__}: {e}"}
    conv = claripy.backends.z3.convert
    zs = _z3.Solver(ctx=conv(claripy.true()).ctx)
    T = conv(claripy.true())
    zs.add(_z3.And(T, *[conv(x) for x in cons]) != _z3.And(T, *[conv(x) for x in cf.constraints]))
    r = zs.check()
    desc = f"constraints {[(repr(x), x.annotations) for x in cons]} -> simplify() -> {cf.constraints!r}"
    if r == _z3.sat:
        return {"reproduced": True, "text": f"{desc}: the model set changed, e.g. {zs.model()}"}
    return {"reproduced": False, "text": f"{desc}: z3 says {r} for a difference"}
