"""ConstrainedFrontend.simplify (C09: the model set is unchanged; C07: constraints carrying a
SimplificationAvoidanceAnnotation are left untouched), real code on symbolic constraint nodes."""
from __future__ import annotations

import z3

from vf.engine import loader, paths, proxies, symnode as SN
from vf.engine.paths import cur, explore, Undecided, PathEnd

_c = {}


def load_cf():
    if "cf" not in _c:
        def simplify_contract(e):
            # contract of algorithm.simplify: an equivalent expression of undecided shape
            r = SN.new_node(("bool",), label="simp")
            cur().assume(r.den == e.den)
            return r
        _c["cf"] = loader.load("claripy/frontend/constrained_frontend.py", "claripy.frontend.constrained_frontend",
                               overrides={"And": lambda *a: SN.mk("And", *a), "Or": lambda *a: SN.mk("Or", *a), "simplify": simplify_contract})
    return _c["cf"]


def ob_simplify(tier="quick"):
    ns = load_cf()
    CF = ns["ConstrainedFrontend"]
    from claripy.annotation import SimplificationAvoidanceAnnotation, Annotation
    proxies.set_iw(24)

    def body(c):
        s = object.__new__(CF)
        n = c.choose([True] * 4, "n-constraints")
        cons = []
        saa = SimplificationAvoidanceAnnotation()
        for i in range(n):
            node = SN.new_node(("bool",), label="root_c")
            k = c.choose([True, True], f"annotated{i}")
            node._annos = (saa,) if k else ()
            cons.append(node)
        s.constraints = list(cons)
        before = z3.And(*[x.den for x in cons]) if cons else z3.BoolVal(True)
        try:
            r = s.simplify()
        except (PathEnd, Undecided):
            raise
        except Exception as ex:  # noqa
            c.fail("ConstrainedFrontend.simplify/raises", f"{type(ex).__name__}: {ex}", kind="raises")
            return "raised"
        after_nodes = list(s.constraints)
        if not all(isinstance(x, SN.SymBoolN) for x in after_nodes):
            c.fail("ConstrainedFrontend.simplify/type", "constraints are not all Bool expressions afterwards")
            return "type"
        after = z3.And(*[x.den for x in after_nodes]) if after_nodes else z3.BoolVal(True)
        c.check("ConstrainedFrontend.simplify/models-unchanged", before == after, "simplify() changed the model set of the constraints")
        c.n_vcs += 1
        for x in cons:
            if x._annos and not any(y is x for y in after_nodes):
                c.fail("ConstrainedFrontend.simplify/avoidance-annotation", "a constraint carrying a SimplificationAvoidanceAnnotation was rewritten or dropped", kind="C07")
        if r is not s.constraints:
            c.fail("ConstrainedFrontend.simplify/returns-constraints", "return value is not the constraint list")
        return f"n={n}"

    return explore(body, {"budget_s": 300, "max_depth": 2000, "max_arity": 3, "nested_arity": 2})
