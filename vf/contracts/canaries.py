"""Vacuity guards for the class-in-isolation harnesses (every run): each harness is run once more with ONE method of the loaded real class
replaced by a deliberately wrong variant (the kind of slip the obligation exists for).  The obligation must then FAIL; if it still discharges,
the harness has gone vacuous (a contradictory assumption, a state generator that produces nothing, a postcondition that checks nothing) and the
canary obligation fails instead.  The wrong variants live here, never in /repo."""
from __future__ import annotations

from vf.engine import paths
from vf.engine.paths import explore


def _expect_violation(name, run, bad):
    try:
        r = run()
    except Exception as e:  # noqa
        bad.append(f"{name}: harness crashed: {type(e).__name__}: {e}")
        return
    st = r.status if hasattr(r, "status") else r.get("status")
    if st != "violated":
        bad.append(f"{name}: {st}")


def ob_canaries(tier="quick"):
    bad = []

    # ---- ReplacementFrontend: a query that records an unimplied replacement; a branch that shares the dictionaries
    from vf.contracts import replfront
    ns = replfront.load_rf({})
    RF = ns["ReplacementFrontend"]
    _orig_load = replfront.load_rf
    try:
        def patched(holder, attr, fn):
            n_ = _orig_load(holder)
            setattr(n_["ReplacementFrontend"], attr, fn)
            return n_
        replfront.load_rf = lambda holder: patched(holder, "eval", lambda self, e, n, extra_constraints=(), exact=None: _wrong_eval(self, e, n, extra_constraints, exact))

        def _wrong_eval(self, e, n, extra_constraints, exact):
            er = self._replacement(e)
            ecr = self._replace_list(extra_constraints)
            r = self._actual_frontend.eval(er, n, extra_constraints=ecr, exact=exact)
            self._replacements[e.hash()] = replfront.const_bv("guess")
            return r
        _expect_violation("replacement.eval records an unimplied replacement", lambda: replfront.ob_replacement("eval", tier), bad)

        def _wrong_copy(self, c):
            c.constraints = list(self.constraints)
            c.constraints_wo_annotations = set(self.constraints_wo_annotations)
            c.variables = set(self.variables)
            self._actual_frontend._copy(c._actual_frontend)
            c._replacements = self._replacements
            c._replacement_cache = dict(self._replacement_cache)
        replfront.load_rf = lambda holder: patched(holder, "_copy", _wrong_copy)
        _expect_violation("replacement._copy shares _replacements", lambda: replfront.ob_replacement("_copy", tier), bad)
    finally:
        replfront.load_rf = _orig_load

    # ---- HybridFrontend: one approximate frontend for all pieces of a split
    from vf.contracts import hybrid
    hns = hybrid.load()
    HF = hns["HybridFrontend"]
    real_split = HF.split

    def wrong_split(self):
        a = self._approximate_frontend.blank_copy()
        out = []
        for e in self._exact_frontend.split():
            a.add(e.constraints)
            out.append(HF(e, a))
        return out
    HF.split = wrong_split
    try:
        _expect_violation("hybrid.split shares the approximate frontend", lambda: hybrid.ob_hybrid("split", tier), bad)
    finally:
        HF.split = real_split

    # ---- FullFrontend: the branch forgets the pending constraints
    from vf.contracts import fullfront
    FF = fullfront.load()["FullFrontend"]
    real_ffcopy = FF._copy

    def wrong_ffcopy(self, c):
        real_ffcopy(self, c)
        c._to_add = []
    FF._copy = wrong_ffcopy
    try:
        _expect_violation("fullfrontend.branch forgets pending constraints", lambda: fullfront.ob_fullfront("branch", tier), bad)
    finally:
        FF._copy = real_ffcopy

    # ---- CompositeFrontend: _claim never copies
    from vf.contracts import composite
    CF = composite.load()["CompositeFrontend"]
    real_claim = CF._claim
    CF._claim = lambda self, s: s
    try:
        _expect_violation("composite._claim never copies", lambda: composite.ob_composite("_add", tier), bad)
    finally:
        CF._claim = real_claim

    # ---- ConstrainedFrontend.combine drops the others; ModelCacheMixin.combine ignores overlap
    from vf.contracts import mergesplit
    CFr = mergesplit.load_cf()["ConstrainedFrontend"]
    real_combine = CFr.combine

    def wrong_combine(self, others):
        c = self.blank_copy()
        c.add(self.constraints)
        return c
    CFr.combine = wrong_combine
    try:
        _expect_violation("frontend.combine drops the others", lambda: mergesplit.ob_combine(tier), bad)
    finally:
        CFr.combine = real_combine

    # ---- strings: an off-by-one substring
    from vf.contracts import strfold
    st, bv, BZ = strfold.load()
    real_sub = st["StrSubstr"]
    SV = st["StringV"]
    st["StrSubstr"] = lambda start_idx, count, initial_string: SV(initial_string.value[start_idx.value: start_idx.value + count.value + 1])
    try:
        _expect_violation("strings.StrSubstr off by one", lambda: strfold.ob_fold("StrSubstr", tier), bad)
    finally:
        st["StrSubstr"] = real_sub

    def body(c):
        c.check("canaries/all-fail", not bad, "harnesses that did not notice a deliberately wrong method: " + "; ".join(bad))
        return "ok"
    return explore(body, {"budget_s": 60})
