"""C17 / C11 / C14: the solver-facing functions of claripy/backends/backend_z3.py, real code over a ghost solver.

z3_solver_sat   : with solver.check() returning an arbitrary member of {sat, unsat, unknown} and an arbitrary
                  reason: returns True/False exactly for sat/unsat, raises a claripy error (or KeyboardInterrupt for the
                  two 'interrupted' reasons) for unknown - never an answer.
_batch_eval     : z3_solver_sat by contract (may raise at EVERY call position): on every exit, normal or exceptional,
                  the solver's push/pop depth is what it was on entry and no blocking clause is left (C17, C14);
                  on normal exit the results are feasible, pairwise distinct and complete when fewer than n (C11).
_extrema        : z3_solver_sat by contract over a ghost feasible set (any subset of the 2^w values): the binary
                  search returns the true optimum in the requested signedness (C11); loop runs <= w+1 times.
"""
from __future__ import annotations

import z3

from vf.engine import loader, paths, proxies
from vf.engine.paths import cur, explore, Undecided, PathEnd
from vf.engine.proxies import SymBool, SymInt
from vf.contracts import gcguard
from claripy.errors import ClaripyError, ClaripySolverInterruptError, ClaripyZ3Error

REASONS = ["timeout", "max. resource limit exceeded", "max. memory exceeded", "canceled", "(incomplete quantifiers)", "interrupted from keyboard", "interrupted", "unknown"]


def _ns():
    ns = gcguard.load()
    return ns


def ob_solver_sat():
    ns = _ns()
    import z3 as realz3

    def body(c):
        k = c.choose([True, True, True, True], "check-result")          # sat / unsat / unknown / check() itself raises a Z3Exception
        ri = c.choose([True] * len(REASONS), "reason") if k == 2 else 0

        class Solver:
            def check(self, *a):
                if k == 3:
                    # observed: the sequence solver gives up with Z3Exception(b'reached max unfolding') out of check()
                    raise realz3.Z3Exception(b"reached max unfolding")
                return [realz3.sat, realz3.unsat, realz3.unknown][k]

            def reason_unknown(self):
                return REASONS[ri]
        c.n_vcs += 1
        try:
            r = ns["z3_solver_sat"](Solver(), (), "test")
        except (PathEnd, Undecided):
            raise
        except (ClaripySolverInterruptError, ClaripyZ3Error) as ex:
            if k not in (2, 3):
                c.fail("z3_solver_sat/error-only-for-unknown", f"raised {type(ex).__name__} although the solver answered")
            c.check("z3_solver_sat/claripy-error", True)
            return f"raises:{type(ex).__name__}"
        except KeyboardInterrupt:
            if not (k == 2 and REASONS[ri].startswith("interrupted")):
                c.fail("z3_solver_sat/keyboardinterrupt-only-for-interrupted", "KeyboardInterrupt for a reason other than an interrupt")
            c.check("z3_solver_sat/interrupted", True)
            return "raises:KeyboardInterrupt"
        except BaseException as ex:  # noqa
            if k == 3 and isinstance(ex, realz3.Z3Exception):
                c.fail("z3_solver_sat/giving-up-is-a-claripy-error", "the solver gave up by raising Z3Exception out of check(); it escapes as a raw z3.Z3Exception instead of a claripy error",
                       kind="ensures_exc")
                return "raw-z3exception"
            c.fail("z3_solver_sat/raises", f"{type(ex).__name__}: {ex}", kind="raises")
            return "raised"
        if k == 2:
            c.fail("z3_solver_sat/no-answer-when-unknown", f"returned {r!r} although the solver gave up ({REASONS[ri]})")
        elif r is not (k == 0):
            c.fail("z3_solver_sat/exact", f"returned {r!r} for {['sat', 'unsat'][k]}")
        c.check("z3_solver_sat/answer", True)
        return f"ret:{r}"

    return explore(body, {"budget_s": 60, "replay": replay_raw_z3exception})


def replay_raw_z3exception(failure=None):
    """native (the witness of the former finding rtc:strings/raw-z3exception): a string constraint set on which the sequence solver gives up"""
    if "giving-up-is-a-claripy-error" not in str((failure or {}).get("label")):
        return {"reproduced": True, "text": "clause on the return value / error class of z3_solver_sat (executed on the real function)"}
    import pickle
    import claripy
    s_, t_ = claripy.StringS("kf_raw_s"), claripy.StringS("kf_raw_t")
    for attempt in range(3):
        s = claripy.SolverStrings()
        s.add(claripy.StrConcat(s_, t_) == claripy.StringV("abc"))
        s.add(claripy.StrLen(t_) == 1)
        try:
            s.satisfiable()
            u = pickle.loads(pickle.dumps(s))
            u.satisfiable(extra_constraints=[s_ == t_])
        except claripy.errors.ClaripyError:
            continue
        except Exception as e:  # noqa
            return {"reproduced": True, "text": f"SolverStrings: add(StrConcat(s, t) == 'abc'); add(StrLen(t) == 1); satisfiable(); pickle round trip; satisfiable(extra=[s == t]) raised {type(e).__module__}.{type(e).__name__}: {e}"}
    return {"reproduced": False, "text": "the string solver did not give up with a raw Z3Exception in three attempts"}


class GhostSolver:
    """push/pop depth and the clauses added at each depth"""
    def __init__(self):
        self.frames = [[]]

    def push(self):
        self.frames.append([])

    def pop(self, n=1):
        for _ in range(n):
            if len(self.frames) <= 1:
                raise RuntimeError("pop without push")
            self.frames.pop()

    def add(self, *cs):
        self.frames[-1].extend(cs)

    def model(self):
        return GhostModel(self)

    @property
    def depth(self):
        return len(self.frames)

    def blocked(self):
        return [x for fr in self.frames for x in fr]


class GhostModel:
    def __init__(self, s):
        self.s = s


W = 2   # value width of the evaluated expression in the _batch_eval universe


class Expr:
    """expression handle; `e != v` / `e == v` build blocking clauses as (kind, value)"""
    def __init__(self, name):
        self.name = name

    def __ne__(self, v):
        return ("ne", self.name, v)

    def __eq__(self, v):
        return ("eq", self.name, v)

    __hash__ = None


def ob_batch_eval(tier="quick"):
    ns = _ns()
    BZ = ns["BackendZ3"]
    proxies.set_iw(12)
    M = 1 << W

    def body(c):
        feas = z3.BitVec("feasible", M)                 # which values of the expression are feasible
        c.watch["feasible"] = feas
        n = 1 + c.choose([True, True, True], "n")
        solver = GhostSolver()
        solver.push()                                    # the caller's own frame must survive
        solver.add(("caller", "frame"))
        depth0 = solver.depth
        frames0 = [list(fr) for fr in solver.frames]
        calls = {"n": 0}
        e = Expr("e")
        state = {"last": None}
        # the caller's extra constraints (none or one): `feasible` is the set of values under the solver's assertions AND the extras, so every
        # check must see the extras - as assumptions or asserted - and the solver must hold exactly what it held at entry afterwards
        extras = (("extra", "x"),) if c.choose([True, True], "n-extra") == 1 else ()

        def sat_contract(s, extra, occasion):
            calls["n"] += 1
            seen = list(extra) + s.blocked()
            if not all(any(x is y for y in seen) for x in extras):
                c.fail("_batch_eval/every-check-sees-the-extra-constraints", "a satisfiability check was made without the caller's extra constraints", kind="call_pre")
            # contract of z3_solver_sat: may give up (raise) at every call; otherwise exact w.r.t. the feasible set
            # minus the values blocked so far
            k = c.choose([True, True], f"solver-gives-up#{calls['n']}")
            if k == 1:
                raise ClaripySolverInterruptError("timeout")
            blocked = [b[2] for b in s.blocked() if isinstance(b, tuple) and b[0] == "ne"]
            alts = []
            for v in range(M):
                if v in blocked:
                    alts.append(False)
                else:
                    alts.append(z3.Extract(v, v, feas) == 1)
            cand = [(v, a) for v, a in enumerate(alts) if a is not False]
            if not cand:
                return False
            none = z3.And(*[z3.Not(a) for _, a in cand])
            i = c.choose([a for _, a in cand] + [none], f"model#{calls['n']}")
            if i == len(cand):
                return False
            state["last"] = cand[i][0]
            return True
        ns2 = dict(ns)
        b = object.__new__(BZ)
        # bind the contract into the function's globals for this path
        ns["z3_solver_sat"] = sat_contract
        b.solve_count = 0 if False else 0
        hooks = []
        try:
            BZ._primitive_from_model = lambda self, model, expr: state["last"]
            BZ._generic_model = lambda self, m: {"e": state["last"]}
            try:
                object.__setattr__(b, "solve_count", 0)
            except Exception:
                pass
            f = BZ._batch_eval
            f = getattr(f, "__wrapped__", f)
            res = None
            exc = None
            try:
                res = ns["__batch_eval_raw__"](b, [e], n, extra_constraints=extras, solver=solver, model_callback=hooks.append)
            except (PathEnd, Undecided):
                raise
            except ClaripyError as ex:
                exc = ex
            except Exception as ex:  # noqa
                import traceback
                c.fail("_batch_eval/raises", f"{type(ex).__name__}: {ex} {traceback.format_exc()[-300:]}", kind="raises")
                return "raised"
        finally:
            ns["z3_solver_sat"] = ns["__real_z3_solver_sat__"]
        c.n_vcs += 1
        if solver.depth != depth0 or any(isinstance(x, tuple) and x[0] == "ne" for x in solver.blocked()):
            c.fail("_batch_eval/solver-state-restored",
                   f"on {'exceptional' if exc else 'normal'} exit the solver is left at push depth {solver.depth} (entered at {depth0}) with blocking clauses {[x for x in solver.blocked() if x[0] == 'ne']}: "
                   "they stay in a solver object that branches share", kind="ensures_exc")
        same = len(solver.frames) == len(frames0) and all(len(a) == len(b_) and all(x is y for x, y in zip(a, b_)) for a, b_ in zip(solver.frames, frames0))
        if not same:
            c.fail("_batch_eval/solver-holds-exactly-what-it-held-at-entry",
                   f"on {'exceptional' if exc else 'normal'} exit the solver's assertions per frame are {solver.frames}, at entry {frames0}: whatever the query asserted "
                   "(blocking clauses, the caller's extra constraints) stays in a solver object that branches share", kind="ensures_exc")
        if exc is not None:
            c.check("_batch_eval/exceptional-exit", True)
            return "exc"
        vals = [r[0] for r in res]
        for v in vals:
            c.check("_batch_eval/feasible", z3.Extract(v, v, feas) == 1, "returned an infeasible value")
        if len(set(vals)) != len(vals):
            c.fail("_batch_eval/distinct", f"duplicate results {vals}")
        if len(vals) > n:
            c.fail("_batch_eval/count", "more results than requested")
        if len(vals) < n:
            rest = [z3.Extract(v, v, feas) == 0 for v in range(M) if v not in vals]
            c.check("_batch_eval/complete", z3.And(*rest) if rest else True, "fewer results than requested although more feasible values exist")
        return f"n={n},k={len(vals)}"

    # unwrap the condom decorator once (the GC guard has its own obligations, C19)
    BZ_batch = BZ.__dict__["_batch_eval"]
    raw = BZ_batch
    while getattr(raw, "__closure__", None):
        inner = [cell.cell_contents for cell in raw.__closure__ if callable(cell.cell_contents)]
        if not inner:
            break
        raw = inner[0]
    ns["__batch_eval_raw__"] = raw
    ns.setdefault("__real_z3_solver_sat__", ns["z3_solver_sat"])
    return explore(body, {"budget_s": 300, "max_depth": 2000, "max_failures": 2})


class HExpr(Expr):
    """a Z3 term in a batch: hash() is Z3_get_ast_hash (32 bits: two different terms may share it - by choice per path)"""
    def __init__(self, name, h):
        super().__init__(name)
        self.h = h

    def __hash__(self):
        return self.h


def ob_batch_eval_tuple(tier="quick"):
    """the result construction of the real _batch_eval for a batch of several terms (and literals): each result tuple holds, position by
    position, the value THE MODEL gives to THAT term (literals unchanged) - also when two different terms of the batch have the same Z3 hash"""
    ns = _ns()
    BZ = ns["BackendZ3"]
    proxies.set_iw(12)

    def body(c):
        collide = c.choose([True, True], "the-two-terms-share-their-z3-hash") == 1
        e1, e2 = HExpr("e1", 11), HExpr("e2", 11 if collide else 12)
        same_term_twice = c.choose([True, True], "batch-repeats-a-term") == 1
        exprs = [e1, e2, 7] + ([e1] if same_term_twice else [])
        vals = {"e1": SymInt.fresh("v1", 0, 3), "e2": SymInt.fresh("v2", 0, 3)}
        solver = GhostSolver()
        solver.push()
        b = object.__new__(BZ)
        calls = {"n": 0}

        def sat_contract(s, extra, occasion):
            calls["n"] += 1
            return calls["n"] == 1          # exactly one model

        ns["z3_solver_sat"] = sat_contract
        try:
            BZ._primitive_from_model = lambda self, model, expr: vals[expr.name]        # contract: the model's value of that term
            BZ._generic_model = lambda self, m: dict(vals)
            try:
                object.__setattr__(b, "solve_count", 0)
            except Exception:  # noqa
                pass
            try:
                res = ns["__batch_eval_raw__"](b, exprs, 1, extra_constraints=(), solver=solver, model_callback=None)
            except (PathEnd, Undecided):
                raise
            except Exception as ex:  # noqa
                import traceback
                c.fail("_batch_eval[tuple]/raises", f"{type(ex).__name__}: {ex} {traceback.format_exc()[-300:]}", kind="raises")
                return "raised"
        finally:
            ns["z3_solver_sat"] = ns["__real_z3_solver_sat__"]
        c.n_vcs += 1
        if len(res) != 1 or len(res[0]) != len(exprs):
            c.fail("_batch_eval[tuple]/shape", f"{len(res)} results, first of length {len(res[0]) if res else None} for {len(exprs)} expressions")
            return "shape"
        for pos, (x, got) in enumerate(zip(exprs, res[0])):
            want = vals[x.name] if isinstance(x, HExpr) else x
            if isinstance(want, SymInt):
                ok = isinstance(got, SymInt) and got is want
                c.check("_batch_eval[tuple]/position-holds-the-models-value-of-that-term", proxies._bv(got) == proxies._bv(want) if isinstance(got, (SymInt, int)) else False,
                        f"position {pos} (term {x.name}) holds the value of another term")
            elif got != want:
                c.fail("_batch_eval[tuple]/literal-unchanged", f"position {pos}: literal {want!r} became {got!r}")
        return f"collide={collide}"

    BZ_batch = BZ.__dict__["_batch_eval"]
    raw = BZ_batch
    while getattr(raw, "__closure__", None):
        inner = [cell.cell_contents for cell in raw.__closure__ if callable(cell.cell_contents)]
        if not inner:
            break
        raw = inner[0]
    ns["__batch_eval_raw__"] = raw
    ns.setdefault("__real_z3_solver_sat__", ns["z3_solver_sat"])
    return explore(body, {"budget_s": 120, "replay": replay_batch_collision})


def replay_batch_collision(failure=None):
    """native: two different terms x + i, x + j with the same Z3 hash in one batch"""
    import claripy
    x = claripy.BVS("kf_batch_x", 64, explicit_name=True)
    zb = claripy.backends.z3
    seen, pair = {}, None
    for i in range(200000):
        h = hash(zb.convert(x + i))
        if h in seen:
            pair = (seen[h], i)
            break
        seen[h] = i
    if pair is None:
        return {"reproduced": False, "text": "no two candidate terms share a Z3 hash"}
    i, j = pair
    s = claripy.SolverCacheless()
    s.add(claripy.ULT(x, 4))
    res = s.batch_eval([x + i, x + j], 8)
    bad = [t for t in res if (t[1] - t[0]) % (1 << 64) != (j - i)]
    return {"reproduced": bool(bad), "text": f"SolverCacheless: add(x <u 4); batch_eval([x + {i}, x + {j}], 8) [the two terms share their Z3 hash] = {sorted(res)}"
            + (f": {bad[0]} is realised by no model" if bad else ": every tuple is realised by a model")}


def ob_extrema(w=3, tier="quick"):
    ns = _ns()
    BZ = ns["BackendZ3"]
    proxies.set_iw(16)
    M = 1 << w

    def body(c):
        feas = z3.BitVec("feasible", M)
        c.watch["feasible"] = feas
        is_max = c.choose([True, True], "is_max") == 0
        signed = c.choose([True, True], "signed") == 1
        ctx = z3.main_ctx()
        expr = z3.BitVec("extrema_e", w, ctx)
        solver = GhostSolver()
        calls = {"n": 0}
        # the caller's extra constraints: none, or one that cuts the value range (the optimum is then the optimum among the values that are
        # feasible AND satisfy it; the solver must not keep it afterwards)
        kx = c.choose([True] * 3, "extra-constraint")
        extras = () if kx == 0 else ((z3.ULT(expr, z3.BitVecVal(M - 2, w, ctx)),) if kx == 1 else (expr != z3.BitVecVal(M // 2, w, ctx),))

        def holds(cons, v):
            val = z3.BitVecVal(v, w, ctx)
            return all(z3.is_true(z3.simplify(z3.substitute(k, (expr, val)))) for k in cons)

        def sat_contract(s, cons, occasion):
            calls["n"] += 1
            if calls["n"] > w + 2:
                raise Undecided("binary search made more than w+2 checks")
            # C17: the check may give up (raise) at every position
            if c.choose([True, True], f"solver-gives-up#{calls['n']}") == 1:
                raise ClaripySolverInterruptError("timeout")
            cons = list(cons) + [x for x in s.blocked() if z3.is_expr(x)]      # what was asserted into the solver counts too
            okv = [v for v in range(M) if holds(cons, v)]
            cond = z3.Or(*[z3.Extract(v, v, feas) == 1 for v in okv]) if okv else z3.BoolVal(False)
            return bool(SymBool(cond))
        ns.setdefault("__real_z3_solver_sat__", ns["z3_solver_sat"])
        ns["z3_solver_sat"] = sat_contract
        b = object.__new__(BZ)
        BZ._generic_model = lambda self, m: {}
        BZ.convert = lambda self, e: e
        try:
            try:
                object.__setattr__(b, "solve_count", 0)
            except Exception:
                pass
            solver.push()
            solver.add(("caller", "frame"))
            depth0, blocked0 = solver.depth, list(solver.blocked())
            exc = None
            try:
                allowed = [v for v in range(M) if holds(extras, v)]
                c.assume(z3.Or(*[z3.Extract(v, v, feas) == 1 for v in allowed]))        # FullFrontend checks satisfiability (with the extras) first
                if not c.path_feasible():
                    raise PathEnd()
                r = b._extrema(is_max, expr, extras, signed, solver, None)
            except ClaripyError as ex:
                exc = ex
            c.n_vcs += 1
            if solver.depth != depth0 or solver.blocked() != blocked0:
                c.fail("_extrema/solver-state-restored",
                       f"on {'exceptional' if exc else 'normal'} exit the solver is left at push depth {solver.depth} (entered at {depth0}) holding "
                       f"{[str(x) for x in solver.blocked() if x not in blocked0]}: they stay in a solver object that branches share", kind="ensures_exc")
            if exc is not None:
                c.check("_extrema/exceptional-exit", True)
                return "exc"
        except (PathEnd, Undecided):
            raise
        except Exception as ex:  # noqa
            import traceback
            c.fail("_extrema/raises", f"{type(ex).__name__}: {ex} {traceback.format_exc()[-300:]}", kind="raises")
            return "raised"
        finally:
            ns["z3_solver_sat"] = ns["__real_z3_solver_sat__"]
        rv = proxies.concretize(r) if isinstance(r, SymInt) else r
        pat = rv % M
        key = (lambda v: v - M if (signed and v >= M // 2) else v)
        c.check("_extrema/feasible", z3.And(z3.Extract(pat, pat, feas) == 1, z3.BoolVal(holds(extras, pat))), f"{'max' if is_max else 'min'} returned {rv}, which is not a feasible value (under the extra constraints)")
        better = [v for v in range(M) if (key(v) > key(pat) if is_max else key(v) < key(pat)) and holds(extras, v)]
        c.check("_extrema/optimum", z3.And(*[z3.Extract(v, v, feas) == 0 for v in better]) if better else True,
                f"{'max' if is_max else 'min'} returned {rv} although a better feasible value exists")
        if signed and not (-(M // 2) <= rv < M // 2) or (not signed and not (0 <= rv < M)):
            c.fail("_extrema/range", f"result {rv} outside the {'signed' if signed else 'unsigned'} range")
        return f"{'max' if is_max else 'min'}:{'s' if signed else 'u'}"

    return explore(body, {"budget_s": 600, "max_depth": 2000, "max_failures": 2})


def ob_tracked_add(tier="quick"):
    """BackendZ3.add(s, constraints, track=True): afterwards the term->expression table maps the Z3 term of every tracked
    constraint to THAT constraint, whatever the table held before (another expression with the same Z3 term, tracked by an
    earlier solver or produced by an earlier abstraction).  unsat_core() abstracts the core's Z3 terms through this table, so
    this is what makes a core element 'a constraint that was added to this solver' (C16)."""
    ns = _ns()
    BZ = ns["BackendZ3"]
    proxies.set_iw(12)

    def body(c):
        n = 1 + c.choose([True, True], "n-constraints")
        cons = [f"<claripy constraint {i}>" for i in range(n)]
        # Z3 terms: two constraints may or may not share a term
        share = n == 2 and c.choose([True, True], "same-z3-term") == 1
        terms = ["term0", "term0" if share else "term1"][:n]

        class Nice:
            def __init__(self, t):
                self.ast = t
        b = object.__new__(BZ)
        pre = c.choose([True, True, True], "table-before")      # empty / holds another expression for term0 / holds this very expression
        table = {}
        if pre == 1:
            table[hash("term0")] = ("<another expression with the same Z3 term>", "term0")
        elif pre == 2:
            table[hash("term0")] = (cons[0], "term0")
        calls = []
        BZ.convert_list = lambda self, cs: [Nice(t) for t in terms]
        BZ._z3_ast_hash = staticmethod(lambda ast: hash(ast))
        BZ._add = lambda self, s, cs, track=False: calls.append((s, [x.ast for x in cs], track))
        try:
            BZ._ast_cache = table
        except Exception:  # noqa
            pass
        try:
            object.__setattr__(b, "_ast_cache", table)
        except Exception:  # noqa
            pass
        track = c.choose([True, True], "track") == 1
        f = BZ.__dict__["add"]
        f = getattr(f, "__wrapped__", f)
        try:
            f(b, "solver", cons, track=track)
        except (PathEnd, Undecided):
            raise
        except Exception as ex:  # noqa
            import traceback
            c.fail("BackendZ3.add/raises", f"{type(ex).__name__}: {ex} {traceback.format_exc()[-300:]}", kind="raises")
            return "raised"
        c.n_vcs += 1
        if calls != [("solver", terms, track)]:
            c.fail("BackendZ3.add/adds-the-converted-constraints", f"_add was called with {calls}")
        if track:
            for i, (a, t) in enumerate(zip(cons, terms)):
                got = table.get(hash(t))
                last = max(j for j in range(n) if terms[j] == t)
                if got is None or got[1] != t or got[0] is not cons[last]:
                    c.fail("BackendZ3.add/tracked-term-maps-to-the-added-constraint",
                           f"after add(track=True) the Z3 term of {a} maps to {got[0] if got else None}: unsat_core() would report an expression "
                           "this solver never received", kind="C16")
        return f"track={track}"

    return explore(body, {"budget_s": 60})


class _Term:
    """a Z3 Boolean term: `ident` is what Z3's hash-consing makes of it (structurally equal terms are ONE term); hash() is Z3_get_ast_hash,
    a 32-bit function of the term - two different terms may have the same hash (the contract allows it); .ast.value is the term's address"""
    def __init__(self, ident, h):
        self.ident, self.h = ident, h
        self.ast = type("Ast", (), {"value": 1000 + ident})()

    def __hash__(self):
        return self.h

    def __eq__(self, o):
        return isinstance(o, _Term) and o.ident == self.ident

    def get_id(self):
        return self.ident

    def __repr__(self):
        return f"<z3 term #{self.ident} hash={self.h}>"


class _Lit:
    def __init__(self, name):
        self.name = name

    def __str__(self):
        return self.name

    def __eq__(self, o):
        return isinstance(o, _Lit) and o.name == self.name

    def __hash__(self):
        return hash(self.name)


class _Impl:
    def __init__(self, lit, term):
        self._ch = [lit, term]

    def children(self):
        return self._ch


class TrackSolver:
    """ghost z3.Solver for tracked assertions: assert_and_track(c, name) records the implication name => c"""
    def __init__(self):
        self.tracked = []          # (name, term)
        self.plain = []
        self.cloned_after = 0      # the first `cloned_after` tracked assertions were made before the solver was cloned

    def assertions(self):
        return [_Impl(_Lit(n), t) for n, t in self.tracked]

    def assert_and_track(self, c, name):
        if any(n == name for n, _ in self.tracked):
            raise ClaripyZ3Error("spec: Z3 rejects a second tracked assertion under the same name")
        self.tracked.append((name, c))

    def add(self, *cs):
        self.plain.extend(cs)

    def unsat_core(self):
        c = cur()
        k = c.choose([True] * (1 << len(self.tracked)), "core-subset")
        self.last_core = [t for i, (n, t) in enumerate(self.tracked) if k >> i & 1]
        # observed Z3 behaviour (4.13): for an assertion that was tracked BEFORE the solver was cloned with translate() - what
        # FullFrontend._get_solver does for a branch - unsat_core() reports the asserted constraint itself, not its tracking literal
        return [(t if i < self.cloned_after else _Lit(n)) for i, (n, t) in enumerate(self.tracked) if k >> i & 1]


def ob_tracked_assertions(tier="quick"):
    """the real BackendZ3._add(s, terms, track=True) and _unsat_core(s) over a ghost solver.
    _add: afterwards EVERY given term is asserted in the solver (a term that is already tracked need not be asserted twice - but a
    DIFFERENT term must never be skipped, whatever Z3's 32-bit term hashes are); nothing else is asserted.
    _unsat_core: returns exactly the terms whose tracking literals Z3 reports."""
    ns = _ns()
    BZ = ns["BackendZ3"]
    proxies.set_iw(12)

    def body(c):
        b = object.__new__(BZ)
        s = TrackSolver()
        # three distinct terms; Z3's hash of the second / third may coincide with an earlier one
        hs = [0, c.choose([True, True], "hash1-collides-with-0"), None]
        hs[1] = 0 if hs[1] == 1 else 1
        k = c.choose([True, True, True], "hash2")
        hs[2] = [2, 0, hs[1]][k]
        terms = [_Term(i, hs[i]) for i in range(3)]
        # the solver already tracks a prefix (an earlier _add call did it, with the real code)
        npre = c.choose([True, True, True], "already-tracked")
        add = getattr(BZ.__dict__["_add"], "__wrapped__", BZ.__dict__["_add"])
        core = getattr(BZ.__dict__["_unsat_core"], "__wrapped__", BZ.__dict__["_unsat_core"])
        try:
            if npre:
                add(b, s, terms[:npre], track=True)
            pre = list(s.tracked)
            again = c.choose([True, True], "re-adds-a-tracked-term") == 1 and npre > 0
            new = terms[npre:] + ([terms[0]] if again else [])
            add(b, s, new, track=True)
        except (PathEnd, Undecided):
            raise
        except Exception as ex:  # noqa
            import traceback
            c.fail("BackendZ3._add[track]/raises", f"{type(ex).__name__}: {ex} {traceback.format_exc()[-300:]}", kind="raises")
            return "raised"
        c.n_vcs += 1
        asserted = [t for _, t in s.tracked] + list(s.plain)
        for t in terms[:npre] + new:
            if not any(a == t for a in asserted):
                c.fail("BackendZ3._add[track]/every-constraint-is-asserted", f"{t!r} was passed to _add(track=True) but is not asserted in the solver "
                       f"(tracked: {s.tracked!r}): the solver answers for a weaker constraint set", kind="C11")
                return "dropped"
        for a in asserted:
            if not any(a == t for t in terms):
                c.fail("BackendZ3._add[track]/nothing-else-is-asserted", f"{a!r} was asserted but never passed")
        if len({n for n, _ in s.tracked}) != len(s.tracked):
            c.fail("BackendZ3._add[track]/names-unique", "two tracked assertions share a name")
        if c.choose([True, True], "solver-was-cloned-in-between") == 1:
            s.cloned_after = len(pre)
        try:
            r = core(b, s)
        except (PathEnd, Undecided):
            raise
        except Exception as ex:  # noqa
            c.fail("BackendZ3._unsat_core/raises", f"{type(ex).__name__}: {ex}", kind="raises")
            return "raised"
        want = s.last_core
        if not (len(r) == len(want) and all(a is b_ for a, b_ in zip(r, want))):
            c.fail("BackendZ3._unsat_core/the-terms-of-the-reported-literals", f"Z3's core consists of {want!r} (cloned after the first {s.cloned_after}); _unsat_core returned {r!r}: "
                       "an incomplete core is a satisfiable subset", kind="C16")
        return f"tracked:{len(s.tracked)}"

    return explore(body, {"budget_s": 120, "replay": replay_tracked})


def replay_tracked(failure=None):
    if "_unsat_core" in str((failure or {}).get("label")):
        return replay_core_after_clone()
    return replay_tracked_collision(failure)


def replay_core_after_clone(failure=None):
    """native: a tracked solver is queried, branched, the branch gets a contradicting constraint: its core must be unsatisfiable"""
    import claripy
    a = claripy.BVS("kf_clone_a", 4, explicit_name=True)
    c1, c2 = claripy.ULT(a, 3), claripy.UGT(a, 5)
    s = claripy.Solver(track=True)
    s.add(c1)
    s.satisfiable()
    b = s.branch()
    b.add(c2)
    sat = b.satisfiable()
    core = list(b.unsat_core())
    chk = claripy.Solver()
    chk.add(core)
    bad = (not sat) and (not core or chk.satisfiable())
    return {"reproduced": bool(bad), "text": f"Solver(track=True): add({c1!r}); satisfiable(); b = branch(); b.add({c2!r}); b.satisfiable() = {sat}; b.unsat_core() = {core!r}"
            + (" - a satisfiable set" if bad else "")}


def replay_tracked_collision(failure=None):
    """native: find two constraints x != i, x != j whose Z3 terms have the same Z3_get_ast_hash (a 32-bit hash: a few thousand candidates are
    enough), then ask a tracked solver about a constraint set that is unsatisfiable only because of the second one"""
    import claripy
    x = claripy.BVS("kf_track_x", 32, explicit_name=True)
    zb = claripy.backends.z3
    seen, pair = {}, None
    for i in range(300000):
        h = hash(zb.convert(x != i))
        if h in seen:
            pair = (seen[h], i)
            break
        seen[h] = i
    if pair is None:
        return {"reproduced": False, "text": "no two of the 300000 candidate constraints have the same Z3 term hash"}
    i, j = pair
    s = claripy.Solver(track=True)
    s.add(x != i)
    s.add(x != j)
    s.add(claripy.UGT(x, j - 1))
    s.add(claripy.ULT(x, j + 1))
    sat = s.satisfiable()
    plain = claripy.Solver()
    plain.add(list(s.constraints))
    return {"reproduced": bool(sat) and not plain.satisfiable(),
            "text": f"Solver(track=True): add(x != {i}); add(x != {j}) [same Z3 term hash]; add(x >u {j - 1}); add(x <u {j + 1}); satisfiable() = {sat}; "
                    f"an untracked Solver with the same constraints: {plain.satisfiable()}" + (f"; eval(x, 1) = {s.eval(x, 1)}" if sat else "")}


def replay_cross_solver_core(f=None):
    """known finding C16: two tracked solvers whose constraints are different expressions with ONE Z3 term - the earlier
    solver's core names the later solver's expression"""
    import claripy
    x = claripy.BVS("kf_core_x", 32, explicit_name=True)
    a1, a2 = claripy.SGT(x, 5), claripy.SLT(5, x)
    A = claripy.Solver(track=True)
    A.add(a1)
    A.add(claripy.SLT(x, 3))
    B = claripy.Solver(track=True)
    B.add(a2)
    B.add(claripy.SLT(x, 2))
    A.satisfiable(), B.satisfiable()
    core = A.unsat_core()
    foreign = [c for c in core if not any(c is k for k in A.constraints)]
    return {"reproduced": bool(foreign), "text": f"A.add({a1!r}); A.add(x <s 3); B.add({a2!r}); B.add(x <s 2); A.unsat_core() = {core!r}; "
            f"not added to A: {foreign!r}"}


THIN = ["_satisfiable", "_solution", "_eval", "_min", "_max"]


def ob_thin_wrappers(which, tier="quick"):
    """the thin query wrappers of BackendZ3 between the public Backend methods and the three functions above.  With z3_solver_sat,
    _batch_eval and _extrema replaced by recording contracts:
      _satisfiable   one check on the caller's solver with exactly the caller's extra constraints; its answer returned; a model is handed to
                     model_callback iff the answer is True; the solver is not touched
      _solution      one check with the caller's extras AND the equation expr == v (nothing else); its answer returned
      _eval          _batch_eval([expr], n, extras, solver, model_callback) - same n, extras, solver - and the first components in order
      _min / _max    _extrema(False / True, expr, extras, signed, solver, model_callback) - same signedness - its result unchanged"""
    ns = _ns()
    BZ = ns["BackendZ3"]
    proxies.set_iw(12)

    def body(c):
        solver = GhostSolver()
        solver.push()
        solver.add(("caller", "frame"))
        frames0 = [list(fr) for fr in solver.frames]
        extras = tuple(("extra", i) for i in range(c.choose([True] * 3, "n-extra")))
        cb_on = c.choose([True, True], "model-callback") == 1
        models = []
        cb = models.append if cb_on else None
        e, v = Expr("e"), ("value", "v")
        calls = []
        b = object.__new__(BZ)
        try:
            object.__setattr__(b, "solve_count", 0)
        except Exception:
            pass

        def sat_contract(s, extra, occasion):
            ans = c.choose([True, True, True], "check-answer")
            calls.append(("sat", s, tuple(extra), ans))
            if ans == 2:
                raise ClaripySolverInterruptError("timeout")
            return ans == 0
        ns.setdefault("__real_z3_solver_sat__", ns["z3_solver_sat"])
        ns["z3_solver_sat"] = sat_contract
        saved = {k: BZ.__dict__.get(k) for k in ("_generic_model", "_batch_eval", "_extrema")}
        BZ._generic_model = lambda self, m: ("generic-model", m)
        rows = [(("row", i), ("other", i)) for i in range(3)]

        def batch_stub(self, exprs, n, extra_constraints=(), solver=None, model_callback=None):
            k = c.choose([True] * 4, "n-rows")
            calls.append(("batch", list(exprs), n, tuple(extra_constraints), solver, model_callback, k))
            return [(rows[i][0],) for i in range(k)]

        def extrema_stub(self, is_max, expr, extra_constraints, signed, solver, model_callback):
            calls.append(("extrema", is_max, expr, tuple(extra_constraints), signed, solver, model_callback))
            return ("optimum", is_max, signed)
        if which == "_eval":
            BZ._batch_eval = batch_stub
        if which in ("_min", "_max"):
            BZ._extrema = extrema_stub
        raised = None
        r = None
        try:
            try:
                if which == "_satisfiable":
                    r = b._satisfiable(extra_constraints=extras, solver=solver, model_callback=cb)
                elif which == "_solution":
                    r = b._solution(e, v, extra_constraints=extras, solver=solver, model_callback=cb)
                elif which == "_eval":
                    n = 1 + c.choose([True] * 3, "n")
                    r = b._eval(e, n, extra_constraints=extras, solver=solver, model_callback=cb)
                else:
                    signed = c.choose([True, True], "signed") == 1
                    r = getattr(b, which)(e, extra_constraints=extras, signed=signed, solver=solver, model_callback=cb)
            except ClaripySolverInterruptError as ex:
                raised = ex
            except (PathEnd, Undecided):
                raise
            except Exception as ex:  # noqa
                import traceback
                c.fail(which + "/raises", f"{type(ex).__name__}: {ex} {traceback.format_exc()[-300:]}", kind="raises")
                return "raised"
        finally:
            ns["z3_solver_sat"] = ns["__real_z3_solver_sat__"]
            for k, f in saved.items():
                if f is not None:
                    setattr(BZ, k, f)
        same = len(solver.frames) == len(frames0) and all(len(a) == len(b_) and all(x is y for x, y in zip(a, b_)) for a, b_ in zip(solver.frames, frames0))
        c.check(which + "/solver-untouched", same, "the wrapper asserted something into (or popped something from) the caller's solver object")
        if which in ("_satisfiable", "_solution"):
            c.check(which + "/one-check", len(calls) == 1 and calls[0][0] == "sat" and calls[0][1] is solver, "not exactly one check on the caller's solver")
            if len(calls) != 1:
                return "bad"
            got = list(calls[0][2])
            want = list(extras) + ([("eq", "e", v)] if which == "_solution" else [])
            c.check(which + "/asks-exactly-the-question", len(got) == len(want) and all(any(g == w_ or g is w_ for g in got) for w_ in want),
                    f"the check was made under {got}, the question is {want}")
            if raised is not None:
                c.check(which + "/gave-up-only-if-the-check-did", calls[0][3] == 2, "ClaripySolverInterruptError although the check answered")
                return "gave-up"
            c.check(which + "/answer", (r is True and calls[0][3] == 0) or (r is False and calls[0][3] == 1), "the answer of the check was changed (or the check gave up and an answer was returned)")
            c.check(which + "/model-only-when-sat", len(models) == (1 if (cb_on and r is True) else 0), "model_callback called without a model or not called with one")
        elif which == "_eval":
            c.check(which + "/one-batch", len(calls) == 1 and calls[0][0] == "batch", "not exactly one _batch_eval")
            if len(calls) != 1:
                return "bad"
            _, exprs, n2, x2, s2, cb2, k = calls[0]
            c.check(which + "/same-question", len(exprs) == 1 and exprs[0] is e and n2 == n and x2 == extras and s2 is solver and cb2 is cb,
                    "_batch_eval was asked something else (expression, n, extra constraints, solver or callback differ)")
            c.check(which + "/first-components-in-order", list(r) == [rows[i][0] for i in range(k)], "the values are not the first components of the rows, in order")
        else:
            c.check(which + "/one-extrema", len(calls) == 1 and calls[0][0] == "extrema", "not exactly one _extrema")
            if len(calls) != 1:
                return "bad"
            _, is_max, e2, x2, sg2, s2, cb2 = calls[0]
            c.check(which + "/same-question", is_max == (which == "_max") and e2 is e and x2 == extras and sg2 == signed and s2 is solver and cb2 is cb,
                    "_extrema was asked something else (direction, expression, extra constraints, signedness, solver or callback differ)")
            c.check(which + "/result-unchanged", r == ("optimum", which == "_max", signed), "the optimum was changed")
        return which
    return explore(body, {"budget_s": 120, "max_depth": 500, "max_failures": 3, "max_paths": 5000})
