"""The thin solver mixins in isolation (C11; also in the stacks of C12 / C13): ConstraintExpansionMixin, SimplifyHelperMixin,
SimplifySkipperMixin, ConstraintDeduplicatorMixin, ConstraintFilterMixin, ConcreteHandlerMixin, EagerResolutionMixin.

`class H(RealMixin, LSpec)`: the real mixin (re-loaded from /repo on every run) sits on top of LSpec, the contract of "the rest of the
stack" (vf.contracts.mixins.MSpec: every query answered nondeterministically within the public specification over a finite universe of
assignments), extended by the contracts of what these mixins call: Frontend.add, _concrete_value / _concrete_constraint, is_true / is_false,
simplify (any equivalent constraint list).  The mixin's own fields start in an arbitrary state satisfying its invariant.  Obligations per
public method: the answer satisfies the PUBLIC specification of C11 for the constraint set at that moment (the same clauses as for
ModelCacheMixin), the model set changes exactly as the operation says (queries: not at all - also when the mixin adds helper constraints;
_add: intersection with the added constraints), and the mixin's invariant holds again.

What is assumed: hash() of a constraint identifies it (C06); expressions are value tables; the universe has UM assignments and WV-bit values."""
from __future__ import annotations

import z3

from vf.engine import loader, proxies
from vf.engine.paths import cur, explore, Undecided, PathEnd
from vf.engine.proxies import SymBool, SymInt
from vf.contracts import mixins as M
from claripy.errors import UnsatError, ClaripyValueError, BackendError, ClaripySolverInterruptError

FID_CONCRETE = "rtc:concrete/answers-on-unsat"


def _all():
    return z3.BitVecVal((1 << M.UM) - 1, M.UM)


class LH(M.MH):
    """constraint / Boolean expression handle; conc: None (depends on the assignment) / True / False (a constant the stack can evaluate)"""
    def __init__(self, mask=None, name="c", conc=None):
        super().__init__(mask=mask, name=name)
        self.conc = conc

    def __repr__(self):
        return f"<{'T' if self.conc is True else 'F' if self.conc is False else 'c'}{self.uid}>"


def F():
    g = cur().ghost
    if "L_FALSE" not in g:
        g["L_FALSE"] = LH(mask=z3.BitVecVal(0, M.UM), name="F", conc=False)
    return g["L_FALSE"]


def sym_constraint(c, name, allow_concrete):
    """a constraint of arbitrary meaning; with allow_concrete also a constant True, the false() node, or another constant False"""
    k = c.choose([True] * (4 if allow_concrete else 1), f"kind-of-{name}")
    if k == 0:
        return LH(name=name)
    if k == 1:
        return LH(mask=_all(), name=name + "T", conc=True)
    if k == 2:
        return F()
    return LH(mask=z3.BitVecVal(0, M.UM), name=name + "F", conc=False)


class CEH(M.EH):
    """a variable-free expression: the same value under every assignment"""
    def __init__(self, name="k"):
        super().__init__(name)
        for t in self.table[1:]:
            cur().assume(t == self.table[0])
        self.variables = frozenset()
        self.conc = self.val(0)


def _cmp_handle(e, v, f, name):
    vz = z3.Extract(M.WV - 1, 0, proxies._bv(v))
    bits = [z3.If(f(e.table[i], vz), z3.BitVecVal(1, 1), z3.BitVecVal(0, 1)) for i in range(M.UM)]
    return LH(mask=z3.Concat(*reversed(bits)) if M.UM > 1 else bits[0], name=name)


def _sk(t):
    return t ^ z3.BitVecVal(1 << (M.WV - 1), M.WV)


def _or(*hs):
    if not hs:
        # the real constructor cannot build an empty disjunction (it raises StopIteration out of the rewriter)
        cur().fail("claripy.Or/precondition", "Or() called with no arguments", kind="precondition")
        raise PathEnd()
    m = z3.BitVecVal(0, M.UM)
    for h in hs:
        m = m | h.mask
    return LH(mask=m, name="or")


class _Claripy:
    Or = staticmethod(_or)
    ULE = staticmethod(lambda e, v: _cmp_handle(e, v, z3.ULE, "ule"))
    UGE = staticmethod(lambda e, v: _cmp_handle(e, v, z3.UGE, "uge"))
    SLE = staticmethod(lambda e, v: _cmp_handle(e, v, lambda a, b: z3.ULE(_sk(a), _sk(b)), "sle"))
    SGE = staticmethod(lambda e, v: _cmp_handle(e, v, lambda a, b: z3.UGE(_sk(a), _sk(b)), "sge"))


class LEH(M.EH):
    """expression handle whose == / != build LH constraints"""
    def __ne__(self, v):
        return _cmp_handle(self, v, lambda a, b: a != b, "ne")

    def __eq__(self, v):
        return _cmp_handle(self, v, lambda a, b: a == b, "eq")

    __hash__ = None


class LCEH(CEH, LEH):
    pass


class LSpec(M.MSpec):
    """MSpec + the contracts of what the thin mixins call on the rest of the stack"""

    def _model_hook(self, m):
        pass

    def add(self, constraints, invalidate_cache=True):
        # Frontend.add: one constraint or a collection; Python bools become BoolV; then self._add (dispatched on the real class)
        constraints = [constraints] if not isinstance(constraints, (list, tuple, set)) else list(constraints)
        if len(constraints) == 0:
            return []
        self.ghost_adds.append(list(constraints))
        return self._add(constraints, invalidate_cache=invalidate_cache)

    def _add(self, constraints, invalidate_cache=True):
        self.ghost_base_adds.append(list(constraints))
        return super()._add(constraints, invalidate_cache=invalidate_cache)

    def simplify(self):
        # an equivalent constraint list (same model set); the returned list IS the new constraint list
        c = cur()
        self.ghost_simplified += 1
        if c.choose([True, True], "simplify-rewrites") == 1:
            self.constraints = [LH(mask=self.U.G, name="simp")]
        return self.constraints

    def _concrete_value(self, e):
        # postcondition of EagerResolutionMixin._concrete_value over Frontend._concrete_value (proved in this module): None, or the
        # constant the expression denotes; None is always allowed (the concrete backend may not support the operation)
        conc = getattr(e, "conc", None)
        if isinstance(e, (int, bool)) and not isinstance(e, SymInt):
            return e
        if isinstance(e, SymInt):
            return e
        if conc is None:
            return None
        return conc if cur().choose([True, True], "concrete-value-found") == 0 else None

    def _concrete_constraint(self, e):
        return self._concrete_value(e)

    def is_true(self, e, extra_constraints=(), exact=None):
        m = self._GXm(extra_constraints)
        return cur().choose([(m & ~e.mask) == 0, True], "is_true") == 0

    def is_false(self, e, extra_constraints=(), exact=None):
        m = self._GXm(extra_constraints)
        return cur().choose([(m & e.mask) == 0, True], "is_false") == 0


class _FrontendCV:
    """Frontend._concrete_value: a Python number is its own value, everything else has none"""
    def _concrete_value(self, e):
        if isinstance(e, (int, SymInt)):
            return e
        return None


_cache = {}
FILES = {
    "ConstraintExpansionMixin": "constraint_expansion_mixin", "SimplifyHelperMixin": "simplify_helper_mixin",
    "SimplifySkipperMixin": "simplify_skipper_mixin", "ConstraintDeduplicatorMixin": "constraint_deduplicator_mixin",
    "ConstraintFilterMixin": "constraint_filter_mixin", "ConcreteHandlerMixin": "concrete_handler_mixin",
    "EagerResolutionMixin": "eager_resolution_mixin",
}


class _ConcreteBackend:
    """contract of backends.concrete.eval(e, 1): the value of a variable-free expression the backend supports, BackendError otherwise"""
    @staticmethod
    def eval(e, n):
        conc = getattr(e, "conc", None)
        if conc is None or cur().choose([True, True], "concrete-backend-supports") == 1:
            raise BackendError("spec: not evaluable by the concrete backend")
        return [conc]


class _Backends:
    concrete = _ConcreteBackend


def load(mixin):
    if mixin not in _cache:
        mod = FILES[mixin]
        _cache[mixin] = loader.load(f"claripy/frontend/mixin/{mod}.py", f"claripy.frontend.mixin.{mod}",
                                    overrides={"claripy": _Claripy, "false": F, "backends": _Backends})
    return _cache[mixin][mixin]


METHODS = {
    "ConstraintExpansionMixin": ["eval", "min", "max", "solution"],
    "SimplifyHelperMixin": ["eval", "batch_eval", "min", "max"],
    "SimplifySkipperMixin": ["_add", "simplify", "_copy"],
    "ConstraintDeduplicatorMixin": ["_add", "simplify", "_copy"],
    "ConstraintFilterMixin": ["_add", "satisfiable", "eval", "batch_eval", "min", "max", "solution", "is_true", "is_false"],
    "ConcreteHandlerMixin": ["eval", "batch_eval", "min", "max", "solution", "is_true", "is_false"],
    "EagerResolutionMixin": ["_concrete_value"],
}


def _state(c, H, mixin):
    s = object.__new__(H)
    s.U = M.MCtx(c)
    s.constraints = [LH(mask=s.U.G, name="g")]
    s.variables = {"i"}
    s.ghost_adds, s.ghost_base_adds, s.ghost_simplified = [], [], 0
    if mixin == "SimplifySkipperMixin":
        s._simplified = c.choose([True, True], "_simplified") == 1
    if mixin == "ConstraintDeduplicatorMixin":
        # invariant: every remembered hash is the hash of a constraint that the current constraints imply (so skipping it loses nothing)
        s.pool = [LH(name="p0"), LH(name="p1")]
        k = c.choose([True] * 4, "remembered")
        s._constraint_hashes = set()
        for i, h in enumerate(s.pool):
            if k >> i & 1:
                c.assume((s.U.G & ~h.mask) == 0)
                s._constraint_hashes.add(h.hash())
    return s


def _dedup_inv(c, s, label, known):
    for h in known:
        if h.hash() in s._constraint_hashes:
            c.check(label + "/inv-remembered-constraints-are-implied", (s.U.G & ~h.mask) == 0,
                    f"the hash of {h!r} is remembered (a later add of it is skipped) although the constraints do not imply it", kind="invariant")


def _values(r):
    return [z3.Extract(M.WV - 1, 0, proxies._bv(x)) for x in r]


def ob_layer(mixin, method, tier="quick", faults=False):
    """faults=True (C17): the stack below may give up (ClaripySolverInterruptError) at every query.  The layer must then propagate the error or
    still answer per specification, and on the exceptional exit the model set, the constraint list and the layer's own state must be as
    consistent as on a normal one - the next query on the same solver object is answered from them."""
    M.UM = 3
    M.WV = 2
    M.FAULTS["on"] = bool(faults)
    Mx = load(mixin)
    H = type("HL", (Mx, _FrontendCV, LSpec) if mixin == "EagerResolutionMixin" else (Mx, LSpec), {})
    proxies.set_iw(12)
    concrete_in = mixin in ("ConstraintFilterMixin",)
    label = f"{mixin}.{method}" + ("[fault]" if faults else "")

    def body(c):
        M.CH.n = 0
        s = _state(c, H, mixin)
        U = s.U
        G0 = U.G
        nx = c.choose([True, True], "n-extra")
        extra = tuple(sym_constraint(c, f"x{i}", concrete_in) for i in range(nx))
        if mixin != "ConstraintFilterMixin" and method not in ("_add", "simplify", "_copy", "_concrete_value"):
            extra = tuple(extra)
        GX = G0
        for h in extra:
            GX = GX & h.mask
        conc_e = mixin == "ConcreteHandlerMixin" and c.choose([True, True], "expression-is-constant") == 1
        e = LCEH("k") if conc_e else LEH("e")
        feas = lambda vz: z3.Or(*[z3.And(M._bit(GX, i), e.table[i] == vz) for i in range(M.UM)])
        if conc_e:
            # the recorded finding: a constant expression is answered without looking at the constraints
            c.known(FID_CONCRETE, GX == 0)
        unchanged = True
        interrupted = False
        try:
            if method in ("min", "max"):
                signed = c.choose([True, True], "signed") == 1
                r = getattr(s, method)(e, extra_constraints=extra, signed=signed)
                rz = z3.Extract(M.WV - 1, 0, proxies._bv(r))
                c.watch["result"] = rz
                cmp = z3.UGE if method == "max" else z3.ULE
                c.check(label + "/feasible", feas(rz), f"{method}() returned a value the expression does not take")
                c.check(label + "/optimum", z3.And(*[z3.Implies(M._bit(GX, j), cmp(M._skey(rz, signed), M._skey(e.table[j], signed))) for j in range(M.UM)]),
                        f"{method}() is not the optimum in the requested signedness")
            elif method == "eval":
                n = 1 + c.choose([True, True, True], "n")
                r = s.eval(e, n, extra_constraints=extra)
                vals = _values(r)
                for x in vals:
                    c.check(label + "/feasible", feas(x), "eval returned an infeasible value")
                if len(vals) > 1:
                    c.check(label + "/distinct", z3.Distinct(*vals), "eval returned duplicates")
                if len(vals) < n:
                    c.check(label + "/complete", z3.And(*[z3.Implies(M._bit(GX, j), z3.Or(*[e.table[j] == x for x in vals]) if vals else z3.BoolVal(False))
                                                          for j in range(M.UM)]), "eval returned fewer values than requested although more exist")
                if len(vals) > n:
                    c.fail(label + "/count", "more values than requested")
            elif method == "batch_eval":
                two = c.choose([True, True, True], "second-expression")          # none / symbolic / constant
                e2 = None if two == 0 else LEH("f") if two == 1 or mixin != "ConcreteHandlerMixin" else LCEH("j")
                exprs = [e] + ([e2] if e2 is not None else [])
                n = 1 + c.choose([True, True], "n")
                r = s.batch_eval(exprs, n, extra_constraints=extra)
                tups = [tuple(_values(t)) for t in r]
                for t in tups:
                    if len(t) != len(exprs):
                        c.fail(label + "/tuple-length", f"a result has {len(t)} components for {len(exprs)} expressions")
                        return "bad"
                    c.check(label + "/feasible", z3.Or(*[z3.And(M._bit(GX, i), *[x.table[i] == v for x, v in zip(exprs, t)]) for i in range(M.UM)]),
                            "batch_eval returned an infeasible tuple")
                for ii in range(len(tups)):
                    for jj in range(ii + 1, len(tups)):
                        c.check(label + "/distinct", z3.Or(*[a != b for a, b in zip(tups[ii], tups[jj])]), "batch_eval returned the same tuple twice")
                if len(tups) < n:
                    c.check(label + "/complete", z3.And(*[z3.Implies(M._bit(GX, j), z3.Or(*[z3.And(*[x.table[j] == v for x, v in zip(exprs, t)]) for t in tups]) if tups else z3.BoolVal(False))
                                                          for j in range(M.UM)]), "batch_eval returned fewer tuples than requested although more exist")
                if len(tups) > n:
                    c.fail(label + "/count", "more tuples than requested")
            elif method == "solution":
                vc = mixin == "ConcreteHandlerMixin"
                v = SymInt.fresh("v", 0, (1 << M.WV) - 1)
                r = s.solution(e, v, extra_constraints=extra)
                if not isinstance(r, (bool, SymBool)):
                    c.fail(label + "/type", f"returned {type(r).__name__}")
                    return "bad"
                c.check(label + "/iff-feasible", proxies.zbool(r) == feas(z3.Extract(M.WV - 1, 0, v.z)), "solution() disagrees with feasibility")
            elif method == "satisfiable":
                r = s.satisfiable(extra_constraints=extra)
                c.check(label + "/exact", proxies.zbool(r) == (GX != 0), "satisfiable() disagrees with the constraint set")
            elif method in ("is_true", "is_false"):
                kb = c.choose([True, True, True], "boolean-expression")               # symbolic / constant true / constant false
                b = LH(name="b") if kb == 0 else LH(mask=_all(), name="bT", conc=True) if kb == 1 else LH(mask=z3.BitVecVal(0, M.UM), name="bF", conc=False)
                r = getattr(s, method)(b, extra_constraints=extra)
                if not isinstance(r, (bool, SymBool)):
                    c.fail(label + "/type", f"returned {type(r).__name__}")
                    return "bad"
                holds = ((GX & ~b.mask) == 0) if method == "is_true" else ((GX & b.mask) == 0)
                c.check(label + "/true-only-if-it-holds-in-every-model", z3.Implies(proxies.zbool(r), holds), f"{method}() answered True although a model says otherwise")
            elif method == "_add":
                unchanged = False
                k = 1 + c.choose([True, True], "n-added")
                pool = getattr(s, "pool", [])
                new = []
                for i in range(k):
                    if pool and c.choose([True, True], f"re-add{i}") == 1:
                        new.append(pool[c.choose([True] * len(pool), f"which{i}")])
                    else:
                        new.append(sym_constraint(c, f"n{i}", concrete_in))
                inval = c.choose([True, True], "invalidate_cache") == 0
                added = s._add(new, invalidate_cache=inval)
                want = G0
                for h in new:
                    want = want & h.mask
                c.check(label + "/models-are-the-intersection", U.G == want, "after _add the model set is not the old one intersected with the added constraints")
                # what the layer reports as added is what reached the constraint list
                got = [x for lst in s.ghost_base_adds for x in lst]
                if not (len(added) == len(got) and all(a is b for a, b in zip(added, got))):
                    c.fail(label + "/returns-what-was-added", f"_add returned {added!r}; the stack below received {got!r}")
                if mixin == "ConstraintDeduplicatorMixin":
                    _dedup_inv(c, s, label, pool + new)
                if mixin == "SimplifySkipperMixin" and len(got) > 0:
                    c.check(label + "/not-simplified-after-add", s._simplified is False, "constraints were added but _simplified stays True: the next simplify() is skipped")
            elif method == "simplify":
                r = s.simplify()
                m = _all()
                for h in r:
                    m = m & h.mask
                c.check(label + "/returns-equivalent-constraints", m == G0, "simplify() returned a list that is not equivalent to the constraints")
                if not (r is s.constraints or list(r) == list(s.constraints)):
                    c.fail(label + "/returns-the-constraint-list", "simplify() returned something else than the solver's constraint list")
                if mixin == "ConstraintDeduplicatorMixin":
                    _dedup_inv(c, s, label, s.pool + list(r))
            elif method == "_copy":
                o = object.__new__(H)
                o.U = U
                s._copy(o)
                if mixin == "SimplifySkipperMixin":
                    c.check(label + "/flag-copied", o._simplified is s._simplified, "the copy's _simplified flag differs")
                else:
                    if o._constraint_hashes is s._constraint_hashes:
                        c.fail(label + "/own-set", "the copy shares the set of remembered hashes with the original")
                    elif o._constraint_hashes != s._constraint_hashes:
                        c.fail(label + "/same-hashes", "the copy remembers other hashes than the original")
            elif method == "_concrete_value":
                kexp = c.choose([True, True, True], "expression")            # symbolic / constant / python number
                x = LEH("e") if kexp == 0 else LCEH("k") if kexp == 1 else 3
                r = s._concrete_value(x)
                if r is not None:
                    if kexp == 0:
                        c.fail(label + "/none-for-symbolic", "a value was reported for an expression that depends on the assignment")
                    elif kexp == 1:
                        c.check(label + "/the-constant", proxies._bv(r) == proxies._bv(x.conc), "the reported value is not the constant the expression denotes")
                    else:
                        c.check(label + "/the-number", r == 3)
                else:
                    c.check(label + "/none-allowed", kexp != 2, "a Python number has a concrete value")
        except UnsatError:
            c.check(label + "/unsat-error-only-if-unsat", GX == 0, "UnsatError raised although a model exists")
        except ClaripySolverInterruptError:
            c.n_vcs += 1
            if not c.ghost.get("stack_raised"):
                c.fail(label + "/interrupt-only-if-the-backend-gave-up", "ClaripySolverInterruptError raised although no backend call gave up")
                return "raised"
            interrupted = True
        except (PathEnd, Undecided):
            raise
        except Exception as ex:  # noqa
            import traceback
            c.fail(label + "/raises", f"{type(ex).__name__}: {ex} " + traceback.format_exc()[-300:], kind="raises")
            return "raised"
        if interrupted and method == "_add":
            # an interrupted add: whatever reached the constraint list must be accounted for in the model set and the layer's bookkeeping
            m = _all()
            for h in s.constraints:
                m = m & h.mask
            c.check(label + "/constraint-list-equivalent", m == U.G, "after an interrupted _add the constraint list no longer describes the model set")
            if mixin == "ConstraintDeduplicatorMixin":
                _dedup_inv(c, s, label, getattr(s, "pool", []))
            return method + ":interrupted"
        if unchanged:
            c.check(label + "/model-set-unchanged", U.G == G0, "a query changed the model set of the solver (a helper constraint that is not implied was added)")
            m = _all()
            for h in s.constraints:
                m = m & h.mask
            c.check(label + "/constraint-list-equivalent", m == U.G, "the constraint list no longer describes the model set")
        return method + (":interrupted" if interrupted else ":answered-despite-fault" if c.ghost.get("stack_raised") else "")

    return explore(body, {"budget_s": 300, "max_depth": 3000, "max_failures": 3, "timeout_ms": 20000, "max_paths": 500000})


FAULT_METHODS = {"ConstraintExpansionMixin": ["eval", "min", "max", "solution"], "SimplifyHelperMixin": ["eval", "batch_eval", "min", "max"],
                 "ConstraintFilterMixin": ["satisfiable", "eval", "batch_eval", "min", "max", "solution"],
                 "ConcreteHandlerMixin": ["eval", "batch_eval", "min", "max", "solution"]}


def fault_tasks(tier):
    from vf.common import task
    return [task("vf.contracts.layers", "ob_layer", f"layer.{mixin}.{m}[fault]/consistent-after-the-backend-gave-up", ["C17"], mixin=mixin, method=m, tier=tier, faults=True)
            for mixin, ms in FAULT_METHODS.items() for m in ms]


def all_tasks(tier, props=("C11",), only=None):
    from vf.common import task
    out = []
    for mixin, ms in METHODS.items():
        if only is not None and mixin not in only:
            continue
        for m in ms:
            out.append(task("vf.contracts.layers", "ob_layer", f"layer.{mixin}.{m}/public-spec+frame", ["C11", "C12", "C13"], mixin=mixin, method=m, tier=tier))
    return out


# ---- composition: which layers sit on which -------------------------------------------------------------------------

UNDER_CONTRACT = {"ConcreteHandlerMixin", "EagerResolutionMixin", "ConstraintFilterMixin", "ConstraintDeduplicatorMixin", "SimplifySkipperMixin", "SatCacheMixin",
                  "ModelCacheMixin", "ConstraintExpansionMixin", "SimplifyHelperMixin", "CompositedCacheMixin", "FullFrontend", "ConstrainedFrontend", "Frontend",
                  "ReplacementFrontend", "HybridFrontend", "LightFrontend", "CompositeFrontend"}
# layers whose contract assumes that the stack below answers EXACTLY for the constraint set (they remember answers / models and add what they
# learned as constraints): below them there must be no frontend whose answers depend on `exact=` or are over-approximations
NEED_EXACT_BELOW = {"SatCacheMixin", "ModelCacheMixin", "ConstraintExpansionMixin", "CompositedCacheMixin"}
APPROXIMATING = {"HybridFrontend", "LightFrontend"}


def ob_stack_composition():
    """the per-layer proofs compose only for the stacks they were made for: every class in the MRO of every public solver class is a layer under
    contract, and a layer that caches answers or learns constraints from answers has only exact frontends below it (SolverVSA / SolverConcrete
    use LightFrontend over an exact-or-refusing backend with no caching layer; SolverHybrid mixes exact and approximate answers and therefore
    carries no cache of its own)."""
    import inspect
    import claripy
    from claripy.frontend import Frontend
    from vf.engine import paths
    res = paths.Result()
    res.paths = 1
    problems = []
    n = 0
    for name, cls in vars(claripy.solvers).items():
        if not (inspect.isclass(cls) and issubclass(cls, Frontend)):
            continue
        mro = [k.__name__ for k in cls.__mro__[1:-1]]
        for i, k in enumerate(mro):
            n += 1
            if k not in UNDER_CONTRACT:
                problems.append(f"{name}: layer {k} is not under contract")
            if k in NEED_EXACT_BELOW:
                bad = [b for b in mro[i + 1:] if b in APPROXIMATING]
                if bad:
                    problems.append(f"{name}: {k} (remembers answers) sits above {bad[0]}, whose answers depend on exact= / over-approximate: an approximate answer is replayed for an exact query")
    res.vcs = n
    for p in problems:
        f = paths.Failure("stack-composition", "frame", {}, p, [])
        f.replay = replay_composition()
        res.failures.append(f)
    res.status = "violated" if problems else ("discharged" if n else "undecided")
    return res


def replay_composition(task=None, failure=None):
    """native: a constraint set that Z3 refutes and the VSA cannot; an approximate query first, then an exact one"""
    import claripy
    x = claripy.BVS("kf_comp_x", 8, explicit_name=True)
    s = claripy.SolverHybrid()
    s.add(x * x == 3)
    try:
        a = s.satisfiable(exact=False)
        b = s.satisfiable()
    except Exception as e:  # noqa
        return {"reproduced": False, "text": f"SolverHybrid raised {type(e).__name__}: {e}"}
    ref = claripy.Solver()
    ref.add(x * x == 3)
    want = ref.satisfiable()
    return {"reproduced": b != want, "text": f"SolverHybrid: add(x * x == 3); satisfiable(exact=False) = {a}; satisfiable() = {b}; a plain Solver: {want}"}


# ---- coverage: every method of a caching / filtering layer has an obligation ---------------------------------------------------

PROTOCOL = {"__init__", "_blank_copy", "_copy", "__getstate__", "__setstate__"}      # C14 / C18: statecov (attribute coverage, ownership, fidelity)
METHOD_TABLE = {
    "SatCacheMixin": {"under contract (mixins.ob_satcache)": {"satisfiable", "check_satisfiability", "eval", "batch_eval", "max", "min", "solution", "unsat_core", "simplify", "_add"}},
    "ModelCacheMixin": {"under contract (mixins.ob_modelcache*, mergesplit.ob_mc_*)": {"min", "max", "eval", "batch_eval", "solution", "satisfiable", "_add", "_trivial_model_optimization",
                                                                                       "split", "combine", "_model_hook", "_get_models", "_get_batch_solutions", "_get_solutions"},
                        "bounded part only": {"simplify", "update"}},
    "CompositedCacheMixin": {"under contract (composite.ob_composite*)": {"_remove_cached", "_solver_for_names", "downsize", "_store_child"}},
    "ConstraintFilterMixin": {"under contract (layers)": set(METHODS["ConstraintFilterMixin"]) | {"_constraint_filter"}},
}
for _m, _ms in METHODS.items():
    METHOD_TABLE.setdefault(_m, {"under contract (layers)": set(_ms)})


def ob_method_coverage():
    """every method defined by a solver mixin (read from the current source) is accounted for: under contract, part of the copy / pickle protocol
    (statecov), or listed as covered by the bounded part only.  A method that is added to a caching layer without an obligation (a downsize()
    that clears half of the cache, say) changes the layer's invariant behind the back of the proofs."""
    import ast
    import hashlib
    import os
    from vf.engine import paths
    res = paths.Result()
    res.paths = 1
    problems = []
    root = os.path.join(loader.REPO, "claripy", "frontend", "mixin")
    seen = set()
    for fn in sorted(os.listdir(root)):
        if not fn.endswith(".py") or fn == "__init__.py":
            continue
        rel = f"claripy/frontend/mixin/{fn}"
        src = open(os.path.join(root, fn)).read()
        loader.SOURCES[rel] = hashlib.sha256(src.encode()).hexdigest()
        for cls in [n for n in ast.parse(src).body if isinstance(n, ast.ClassDef)]:
            if cls.name not in METHOD_TABLE:
                if cls.name.endswith("Mixin") and cls.name != "SolveBlockMixin":
                    problems.append(f"{rel}: mixin {cls.name} has no obligations at all")
                continue
            seen.add(cls.name)
            known = set(PROTOCOL).union(*METHOD_TABLE[cls.name].values())
            for m in [n for n in cls.body if isinstance(n, (ast.FunctionDef, ast.AsyncFunctionDef))]:
                res.vcs += 1
                if m.name not in known:
                    problems.append(f"{cls.name}.{m.name} (line {m.lineno} of {rel}) has no obligation: it can change the layer's state outside every proved invariant")
    for k in METHOD_TABLE:
        if k not in seen:
            problems.append(f"mixin {k} not found in claripy/frontend/mixin (moved or renamed?)")
    for p in problems:
        res.failures.append(paths.Failure("layer.method-coverage", "frame", {}, p, []))
    res.status = "violated" if problems else ("discharged" if res.vcs else "undecided")
    return res
