"""C05: the length calculators / argument checks of claripy/operations.py (pure integer code) against the
width of the SMT-LIB meaning of the operation."""
from __future__ import annotations

import z3

from vf.engine import loader, paths, proxies
from vf.engine.paths import cur, explore
from vf.engine.proxies import SymInt

_c = {}


class A:
    def __init__(self, n):
        self.length = n

    def size(self):
        return self.length


def load_ops():
    if "o" not in _c:
        _c["o"] = loader.load("claripy/operations.py", "claripy.operations")
    return _c["o"]


def ob_lengths():
    ns = load_ops()
    proxies.set_iw(40)

    def body(c):
        which = c.choose([True] * 6, "calculator")
        if which == 0:      # basic: result width = width of the first argument
            n = SymInt.fresh("n", 0, 4096)
            r = ns["basic_length_calc"](A(n), A(n))
            c.check("basic_length_calc/width", proxies._bv(r) == n.z, "length of a same-width operation is not the operand width")
        elif which == 1:    # concat: sum
            k = 1 + c.choose([True] * 4, "arity")
            ns_ = [SymInt.fresh(f"n{i}", 0, 4096) for i in range(k)]
            r = ns["concat_length_calc"](*[A(x) for x in ns_])
            tot = ns_[0].z
            for x in ns_[1:]:
                tot = tot + x.z
            c.check("concat_length_calc/width", proxies._bv(r) == tot, "Concat length is not the sum of the operand widths")
        elif which == 2:    # extract: given the check passes, 1 <= length <= size and = high - low + 1
            size = SymInt.fresh("size", 0, 4096)
            hi, lo = SymInt.fresh("hi", -8, 5000), SymInt.fresh("lo", -8, 5000)
            ok, msg = ns["extract_check"](hi, lo, A(size))
            okz = proxies.zbool(ok)
            c.check("extract_check/iff-well-formed", okz == z3.And(lo.z >= 0, hi.z >= lo.z, hi.z < size.z), "extract_check accepts an ill-formed slice or rejects a good one")
            c.assume(okz)
            r = ns["extract_length_calc"](hi, lo, A(size))
            c.check("extract_length_calc/width", z3.And(proxies._bv(r) == hi.z - lo.z + 1, proxies._bv(r) >= 1, proxies._bv(r) <= size.z), "Extract length wrong")
        elif which == 3:    # extension
            n, e = SymInt.fresh("n", 0, 4096), SymInt.fresh("e", -8, 4096)
            ok, msg = ns["extend_check"](e, A(n))
            c.check("extend_check/iff-nonnegative", proxies.zbool(ok) == (e.z >= 0), "extend_check wrong")
            c.assume(e.z >= 0)
            r = ns["ext_length_calc"](e, A(n))
            c.check("ext_length_calc/width", proxies._bv(r) == n.z + e.z, "extension length wrong")
        elif which == 4:    # same-length check
            a, b, d = SymInt.fresh("a", 0, 64), SymInt.fresh("b", 0, 64), SymInt.fresh("d", 0, 64)
            ok, msg = ns["length_same_check"](A(a), A(b), A(d))
            c.check("length_same_check/iff-equal", proxies.zbool(ok) == z3.And(a.z == b.z, b.z == d.z), "length_same_check wrong")
        else:
            # the tables relating operators: every reversed op maps to an op; opposites are involutive
            rev, opp = ns["reversed_ops"], ns["opposites"]
            c.n_vcs += 1
            bad = [k for k, v in rev.items() if not k.startswith("__r") or v != "__" + k[3:]]
            bad += [k for k, v in opp.items() if opp.get(v) != k]
            if bad:
                c.fail("operator-tables/consistent", f"inconsistent entries {bad}")
            c.check("operator-tables/checked", True)
        return f"calc{which}"

    return explore(body, {"budget_s": 120})
