"""C10: cheap truth checks never claim a truth value that does not hold.

(a) Backend.is_true / Backend.is_false with their per-hash caches: class invariant
        _true_cache[h] is True  => e_h is valid        _false_cache[h] is True => e_h is unsatisfiable
    proved on the real methods (backend.py re-loaded each run) for every cache state of the key, with
    _is_true/_is_false/convert of the concrete backend class answered by contract (True only if it holds).
(b) BackendConcrete.is_true/is_false/_is_true/_is_false on converted objects (real code).
(c) algorithm.bool_check.is_true/is_false (real code over the contract of backends.concrete)."""
from __future__ import annotations

import z3

from vf.engine import loader, paths, proxies
from vf.engine.paths import cur, explore, Undecided, PathEnd, Unsupported
from vf.engine.proxies import SymBool
from claripy.errors import BackendError

_c = {}


class E:
    """expression handle with ghost semantics: valid / unsatisfiable (never both)"""
    def __init__(self, name="e", key=7):
        self.valid = z3.Bool(name + "_valid")
        self.unsat = z3.Bool(name + "_unsat")
        c = cur()
        c.assume(z3.Not(z3.And(self.valid, self.unsat)))
        c.watch[name + "_valid"], c.watch[name + "_unsat"] = self.valid, self.unsat
        self.key = key

    def hash(self):
        return self.key


def load_backend():
    if "b" not in _c:
        _c["b"] = loader.load("claripy/backends/backend.py", "claripy.backends.backend", overrides={"Base": E})
    return _c["b"]


def ob_backend_cache(which):
    """which in is_true / is_false"""
    ns = load_backend()
    Backend = ns["Backend"]

    class HB(Backend):
        __slots__ = ("raised",)

        def convert(self, e):
            return e

        def _is_true(self, e, extra_constraints=(), solver=None, model_callback=None):
            k = cur().choose([e.valid, True, True], "_is_true")      # True only if valid / False / BackendError
            if k == 2:
                raise BackendError("cannot tell")
            return k == 0

        def _is_false(self, e, extra_constraints=(), solver=None, model_callback=None):
            k = cur().choose([e.unsat, True, True], "_is_false")
            if k == 2:
                raise BackendError("cannot tell")
            return k == 0

    def body(c):
        b = HB()
        e = E()
        other = 99
        # arbitrary cache state for e's key satisfying the invariant
        for cache, sem in ((b._true_cache, e.valid), (b._false_cache, e.unsat)):
            k = c.choose([True, sem, True], "cache-entry")       # absent / True (requires the fact) / False
            if k == 1:
                cache[e.key] = True
            elif k == 2:
                cache[e.key] = False
            cache[other] = "sentinel"
        nx = c.choose([True, True], "extra")
        extra = ("x",) if nx else ()
        try:
            r = getattr(b, which)(e, extra_constraints=extra)
        except BackendError:
            r = None
        except (PathEnd, Undecided):
            raise
        except Exception as ex:  # noqa
            c.fail(f"Backend.{which}/raises", f"{type(ex).__name__}: {ex}", kind="raises")
            return "raised"
        sem = e.valid if which == "is_true" else e.unsat
        if r is not None:
            if not isinstance(r, bool):
                c.fail(f"Backend.{which}/type", f"returned {r!r}")
            elif r:
                c.check(f"Backend.{which}/sound", sem, f"{which}() returned True for an expression for which it does not hold")
            else:
                c.check(f"Backend.{which}/false-is-allowed", True)
        else:
            c.check(f"Backend.{which}/backend-error", True)
        for cache, s2, nm in ((b._true_cache, e.valid, "_true_cache"), (b._false_cache, e.unsat, "_false_cache")):
            v = cache.get(e.key, None)
            if v is True:
                c.check(f"Backend.{which}/inv{nm}", s2, f"{nm} holds True for an expression for which it does not hold", kind="invariant")
            elif v not in (None, False):
                c.fail(f"Backend.{which}/inv{nm}-type", f"{nm} entry is {v!r}")
            if cache.get(other) != "sentinel" or set(cache) - {e.key, other}:
                c.fail(f"Backend.{which}/frame", f"{nm} entries of other expressions were touched", kind="frame")
        return f"r={r}"

    return explore(body, {"budget_s": 120})


def ob_concrete_truth(which):
    """BackendConcrete.is_true/is_false on a Bool AST whose converted object is a Python bool (or on a number)."""
    import claripy as real
    ns = _c.get("bc")
    if ns is None:
        class NSClaripy:
            true = staticmethod(lambda: TRUE)
            false = staticmethod(lambda: FALSE)
            BVV = staticmethod(real.BVV)
            BoolV = staticmethod(real.BoolV)
        ns = _c["bc"] = loader.load("claripy/backends/backend_concrete/backend_concrete.py",
                                    "claripy.backends.backend_concrete.backend_concrete", overrides={"claripy": NSClaripy})
    BC = ns["BackendConcrete"]

    class HBC(BC):
        def convert(self, x):        # contract of convert on a concrete Bool expression: its exact value (C01)
            return x.conv

    def body(c):
        b = HBC()
        val = z3.Bool("value")          # the concrete value of the Bool expression (C01: folding is exact)
        c.watch["value"] = val
        kind = c.choose([True, True, True], "kind")     # the literal true node / the literal false node / another concrete Bool
        if kind == 0:
            e = TRUE
            c.assume(val)
        elif kind == 1:
            e = FALSE
            c.assume(z3.Not(val))
        else:
            e = LIT(SymBool(val))
        try:
            r = getattr(b, which)(e)
        except (PathEnd, Undecided):
            raise
        except BackendError:
            c.check(f"BackendConcrete.{which}/backend-error", True)
            return "be"
        except Exception as ex:  # noqa
            c.fail(f"BackendConcrete.{which}/raises", f"{type(ex).__name__}: {ex}", kind="raises")
            return "raised"
        rz = proxies.zbool(r) if isinstance(r, (bool, SymBool)) else None
        if rz is None:
            c.fail(f"BackendConcrete.{which}/type", f"returned {type(r).__name__}")
            return "type"
        c.check(f"BackendConcrete.{which}/sound", z3.Implies(rz, val if which == "is_true" else z3.Not(val)),
                f"{which}() returned True although the expression has the other value")
        return "ret"

    return explore(body, {"budget_s": 120})


class LIT:
    """a concrete Bool AST; conv is the converted object (a Python bool)"""
    def __init__(self, conv, key=5):
        self.conv = conv
        self.key = key
        self.op = "BoolV"

    def hash(self):
        return self.key

    def __vf_is__(self, o):
        return self is o


TRUE = LIT(True, 1)
FALSE = LIT(False, 2)


def ob_bool_check(which):
    """algorithm.bool_check.is_true/is_false: returns concrete.is_true(expr), or False when it raises BackendError."""
    def body(c):
        e = E()
        sem = e.valid if which == "is_true" else e.unsat

        class Conc:
            @staticmethod
            def is_true(x):
                k = c.choose([x.valid, True, True], "concrete.is_true")
                if k == 2:
                    raise BackendError("no")
                return k == 0

            @staticmethod
            def is_false(x):
                k = c.choose([x.unsat, True, True], "concrete.is_false")
                if k == 2:
                    raise BackendError("no")
                return k == 0
        NS = type("NS", (), {"backends": type("B", (), {"concrete": Conc})})
        ns = loader.load("claripy/algorithm/bool_check.py", "claripy.algorithm.bool_check", overrides={"claripy": NS})
        try:
            r = ns[which](e)
        except (PathEnd, Undecided):
            raise
        except Exception as ex:  # noqa
            c.fail(f"bool_check.{which}/raises", f"{type(ex).__name__}: {ex}", kind="raises")
            return "raised"
        if not isinstance(r, bool):
            c.fail(f"bool_check.{which}/type", f"returned {r!r}")
        elif r:
            c.check(f"bool_check.{which}/sound", sem, "returned True although it does not hold")
        else:
            c.check(f"bool_check.{which}/false-is-allowed", True)
        return f"r={r}"

    return explore(body, {"budget_s": 60})


# ---- class invariant of the truth caches over ALL their writers --------------------------------------------------

CACHE_ATTRS = ("_true_cache", "_false_cache")
# methods allowed to touch the truth caches; each has an obligation in this module
WRITERS_UNDER_CONTRACT = {("Backend", "__init__"), ("Backend", "downsize"), ("Backend", "is_true"), ("Backend", "is_false")}


def ob_cache_writers():
    """frame condition of the invariant: in claripy/backends/** only the methods under contract mention the truth caches
    (computed from the AST of the current sources on every run); any other reader/writer is reported"""
    import ast, os, hashlib
    res = paths.Result()
    root = os.path.join(loader.REPO, "claripy")
    found = set()
    for dp, _, fns in os.walk(root):
        for fn in fns:
            if not fn.endswith(".py"):
                continue
            p = os.path.join(dp, fn)
            src = open(p).read()
            if "_true_cache" not in src and "_false_cache" not in src:
                continue
            rel = os.path.relpath(p, loader.REPO)
            loader.SOURCES[rel] = hashlib.sha256(src.encode()).hexdigest()
            tree = ast.parse(src)
            for cls in ast.walk(tree):
                if not isinstance(cls, ast.ClassDef):
                    continue
                for m in cls.body:
                    if isinstance(m, (ast.FunctionDef, ast.AsyncFunctionDef)):
                        if any(isinstance(x, ast.Attribute) and x.attr in CACHE_ATTRS for x in ast.walk(m)):
                            found.add((cls.name, m.name))
            for m in tree.body:
                if isinstance(m, ast.FunctionDef) and any(isinstance(x, ast.Attribute) and x.attr in CACHE_ATTRS for x in ast.walk(m)):
                    found.add(("<module>", m.name))
    res.paths = res.vcs = len(found)
    extra = sorted(found - WRITERS_UNDER_CONTRACT)
    if extra:
        res.status = "undecided"
        res.reason = f"the truth caches are also touched by {extra}, which have no contract in vf/contracts/truth.py: the invariant is not established"
    missing = sorted(WRITERS_UNDER_CONTRACT - found)
    res.samples = [{"touching": sorted(map(list, found)), "no_longer_touching": missing}]
    return res


def ob_backend_init_downsize():
    """Backend.__init__ establishes, and Backend.downsize re-establishes, the invariant in its strongest form: both caches
    are empty, are two distinct objects, and are distinct from the object cache (separation: an entry written into one
    can never be read from the other)"""
    ns = load_backend()
    Backend = ns["Backend"]

    def sep(c, b, where):
        c.n_vcs += 1
        t, f = b._true_cache, b._false_cache
        if t is f or t is b._object_cache or f is b._object_cache:
            c.fail(f"Backend.{where}/caches-are-separate-objects", "_true_cache, _false_cache and _object_cache are not three distinct objects: "
                   "an answer stored for is_true is read back by is_false", kind="invariant")
        if len(t) or len(f):
            c.fail(f"Backend.{where}/caches-empty", "a truth cache is not empty")
        if not (hasattr(t, "__getitem__") and hasattr(t, "__setitem__") and hasattr(f, "__getitem__") and hasattr(f, "__setitem__")):
            c.fail(f"Backend.{where}/cache-type", "a truth cache is not a mapping")

    def body(c):
        class HB(Backend):
            def convert(self, e):
                return e
        b = HB()
        sep(c, b, "__init__")
        rounds = 1 + c.choose([True, True], "downsize-calls")
        for _ in range(rounds):
            b._true_cache[7] = True
            b._false_cache[8] = True
            try:
                b.downsize()
            except (PathEnd, Undecided):
                raise
            except Exception as ex:  # noqa
                c.fail("Backend.downsize/raises", f"{type(ex).__name__}: {ex}", kind="raises")
                return "raised"
            sep(c, b, "downsize")
        return f"rounds={rounds}"

    def native(failure):
        import claripy
        bad = []
        for nm, b in (("concrete", claripy.backends.concrete), ("z3", claripy.backends.z3), ("vsa", claripy.backends.vsa)):
            b.downsize()
            if b._true_cache is b._false_cache or len(b._true_cache) or len(b._false_cache):
                bad.append(nm)
        if bad:
            x = claripy.BoolS("truth_rp", explicit_name=True)
            taut = claripy.Or(x, claripy.Not(x))
            r = (claripy.backends.z3.is_true(taut), claripy.backends.z3.is_false(taut))
            return {"reproduced": True, "text": f"after downsize() the backends {bad} hold ONE dict as _true_cache and _false_cache; "
                    f"backends.z3.is_true(x | !x), is_false(x | !x) = {r}"}
        return {"reproduced": False, "text": "the real backends keep separate, empty caches after downsize()"}

    return explore(body, {"budget_s": 60, "replay": native})


# ---- BackendZ3._is_true / _is_false: solver-independent, True only for the literal ---------------------------------

class ZTerm:
    """ghost Z3 term: semantic flags valid/unsat (z3 Bools) and whether it IS the literal true/false"""
    def __init__(self, valid, unsat, lit=None, address=0x7F00):
        self.valid, self.unsat, self.lit = valid, unsat, lit
        # the term's address (BackendZ3._z3_ast_hash): unique among LIVE terms only - once a term is dead a new term may get its address
        self.ast = type("Ast", (), {"value": address})()

    def eq(self, o):
        # structural identity of terms
        if self is o:
            return True
        if self.lit is not None or o.lit is not None:
            return self.lit is not None and o.lit is not None and self.lit == o.lit
        # two non-literal terms: may or may not be the same term; if they are, they mean the same
        k = cur().choose([z3.And(self.valid == o.valid, self.unsat == o.unsat), True], "structurally-equal")
        return k == 0


def ob_z3_truth(which):
    """real BackendZ3._is_true/_is_false over a contract of z3.simplify (an equivalent term, which is the literal only if the
    fact holds) and an ARBITRARY solver argument: Backend.is_true memoises the answer per expression hash for every solver,
    so the answer must not depend on the solver's assertions"""
    from vf.contracts import gcguard
    ns = gcguard.load()
    BZ = ns["BackendZ3"]

    def body(c):
        e = E()
        te = ZTerm(e.valid, e.unsat)

        class GZ3:
            @staticmethod
            def simplify(t, *a, **k):
                j = c.choose([t.valid, t.unsat, True], "simplify-result")     # literal true / literal false / something else
                return ZTerm(t.valid, t.unsat, [True, False, None][j])

            @staticmethod
            def BoolVal(v, ctx=None):
                return ZTerm(z3.BoolVal(bool(v)), z3.BoolVal(not v), bool(v))

            @staticmethod
            def Not(t, ctx=None):
                return ZTerm(t.unsat, t.valid, None if t.lit is None else (not t.lit))

            @staticmethod
            def main_ctx():
                return None

            def __getattr__(self, name):
                raise Unsupported(f"z3.{name} used by BackendZ3.{which}")

        class GSolver:
            def assertions(self):
                out = []
                for i in range(1 + c.choose([True, True], "n-assertions")):
                    a = E(f"asserted{i}")
                    out.append(ZTerm(a.valid, a.unsat))
                if c.choose([True, True], "e-itself-asserted"):
                    out.append(te)
                return out

        solver = GSolver() if c.choose([True, True], "solver-given") else None
        b = object.__new__(BZ)
        b._tls = type("TLS", (), {"context": "ghost-context"})()
        old = ns["z3"]
        ns["z3"] = GZ3()
        try:
            f = BZ.__dict__["_" + which]
            f = getattr(f, "__wrapped__", f)
            try:
                if c.choose([True, True], "an-earlier-term-lived-at-this-address") == 1:
                    # history: another term, dead by now, was asked about at the address that `te` occupies (Z3 reuses freed addresses);
                    # the answer for `te` must not come from what was learnt about that term
                    e0 = E("earlier")
                    f(b, ZTerm(e0.valid, e0.unsat), extra_constraints=(), solver=None)
                r = f(b, te, extra_constraints=(), solver=solver)
            except (PathEnd, Undecided):
                raise
            except Exception as ex:  # noqa
                c.fail(f"BackendZ3._{which}/raises", f"{type(ex).__name__}: {ex}", kind="raises")
                return "raised"
        finally:
            ns["z3"] = old
        c.n_vcs += 1
        if isinstance(r, SymBool):
            r = bool(r)
        if not isinstance(r, bool):
            c.fail(f"BackendZ3._{which}/type", f"returned {type(r).__name__}")
        elif r:
            c.check(f"BackendZ3._{which}/sound-for-every-solver", e.valid if which == "is_true" else e.unsat,
                    f"_{which} returned True for an expression that is not {'valid' if which == 'is_true' else 'unsatisfiable'} "
                    "(the answer is memoised per expression and served to every solver)")
        return f"r={r}"

    return explore(body, {"budget_s": 60})


# ---- bool_check on expressions with structure --------------------------------------------------------------------

def ob_bool_check_node(which, tier="quick"):
    """algorithm.bool_check.is_true / is_false on an arbitrary Boolean expression whose shape is decided lazily (SymNode: every operation that
    can produce a Bool, floating-point and string comparisons as opaque operations, operands possibly the SAME node): True only if the
    expression holds / fails under every assignment.  The handle of ob_bool_check has no structure, so code that inspects `.op` / `.args`
    before asking the concrete backend is only visible here."""
    from vf.engine import symnode as SN
    from vf.contracts import simp

    def body(c):
        e = SN.new_node(("bool",), "root_e")
        c.describers.append(lambda m: {"e": SN.describe(e, m)})

        class Conc:
            @staticmethod
            def is_true(x):
                if c.choose([True, True], "concrete-backend-error") == 1:
                    raise BackendError("no")
                return SN.is_true_contract(x)

            @staticmethod
            def is_false(x):
                if c.choose([True, True], "concrete-backend-error") == 1:
                    raise BackendError("no")
                return SN.is_false_contract(x)
        NS = type("NS", (), {"backends": type("B", (), {"concrete": Conc})})
        ns = loader.load("claripy/algorithm/bool_check.py", "claripy.algorithm.bool_check", overrides={"claripy": NS})
        try:
            r = ns[which](e)
        except (PathEnd, Undecided):
            raise
        except Exception as ex:  # noqa
            c.fail(f"bool_check.{which}[node]/raises", f"{type(ex).__name__}: {ex}", kind="raises")
            return "raised"
        if not isinstance(r, bool):
            c.fail(f"bool_check.{which}[node]/type", f"returned {r!r}")
        elif r:
            den = e.root().den
            c.check(f"bool_check.{which}[node]/sound", den if which == "is_true" else z3.Not(den), "returned True although the expression does not hold under every assignment")
        else:
            c.check(f"bool_check.{which}[node]/false-is-allowed", True)
        return f"r={r}"

    t = {"kwargs": {"which": which}}
    return explore(body, simp._opts(8, tier, budget_s=120, replay=lambda f: replay_bool_check_node(t, f)))


def replay_bool_check_node(task, failure):
    """native: rebuild the described expression with the real claripy, ask the real claripy.is_true / is_false, and let Z3 decide validity"""
    import claripy
    import z3 as _z
    from vf.contracts import simp
    which = task["kwargs"]["which"]
    d = failure.get("witness", {}).get("e")
    if not isinstance(d, dict):
        return {"reproduced": False, "text": "witness carries no expression"}
    try:
        e = simp.build_real(d)
    except Exception as ex:  # noqa
        return {"reproduced": False, "text": f"cannot rebuild the expression: {type(ex).__name__}: {ex}"}
    ans = getattr(claripy, which)(e)
    if not ans:
        return {"reproduced": False, "text": f"claripy.{which}({e}) = False"}
    B = claripy.backends.z3
    s = _z.Solver(ctx=B._context)
    ze = B.convert(e)
    s.add(_z.Not(ze) if which == "is_true" else ze)
    r = s.check()
    return {"reproduced": r == _z.sat, "text": f"claripy.{which}({e}) = True; Z3: the expression is {'refuted' if which == 'is_true' else 'satisfied'} by {s.model() if r == _z.sat else 'no assignment'}"}


def ob_concrete_truth_node(which, tier="quick"):
    """BackendConcrete.is_true / is_false (real code, with the real Backend.is_true / is_false it inherits) on an ARBITRARY Boolean expression -
    symbolic ones included, shape decided lazily (SymNode; `Bool` / `BV` in the module are the node classes, so `isinstance` tests and code
    that inspects `.op` / `.args` / `.symbolic` before converting run as written).  convert() by contract: BackendError for an expression with
    a variable, else the expression's value.  Post: True only if the expression holds / fails under EVERY assignment (ob_concrete_truth asks
    about concrete expressions only)."""
    from vf.engine import symnode as SN
    from vf.contracts import simp

    def body(c):
        e = SN.new_node(("bool",), "root_e")
        c.describers.append(lambda m: {"e": SN.describe(e, m)})
        T, F = SN.new_node(("bool",), "lit_true", den=z3.BoolVal(True)), SN.new_node(("bool",), "lit_false", den=z3.BoolVal(False))

        class NSClaripy:
            true = staticmethod(lambda: T)
            false = staticmethod(lambda: F)
        ns = loader.load("claripy/backends/backend_concrete/backend_concrete.py", "claripy.backends.backend_concrete.backend_concrete",
                         overrides={"claripy": NSClaripy, "Bool": SN.SymBoolN, "BV": SN.SymBV})
        BC = ns["BackendConcrete"]

        class HBC(BC):
            def convert(self, x):
                if isinstance(x, SN.SymNode):
                    x = x.root()
                    if bool(x.symbolic):
                        raise BackendError("an expression with a variable has no concrete value")
                    return SymBool(x.den) if isinstance(x, SN.SymBoolN) else x
                return x
        b = HBC()
        try:
            r = getattr(b, which)(e)
        except (PathEnd, Undecided):
            raise
        except BackendError:
            c.check(f"BackendConcrete.{which}[node]/backend-error", True)
            return "be"
        except Exception as ex:  # noqa
            import traceback
            c.fail(f"BackendConcrete.{which}[node]/raises", f"{type(ex).__name__}: {ex} {traceback.format_exc()[-300:]}", kind="raises")
            return "raised"
        rz = proxies.zbool(r) if isinstance(r, (bool, SymBool)) else None
        if rz is None:
            c.fail(f"BackendConcrete.{which}[node]/type", f"returned {type(r).__name__}")
            return "type"
        den = e.root().den
        c.check(f"BackendConcrete.{which}[node]/sound", z3.Implies(rz, den if which == "is_true" else z3.Not(den)),
                f"{which}() returned True although the expression does not {'hold' if which == 'is_true' else 'fail'} under every assignment")
        return "ret"
    t = {"kwargs": {"which": which}}
    # stated bound: And / Or / Not nest at most two levels deep below the root (code that recurses through the connectives is followed that far)
    return explore(body, simp._opts(8, tier, budget_s=200, max_arity=2, nested_arity=2, op_depth_bound={"And": 2, "Or": 2, "Not": 2, "If": 1},
                                    replay=lambda f: replay_concrete_truth_node(t, f)))


def replay_concrete_truth_node(task, failure):
    """native: a small grammar of Boolean expressions over a symbolic atom and non-literal concretely-true / concretely-false operands (kept
    unfolded by a non-eliminatable annotation) on the real claripy.backends.concrete; Z3 decides validity"""
    import claripy
    import z3 as _z
    which = task["kwargs"]["which"]

    class Keep(claripy.Annotation):
        eliminatable = False
        relocatable = False
    b = claripy.BoolS("ctn_b", explicit_name=True)
    t = claripy.BVV(1, 8).annotate(Keep()) == 1
    f = claripy.BVV(1, 8).annotate(Keep()) == 2
    atoms = [b, claripy.Not(b), t, f]
    exprs = list(atoms)
    for op in (claripy.And, claripy.Or):
        for x in atoms:
            for y in atoms:
                exprs.append(op(x, y))
    B = claripy.backends.z3
    for e in exprs:
        try:
            ans = getattr(claripy.backends.concrete, which)(e)
        except Exception:  # noqa
            continue
        if not ans:
            continue
        s = _z.Solver(ctx=B._context)
        ze = B.convert(e)
        s.add(_z.Not(ze) if which == "is_true" else ze)
        if s.check() == _z.sat:
            return {"reproduced": True, "text": f"claripy.backends.concrete.{which}({e}) = True; Z3: {'refuted' if which == 'is_true' else 'satisfied'} by {s.model()}"}
    return {"reproduced": False, "text": "no native reproducer in the grammar"}
