"""C10: cheap truth checks never claim a truth value that does not hold.

(a) Backend.is_true / Backend.is_false with their per-hash caches: class invariant
        _true_cache[h] is True  => e_h is valid        _false_cache[h] is True => e_h is unsatisfiable
    proved on the real methods (backend.py re-loaded each run) for every cache state of the key, with
    _is_true/_is_false/convert of the concrete backend class answered by contract (True only if it holds).
(b) BackendConcrete.is_true/is_false/_is_true/_is_false on converted objects (real code).
(c) algorithm.bool_check.is_true/is_false (real code over the contract of backends.concrete)."""
from __future__ import annotations

import z3

from vf.engine import loader, paths, proxies
from vf.engine.paths import cur, explore, Undecided, PathEnd
from vf.engine.proxies import SymBool
from claripy.errors import BackendError

_c = {}


class E:
    """expression handle with ghost semantics: valid / unsatisfiable (never both)"""
    def __init__(self, name="e", key=7):
        self.valid = z3.Bool(name + "_valid")
        self.unsat = z3.Bool(name + "_unsat")
        c = cur()
        c.assume(z3.Not(z3.And(self.valid, self.unsat)))
        c.watch[name + "_valid"], c.watch[name + "_unsat"] = self.valid, self.unsat
        self.key = key

    def hash(self):
        return self.key


def load_backend():
    if "b" not in _c:
        _c["b"] = loader.load("claripy/backends/backend.py", "claripy.backends.backend", overrides={"Base": E})
    return _c["b"]


def ob_backend_cache(which):
    """which in is_true / is_false"""
    ns = load_backend()
    Backend = ns["Backend"]

    class HB(Backend):
        __slots__ = ("raised",)

        def convert(self, e):
            return e

        def _is_true(self, e, extra_constraints=(), solver=None, model_callback=None):
            k = cur().choose([e.valid, True, True], "_is_true")      # True only if valid / False / BackendError
            if k == 2:
                raise BackendError("cannot tell")
            return k == 0

        def _is_false(self, e, extra_constraints=(), solver=None, model_callback=None):
            k = cur().choose([e.unsat, True, True], "_is_false")
            if k == 2:
                raise BackendError("cannot tell")
            return k == 0

    def body(c):
        b = HB()
        e = E()
        other = 99
        # arbitrary cache state for e's key satisfying the invariant
        for cache, sem in ((b._true_cache, e.valid), (b._false_cache, e.unsat)):
            k = c.choose([True, sem, True], "cache-entry")       # absent / True (requires the fact) / False
            if k == 1:
                cache[e.key] = True
            elif k == 2:
                cache[e.key] = False
            cache[other] = "sentinel"
        nx = c.choose([True, True], "extra")
        extra = ("x",) if nx else ()
        try:
            r = getattr(b, which)(e, extra_constraints=extra)
        except BackendError:
            r = None
        except (PathEnd, Undecided):
            raise
        except Exception as ex:  # noqa
            c.fail(f"Backend.{which}/raises", f"{type(ex).__name__}: {ex}", kind="raises")
            return "raised"
        sem = e.valid if which == "is_true" else e.unsat
        if r is not None:
            if not isinstance(r, bool):
                c.fail(f"Backend.{which}/type", f"returned {r!r}")
            elif r:
                c.check(f"Backend.{which}/sound", sem, f"{which}() returned True for an expression for which it does not hold")
            else:
                c.check(f"Backend.{which}/false-is-allowed", True)
        else:
            c.check(f"Backend.{which}/backend-error", True)
        for cache, s2, nm in ((b._true_cache, e.valid, "_true_cache"), (b._false_cache, e.unsat, "_false_cache")):
            v = cache.get(e.key, None)
            if v is True:
                c.check(f"Backend.{which}/inv{nm}", s2, f"{nm} holds True for an expression for which it does not hold", kind="invariant")
            elif v not in (None, False):
                c.fail(f"Backend.{which}/inv{nm}-type", f"{nm} entry is {v!r}")
            if cache.get(other) != "sentinel" or set(cache) - {e.key, other}:
                c.fail(f"Backend.{which}/frame", f"{nm} entries of other expressions were touched", kind="frame")
        return f"r={r}"

    return explore(body, {"budget_s": 120})


def ob_concrete_truth(which):
    """BackendConcrete.is_true/is_false on a Bool AST whose converted object is a Python bool (or on a number)."""
    import claripy as real
    ns = _c.get("bc")
    if ns is None:
        class NSClaripy:
            true = staticmethod(lambda: TRUE)
            false = staticmethod(lambda: FALSE)
            BVV = staticmethod(real.BVV)
            BoolV = staticmethod(real.BoolV)
        ns = _c["bc"] = loader.load("claripy/backends/backend_concrete/backend_concrete.py",
                                    "claripy.backends.backend_concrete.backend_concrete", overrides={"claripy": NSClaripy})
    BC = ns["BackendConcrete"]

    class HBC(BC):
        def convert(self, x):        # contract of convert on a concrete Bool expression: its exact value (C01)
            return x.conv

    def body(c):
        b = HBC()
        val = z3.Bool("value")          # the concrete value of the Bool expression (C01: folding is exact)
        c.watch["value"] = val
        kind = c.choose([True, True, True], "kind")     # the literal true node / the literal false node / another concrete Bool
        if kind == 0:
            e = TRUE
            c.assume(val)
        elif kind == 1:
            e = FALSE
            c.assume(z3.Not(val))
        else:
            e = LIT(SymBool(val))
        try:
            r = getattr(b, which)(e)
        except (PathEnd, Undecided):
            raise
        except BackendError:
            c.check(f"BackendConcrete.{which}/backend-error", True)
            return "be"
        except Exception as ex:  # noqa
            c.fail(f"BackendConcrete.{which}/raises", f"{type(ex).__name__}: {ex}", kind="raises")
            return "raised"
        rz = proxies.zbool(r) if isinstance(r, (bool, SymBool)) else None
        if rz is None:
            c.fail(f"BackendConcrete.{which}/type", f"returned {type(r).__name__}")
            return "type"
        c.check(f"BackendConcrete.{which}/sound", z3.Implies(rz, val if which == "is_true" else z3.Not(val)),
                f"{which}() returned True although the expression has the other value")
        return "ret"

    return explore(body, {"budget_s": 120})


class LIT:
    """a concrete Bool AST; conv is the converted object (a Python bool)"""
    def __init__(self, conv, key=5):
        self.conv = conv
        self.key = key
        self.op = "BoolV"

    def hash(self):
        return self.key

    def __vf_is__(self, o):
        return self is o


TRUE = LIT(True, 1)
FALSE = LIT(False, 2)


def ob_bool_check(which):
    """algorithm.bool_check.is_true/is_false: returns concrete.is_true(expr), or False when it raises BackendError."""
    def body(c):
        e = E()
        sem = e.valid if which == "is_true" else e.unsat

        class Conc:
            @staticmethod
            def is_true(x):
                k = c.choose([x.valid, True, True], "concrete.is_true")
                if k == 2:
                    raise BackendError("no")
                return k == 0

            @staticmethod
            def is_false(x):
                k = c.choose([x.unsat, True, True], "concrete.is_false")
                if k == 2:
                    raise BackendError("no")
                return k == 0
        NS = type("NS", (), {"backends": type("B", (), {"concrete": Conc})})
        ns = loader.load("claripy/algorithm/bool_check.py", "claripy.algorithm.bool_check", overrides={"claripy": NS})
        try:
            r = ns[which](e)
        except (PathEnd, Undecided):
            raise
        except Exception as ex:  # noqa
            c.fail(f"bool_check.{which}/raises", f"{type(ex).__name__}: {ex}", kind="raises")
            return "raised"
        if not isinstance(r, bool):
            c.fail(f"bool_check.{which}/type", f"returned {r!r}")
        elif r:
            c.check(f"bool_check.{which}/sound", sem, "returned True although it does not hold")
        else:
            c.check(f"bool_check.{which}/false-is-allowed", True)
        return f"r={r}"

    return explore(body, {"budget_s": 60})
