"""C24 lifting lemmas: every operator wrapper of BackendVSA (claripy/backends/backend_vsa/backend_vsa.py, re-loaded from
/repo on every run) is sound *given* the C21/C22/C23 contracts of the abstract values it calls (vf/contracts/absval.py).

For each claripy operation name the REAL dispatch of the VSA backend is executed - the tables built by the real
`BackendVSA.__init__`, the real `Backend._call` with its `operator`-module fallback, the real wrapper, the real dunder methods of
StridedInterval - on abstract operands whose member sets are arbitrary, and z3 proves
        x_i in gamma(arg_i)   ==>   [[op]](x_1..x_n) in gamma(result)            (truth value in result.value for Booleans)
with [[op]] the SMT-LIB reference semantics of vf/contracts/sem.py.  An operation the backend refuses (BackendError) yields no
abstract value, which excludes nothing; refusals are counted as covers so that a backend that refuses everything is visible.
"""
from __future__ import annotations

import z3

from vf.engine import loader, paths, proxies
from vf.engine.paths import cur, explore, Undecided
from vf.engine.proxies import SymInt, SymBool, _bv
from vf.contracts import absval, sem
from vf.contracts import si as sic

BV_PATH = "claripy/backends/backend_vsa/backend_vsa.py"
VS_PATH = "claripy/backends/backend_vsa/valueset.py"
_cache = {}


def load_vs():
    """valueset.py re-loaded from /repo with the abstract-value contract in place of StridedInterval."""
    if "vs" in _cache:
        return _cache["vs"]
    CSI = absval.load()
    ns = loader.load(VS_PATH, "claripy.backends.backend_vsa.valueset", overrides={"StridedInterval": CSI})
    _cache["vs"] = ns
    return ns


def load_backend():
    if "b" in _cache:
        return _cache["b"]
    CSI = absval.load()
    vs = load_vs()
    ns = loader.load(BV_PATH, "claripy.backends.backend_vsa.backend_vsa",
                     overrides={"StridedInterval": CSI, "ValueSet": vs["ValueSet"]})
    B = ns["BackendVSA"]()        # the real __init__ builds the real dispatch tables
    _cache["b"] = (ns, B)
    return ns, B


def _opts(tier, **kw):
    o = {"timeout_ms": 20000 if tier == "quick" else 120000, "budget_s": 200 if tier == "quick" else 2000,
         "max_paths": 40000, "max_depth": 20000, "max_failures": 2}
    o.update(kw)
    return o


def sym_boolresult(name):
    """an arbitrary BoolResult together with a symbolic truth value it contains"""
    from claripy.backends.backend_vsa.bool_result import TrueResult, FalseResult, MaybeResult
    c = cur()
    i = c.choose([True, True, True], name + "-shape")
    r = (TrueResult, FalseResult, MaybeResult)[i]()
    b = z3.Bool(name)
    c.watch[name] = b
    if i == 0:
        c.assume(b)
    elif i == 1:
        c.assume(z3.Not(b))
    return r, b


def check_result(c, label, r, ref, CSI, bits=None, operands=()):
    """ref (z3 term: Bool or BitVec) must be contained in the abstract result r"""
    from claripy.backends.backend_vsa.bool_result import BoolResult
    if z3.is_bool(ref):
        if isinstance(r, bool):
            r = BoolResult((r,))          # the backend's own queries (BoolResult.is_true / has_true ...) read a Python bool as a definite answer
        if not isinstance(r, BoolResult):
            c.fail(label + "/type", f"Boolean operation returned {type(r).__name__}")
            return
        vals = tuple(r.value)
        c.ghost["res"] = repr(vals)
        ok = z3.Or(*[ref == z3.BoolVal(bool(v)) for v in vals]) if vals else z3.BoolVal(False)
        c.check(label + "/gamma", ok, f"the truth value of the member operands is not in the result {vals}")
        return
    if not isinstance(r, CSI):
        c.fail(label + "/type", f"bit-vector operation returned {type(r).__name__}")
        return
    if r._bits != ref.size():
        c.fail(label + "/bits", f"result width {r._bits} != {ref.size()}")
        return
    c.watch["ref"] = ref
    c.watch["result_mask"] = r._mask
    c.check(label + "/gamma", absval.contains(r, ref), "the reference result of member operands is not in gamma(result)")
    # name discipline (StridedInterval.eq answers True for two values of the same name): an operand's name on the result only if the
    # result always has that operand's value
    for o, oval in operands:
        if isinstance(o, CSI) and getattr(o, "_name", None) == getattr(r, "_name", object()) and z3.is_bv(oval) and oval.size() == ref.size():
            c.check(label + "/name-only-if-same-value", ref == oval,
                    "the result carries an operand's name although its value can differ from that operand's: a later == of the two answers a definite True")


# ---- the operation table: name -> (argument sorts, builder of harness arguments) -----------------------------------

def bv_ops():
    """every bit-vector / Boolean operation name claripy can put into an AST (taken from claripy.operations at run time), except
    leaves, If and the set operations (own obligations) and the reversed spellings (never an AST op: reversed_op swaps the arguments)"""
    from claripy import operations as ops
    names = set(ops.expression_operations) | set(ops.backend_operations) | set(ops.backend_operations_vsa_compliant)
    names -= set(ops.expression_set_operations) | set(ops.backend_creation_operations) | set(ops.backend_symbol_creation_operations) | {"If", "__abs__"}
    names = {n for n in names if not (n.startswith("__r") and n != "__rshift__" and ("__" + n[3:]) in names)}
    return sorted(names)


NARY = set(sem.BV_NARY)
BIN = set(sem.BV_BIN) | set(sem.BV_CMP) | {"__eq__", "__ne__"}
UN = set(sem.BV_UN)


def ob_dispatch(op, w, tier="quick", arity=2, bool_operands=False):
    ns, B = load_backend()
    CSI = absval.load()
    from claripy.errors import BackendError
    proxies.set_iw(16)

    def body(c):
        zargs, args = [], []
        if bool_operands:
            # == / != between two Boolean expressions (the AST operation is the same as for bit-vectors; the operands are abstract truth values)
            for i in range(2):
                r, b = sym_boolresult(f"b{i}")
                args.append(r); zargs.append(b)
        elif op in NARY or op in BIN:
            n = arity if op in NARY else 2
            for i in range(n):
                a = absval.sym(f"a{i}", w)
                zargs.append(absval.sym_member(f"x{i}", a))
                args.append(a)
            if op in ("__floordiv__", "__truediv__", "__mod__", "SDiv", "SMod"):
                c.assume(zargs[1] != 0)
        elif op in UN:
            a = absval.sym("a0", 8 if op == "Reverse" else w)
            zargs.append(absval.sym_member("x0", a))
            args.append(a)
        elif op in ("And", "Or"):
            for i in range(arity):
                r, b = sym_boolresult(f"b{i}")
                args.append(r); zargs.append(b)
        elif op == "Not":
            r, b = sym_boolresult("b0")
            args.append(r); zargs.append(b)
        elif op == "Concat":
            for i in range(arity):
                a = absval.sym(f"a{i}", w)
                zargs.append(absval.sym_member(f"x{i}", a))
                args.append(a)
        elif op in ("ZeroExt", "SignExt"):
            n = c.choose([True] * 3, "ext-by")          # extend by 0, 1, 2 bits
            a = absval.sym("a0", w)
            zargs = [n, absval.sym_member("x0", a)]
            args = [n, a]
        elif op == "Extract":
            pairs = [(h, l) for h in range(w) for l in range(h + 1)]
            h, l = pairs[c.choose([True] * len(pairs), "extract-bounds")]
            a = absval.sym("a0", w)
            zargs = [h, l, absval.sym_member("x0", a)]
            args = [h, l, a]
        else:
            raise Undecided(f"no harness for operation {op}")
        ref = sem.sem(op, zargs)
        if ref is None:
            raise Undecided(f"no reference semantics for {op}")
        try:
            r = B._call(op, args)
        except (paths.PathEnd, paths.Undecided):
            raise
        except BackendError as e:
            c.check(f"{op}/refusal", True, "a refusal excludes no value")
            return "refused:" + type(e).__name__
        except Exception as e:  # noqa
            import traceback
            tb = traceback.extract_tb(e.__traceback__)
            where = next((f"{fr.name}:{fr.lineno}" for fr in reversed(tb) if "backend" in fr.filename), "?")
            c.fail(f"{op}/raises", f"{type(e).__name__}: {e} at {where}", kind="raises")
            return "raised"
        check_result(c, op, r, ref, CSI, operands=tuple((a_, z_) for a_, z_ in zip(args, zargs) if not isinstance(a_, int)))
        return "answered"

    res = explore(body, _opts(tier))
    return res


def _guard(c, label, f, refusal_ok=True):
    """run real code; BackendError = refusal (sound), any other exception on a feasible path is a failed obligation"""
    from claripy.errors import BackendError
    try:
        return True, f()
    except (paths.PathEnd, paths.Undecided):
        raise
    except BackendError as e:
        if refusal_ok:
            c.check(f"{label}/refusal", True, "a refusal excludes no value")
            return False, "refused:" + type(e).__name__
        c.fail(f"{label}/raises", f"{type(e).__name__}: {e}", kind="raises")
        return False, "raised"
    except Exception as e:  # noqa
        import traceback
        tb = traceback.extract_tb(e.__traceback__)
        where = next((f"{fr.name}:{fr.lineno}" for fr in reversed(tb) if "claripy" in fr.filename), "?")
        c.fail(f"{label}/raises", f"{type(e).__name__}: {e} at {where}", kind="raises")
        return False, "raised"


def ob_if(w, tier="quick"):
    """BackendVSA.If through the real dispatch table, has_true/has_false through the real Backend methods"""
    ns, B = load_backend()
    CSI = absval.load()
    proxies.set_iw(16)

    def body(c):
        cond, b = sym_boolresult("c")
        t = absval.sym("t", w)
        f = absval.sym("f", w)
        x = absval.sym_member("x", t)
        y = absval.sym_member("y", f)
        ok, r = _guard(c, "If", lambda: B._call("If", [cond, t, f]))
        if not ok:
            return r
        check_result(c, "If", r, z3.If(b, x, y), CSI, operands=((t, x), (f, y)))
        return "answered"
    return explore(body, _opts(tier))


def ob_if_bool(tier="quick"):
    """If over Boolean branches (BoolResult.union)"""
    ns, B = load_backend()
    CSI = absval.load()
    proxies.set_iw(16)

    def body(c):
        cond, b = sym_boolresult("c")
        t, x = sym_boolresult("t")
        f, y = sym_boolresult("f")
        ok, r = _guard(c, "If[bool]", lambda: B._call("If", [cond, t, f]))
        if not ok:
            return r
        check_result(c, "If[bool]", r, z3.If(b, x, y), CSI)
        return "answered"
    return explore(body, _opts(tier))


class _Leaf:
    """stand-in for a leaf AST: the wrappers read .args, .size() and .annotations only"""
    def __init__(self, op, args, bits=None):
        self.op, self.args, self._bits, self.annotations = op, args, bits, ()

    def size(self):
        return self._bits

    def __len__(self):
        return self._bits


def ob_leaf(what, w, tier="quick"):
    kind = what
    ns, B = load_backend()
    CSI = absval.load()
    proxies.set_iw(3 * w + 8)

    def body(c):
        if kind == "BVV":
            v = SymInt.fresh("v", 0, (1 << w) - 1)
            ok, r = _guard(c, "BVV", lambda: B._op_expr["BVV"](_Leaf("BVV", (v, w), w)), refusal_ok=False)
            if not ok:
                return r
            check_result(c, "BVV", r, z3.Extract(w - 1, 0, v.z), CSI)
        elif kind == "BVS":
            ok, r = _guard(c, "BVS", lambda: B._op_expr["BVS"](_Leaf("BVS", ("x_1_8", None, None, None, False, False, None), w)), refusal_ok=False)
            if not ok:
                return r
            v = z3.BitVec("v", w)
            c.watch["v"] = v
            check_result(c, "BVS", r, v, CSI)           # a free variable can take every value
        elif kind == "BoolV":
            val = c.choose([True, True], "value") == 0
            ok, r = _guard(c, "BoolV", lambda: B._op_expr["BoolV"](_Leaf("BoolV", (val,))), refusal_ok=False)
            if not ok:
                return r
            check_result(c, "BoolV", r, z3.BoolVal(val), CSI)
        return "answered"
    return explore(body, _opts(tier))


def ob_annotation(what, w, tier="quick"):
    kind = what
    """apply_annotation: the annotated value contains every value the annotation allows (per region for region annotations)"""
    ns, B = load_backend()
    CSI = absval.load()
    vs = load_vs()
    from claripy.annotation import StridedIntervalAnnotation, RegionAnnotation, UninitializedAnnotation
    proxies.set_iw(3 * w + 8)
    iw = proxies.get_iw()
    M = (1 << w) - 1

    def body(c):
        if kind == "si":
            o = CSI.top(w, "var")
            lb = SymInt.fresh("lb", 0, M); ub = SymInt.fresh("ub", 0, M); st = SymInt.fresh("stride", 0, M)
            c.assume(z3.Implies(st.z == 0, lb.z == ub.z))
            v = SymInt.fresh("v", 0, M)
            # v is a member of stride[lb, ub] by the specification
            off = sic.zmod(v.z - lb.z, w); span = sic.zmod(ub.z - lb.z, w)
            c.assume(z3.If(st.z == 0, v.z == lb.z, z3.And(z3.ULE(off, span), z3.URem(off, st.z) == 0)))
            ok, r = _guard(c, "apply_annotation[si]", lambda: B.apply_annotation(o, StridedIntervalAnnotation(st, lb, ub)), refusal_ok=False)
            if not ok:
                return r
            check_result(c, "apply_annotation[si]", r, z3.Extract(w - 1, 0, v.z), CSI)
        elif kind == "region":
            o = absval.sym("offset", w)
            x = absval.sym_member("x", o)
            base = SymInt.fresh("base", 0, M)
            ok, r = _guard(c, "apply_annotation[region]", lambda: B.apply_annotation(o, RegionAnnotation("stack_1", base)), refusal_ok=False)
            if not ok:
                return r
            if not isinstance(r, vs["ValueSet"]):
                c.fail("apply_annotation[region]/type", f"returned {type(r).__name__}")
                return "answered"
            reg = r.regions.get("stack_1")
            if reg is None:
                c.fail("apply_annotation[region]/region", "the annotated region is missing from the value set")
                return "answered"
            if set(r.regions) != {"stack_1"}:
                c.fail("apply_annotation[region]/regions", f"unexpected regions {sorted(r.regions)}")
            check_result(c, "apply_annotation[region]", reg, x, CSI)
        elif kind == "uninit":
            o = absval.sym("o", w)
            x = absval.sym_member("x", o)
            ok, r = _guard(c, "apply_annotation[uninit]", lambda: B.apply_annotation(o, UninitializedAnnotation()), refusal_ok=False)
            if not ok:
                return r
            check_result(c, "apply_annotation[uninit]", r, x, CSI)
        return "answered"
    return explore(body, _opts(tier))


def ob_query(q, w, tier="quick"):
    """_eval/_min/_max/_solution/_has_true/_has_false/_is_true/_is_false/_cardinality never exclude a value that exists"""
    ns, B = load_backend()
    CSI = absval.load()
    proxies.set_iw(3 * w + 8)
    iw = proxies.get_iw()

    def body(c):
        if q in ("has_true", "has_false", "is_true", "is_false"):
            r0, b = sym_boolresult("e")
            ok, r = _guard(c, q, lambda: getattr(B, "_" + q)(r0), refusal_ok=False)
            if not ok:
                return r
            rz = proxies.zbool(r)
            want = {"has_true": z3.Implies(b, rz), "has_false": z3.Implies(z3.Not(b), rz),
                    "is_true": z3.Implies(rz, b), "is_false": z3.Implies(rz, z3.Not(b))}[q]
            c.check(q + "/sound", want, f"_{q} answered {r} although the expression can take the other truth value")
            return "answered"
        a = absval.sym("a", w, nonempty=True)
        x = absval.sym_member("x", a)
        if q.startswith("eval"):
            n = int(q[4:])
            ok, r = _guard(c, q, lambda: B._eval(a, n), refusal_ok=False)
            if not ok:
                return r
            vals = [z3.Extract(w - 1, 0, _bv(v)) for v in r]
            for i, v in enumerate(vals):
                c.check(f"{q}/members-only", absval.contains(a, v), f"value {i} returned by _eval is not a value the expression takes")
            # fewer than n values returned => nothing that exists is missing
            if len(vals) < n:
                c.check(f"{q}/complete", z3.Or(*[x == v for v in vals]) if vals else False, "_eval returned fewer than n values and misses a member")
            return f"answered{len(vals)}"
        if q in ("min", "max"):
            signed = c.choose([True, True], "signed") == 1
            ok, r = _guard(c, q, lambda: getattr(B, "_" + q)(a, signed=signed), refusal_ok=False)
            if not ok:
                return r
            if r is None:
                c.fail(q + "/none", "no bound returned for a non-empty value")
                return "answered"
            rz = _bv(r)
            xz = z3.SignExt(iw - w, x) if signed else z3.ZeroExt(iw - w, x)
            c.watch["res"] = rz
            c.check(q + "/bound", (rz <= xz) if q == "min" else (rz >= xz), f"_{q} excludes a value the expression takes")
            c.check(q + "/attained", absval.contains(a, z3.Extract(w - 1, 0, rz)), f"_{q} is not a value the expression takes")
            return "answered"
        if q == "solution":
            v = absval.sym("v", w)
            c.assume(absval.contains(v, x))
            ok, r = _guard(c, q, lambda: B._solution(a, v), refusal_ok=False)
            if not ok:
                return r
            c.check("solution/sound", proxies.zbool(r), "_solution answered False although the two values share a member")
            return "answered"
        if q == "solution[bool]":
            e, b = sym_boolresult("e")
            v, b2 = sym_boolresult("v")
            c.assume(b == b2)
            ok, r = _guard(c, q, lambda: B._solution(e, v), refusal_ok=False)
            if not ok:
                return r
            c.check("solution[bool]/sound", proxies.zbool(r), "_solution answered False although the truth values intersect")
            return "answered"
        if q == "cardinality":
            ok, r = _guard(c, q, lambda: B._cardinality(a), refusal_ok=False)
            if not ok:
                return r
            c.check("cardinality/not-below", _bv(r) >= absval.popcount(a._mask, iw), "_cardinality is smaller than the number of values")
            return "answered"
        if q == "identical":
            b_ = absval.sym("b", w)
            ok, r = _guard(c, q, lambda: B._identical(a, b_), refusal_ok=False)
            if not ok:
                return r
            c.check("identical/sound", z3.Implies(proxies.zbool(r), a._mask == b_._mask), "_identical answered True for different value sets")
            return "answered"
        raise Undecided(q)
    return explore(body, _opts(tier))


def ob_setop(op, w, tier="quick"):
    """BackendVSA.union / intersection / widen (expression-level set operations): self.convert by contract"""
    ns, _B = load_backend()
    CSI = absval.load()
    proxies.set_iw(16)
    BackendVSA = ns["BackendVSA"]

    def body(c):
        a = absval.sym("a", w)
        b = absval.sym("b", w)
        n0, n1 = _Leaf("n0", ()), _Leaf("n1", ())
        table = {id(n0): a, id(n1): b}

        class H(BackendVSA):
            def convert(self, e):            # contract of Backend.convert: the abstract value of the argument
                return table[id(e)]
        h = object.__new__(H)
        x = z3.BitVec("x", w)
        c.watch["x"] = x
        if op == "intersection":
            c.assume(z3.And(absval.contains(a, x), absval.contains(b, x)))
        else:
            c.assume(z3.Or(absval.contains(a, x), absval.contains(b, x)))
        if not c.path_feasible():
            raise paths.PathEnd()
        ok, r = _guard(c, op, lambda: getattr(h, op)(_Leaf(op, (n0, n1), w)), refusal_ok=False)
        if not ok:
            return r
        check_result(c, op, r, x, CSI)
        return "answered"
    return explore(body, _opts(tier))


# ---- native replay: search the failing obligation's operation on the real, unmodified claripy over a pool of plain intervals ------

def _pool(w):
    """plain strided intervals of width w (non-wrapping, power-of-two stride aligned to the span): the inputs on which the C21/C22
    transfer functions are proved, so a containment failure found here is the wrapper's"""
    from claripy.backends.backend_vsa import StridedInterval as SI
    out = []
    M = 1 << w
    for lb in range(M):
        out.append(SI(bits=w, stride=0, lower_bound=lb, upper_bound=lb))
        for st in (1, 2, 4):
            for ub in range(lb + st, M, st):
                out.append(SI(bits=w, stride=st, lower_bound=lb, upper_bound=ub))
    return out


def _py_sem(op, xs, w):
    import z3 as _z
    zs = [(_z.BoolVal(x) if isinstance(x, bool) else (_z.BitVecVal(x[0], x[1]) if isinstance(x, tuple) else x)) for x in xs]
    r = _z.simplify(sem.sem(op, zs))
    return _z.is_true(r) if _z.is_bool(r) else r.as_long()


def replay(task, failure):
    """native search for a concrete input of the failed obligation (real claripy, real StridedInterval, nothing symbolic)"""
    import itertools
    from claripy.backends import vsa as B
    from claripy.backends.backend_vsa.bool_result import BoolResult, TrueResult, FalseResult, MaybeResult
    from claripy.errors import BackendError
    fn, kw = task["fn"], task["kwargs"]
    w = kw.get("w", 2)
    mem = sic.py_members
    pool = _pool(w)
    bools = [(TrueResult(), [True]), (FalseResult(), [False]), (MaybeResult(), [True, False])]

    def contained(r, v):
        if isinstance(r, BoolResult):
            return v in r.value
        return v in mem(r)

    def bad(text):
        return {"reproduced": True, "text": text}

    try:
        if "name-only-if-same-value" in str(failure.get("label")):
            from claripy.backends.backend_vsa import StridedInterval as SI
            t = SI(bits=8, stride=1, lower_bound=1, upper_bound=5, name="kf_t")
            f = SI(bits=8, stride=1, lower_bound=1, upper_bound=5, name="kf_f")
            r = B._call("If", [MaybeResult(), t, f]) if fn in ("ob_if",) else None
            if r is not None and r.name in (t.name, f.name):
                other = f if r.name == t.name else t
                return bad(f"vsa If(Maybe, {t} named {t.name!r}, {f} named {f.name!r}) returns an interval named {r.name!r}: it compares == to that branch with "
                           f"{r.eq(t if r.name == t.name else f).value} although the If takes the other branch's value (any of {sorted(mem(other))}) when the condition says so")
            return {"reproduced": False, "text": "the join of two branches with equal intervals gets a name of its own on the real code"}
        if fn == "ob_dispatch":
            op = kw["op"]
            if kw.get("bool_operands"):
                x = __import__("claripy").BVS("x", 8)
                for (ra, va), (rb, vb) in itertools.product(bools, bools):
                    r = B._call(op, [ra, rb])
                    rv = (r,) if isinstance(r, bool) else tuple(r.value)
                    for p, q in itertools.product(va, vb):
                        v = (p == q) if op == "__eq__" else (p != q)
                        if v not in rv:
                            return bad(f"vsa._call({op!r}, [BoolResult{tuple(ra.value)}, BoolResult{tuple(rb.value)}]) = {r!r}: the operands can be {p} and {q}, "
                                       f"which gives {v}; e.g. claripy.backends.vsa.is_true((x > 3) == (x > 5)) answers True although x = 4 makes it False")
            elif op in NARY or op in BIN:
                for a, b in itertools.product(pool, pool):
                    try:
                        r = B._call(op, [a, b])
                    except BackendError:
                        continue
                    for x in mem(a):
                        for y in mem(b):
                            if y == 0 and op in ("__floordiv__", "__truediv__", "__mod__", "SDiv", "SMod"):
                                continue
                            v = _py_sem(op, [(x, w), (y, w)], w)
                            if not contained(r, v):
                                return bad(f"vsa._call({op!r}, [{a}, {b}]) = {r}: members x={x} y={y} give {v}, which the result excludes")
            elif op in UN and op != "Reverse":
                for a in pool:
                    r = B._call(op, [a])
                    for x in mem(a):
                        v = _py_sem(op, [(x, w)], w)
                        if not contained(r, v):
                            return bad(f"vsa._call({op!r}, [{a}]) = {r}: member {x} gives {v}, which the result excludes")
            elif op in ("And", "Or", "Not"):
                n = 1 if op == "Not" else 2
                for combo in itertools.product(bools, repeat=n):
                    r = B._call(op, [c[0] for c in combo])
                    for vals in itertools.product(*[c[1] for c in combo]):
                        v = _py_sem(op, list(vals), w)
                        if not contained(r, v):
                            return bad(f"vsa._call({op!r}, {[c[0].value for c in combo]}) = {r.value}: truth values {vals} give {v}")
            elif op == "Concat":
                for a, b in itertools.product(pool, pool):
                    r = B._call(op, [a, b])
                    for x in mem(a):
                        for y in mem(b):
                            if ((x << w) | y) not in mem(r):
                                return bad(f"vsa._call('Concat', [{a}, {b}]) = {r} excludes {(x << w) | y} = {x}..{y}")
            elif op in ("ZeroExt", "SignExt"):
                for a in pool:
                    for n in (0, 1, 2):
                        r = B._call(op, [n, a])
                        for x in mem(a):
                            v = x if op == "ZeroExt" else (x - (1 << w) if x >> (w - 1) else x) % (1 << (w + n))
                            if r.bits != w + n or v not in mem(r):
                                return bad(f"vsa._call({op!r}, [{n}, {a}]) = {r} ({r.bits} bits) excludes {v} (from member {x})")
            elif op == "Extract":
                for a in pool:
                    for h in range(w):
                        for l in range(h + 1):
                            r = B._call(op, [h, l, a])
                            for x in mem(a):
                                v = (x >> l) & ((1 << (h - l + 1)) - 1)
                                if r.bits != h - l + 1 or v not in mem(r):
                                    return bad(f"vsa._call('Extract', [{h}, {l}, {a}]) = {r} excludes {v} (from member {x})")
        elif fn == "ob_if":
            for (cnd, cv), t, f in itertools.product(bools, pool, pool):
                r = B._call("If", [cnd, t, f])
                want = (mem(t) if True in cv else set()) | (mem(f) if False in cv else set())
                if not want <= mem(r):
                    return bad(f"vsa If({cnd.value}, {t}, {f}) = {r} excludes {sorted(want - mem(r))}")
        elif fn == "ob_if_bool":
            for (cnd, cv), (t, tv), (f, fv) in itertools.product(bools, bools, bools):
                r = B._call("If", [cnd, t, f])
                want = (set(tv) if True in cv else set()) | (set(fv) if False in cv else set())
                if not want <= set(r.value):
                    return bad(f"vsa If({cnd.value}, {t.value}, {f.value}) = {r.value} excludes {sorted(want - set(r.value))}")
        elif fn == "ob_leaf" and kw["what"] == "BVV":
            import claripy
            for v in range(1 << w):
                r = B.convert(claripy.BVV(v, w))
                if v not in mem(r):
                    return bad(f"vsa.convert(BVV({v}, {w})) = {r} excludes {v}")
        elif fn == "ob_leaf" and kw["what"] == "BVS":
            import claripy
            r = B.convert(claripy.BVS("x", w))
            if mem(r) != set(range(1 << w)):
                return bad(f"vsa.convert(BVS('x', {w})) = {r} is not the full range")
        elif fn == "ob_annotation" and kw["what"] == "si":
            import claripy
            for p in pool:
                e = claripy.SI(name="x", bits=w, stride=p.stride, lower_bound=p.lower_bound, upper_bound=p.upper_bound)
                r = B.convert(e)
                if not mem(p) <= mem(r):
                    return bad(f"vsa.convert(SI(bits={w}, stride={p.stride}, lower_bound={p.lower_bound}, upper_bound={p.upper_bound})) = {r} excludes {sorted(mem(p) - mem(r))}")
        elif fn == "ob_query":
            q = kw["q"]
            for a in pool:
                A = mem(a)
                if q.startswith("eval"):
                    n = int(q[4:])
                    r = list(B._eval(a, n))
                    if any(v not in A for v in r) or (len(r) < n and set(r) != A):
                        return bad(f"vsa._eval({a}, {n}) = {r}; values {sorted(A)}")
                elif q in ("min", "max"):
                    for signed in (False, True):
                        r = getattr(B, "_" + q)(a, signed=signed)
                        key = (lambda v: v - (1 << w) if v >> (w - 1) else v) if signed else (lambda v: v)
                        best = (min if q == "min" else max)(key(v) for v in A)
                        if r != best:
                            return bad(f"vsa._{q}({a}, signed={signed}) = {r}; values {sorted(A)} give {best}")
                elif q == "solution":
                    for b in pool:
                        if (A & mem(b)) and not B._solution(a, b):
                            return bad(f"vsa._solution({a}, {b}) = False although they share {sorted(A & mem(b))}")
                elif q == "cardinality":
                    if B._cardinality(a) < len(A):
                        return bad(f"vsa._cardinality({a}) = {B._cardinality(a)} < {len(A)}")
        elif fn == "ob_setop" and kw["op"] != "widen":      # widen itself is a listed C22 finding (unsound callee)
            import claripy
            op = kw["op"]
            for p, q_ in itertools.product(pool, pool):
                mk = lambda s, n: claripy.SI(name=n, bits=w, stride=s.stride, lower_bound=s.lower_bound, upper_bound=s.upper_bound)
                r = B.convert(getattr(mk(p, "p"), op)(mk(q_, "q")))
                want = (mem(p) & mem(q_)) if op == "intersection" else (mem(p) | mem(q_))
                if not want <= mem(r):
                    return bad(f"vsa.convert(SI{p}.{op}(SI{q_})) = {r} excludes {sorted(want - mem(r))}")
    except Exception as e:  # noqa
        import traceback
        return {"reproduced": True, "text": f"native run raised {type(e).__name__}: {e}", "trace": traceback.format_exc()[-1500:]}
    return {"reproduced": False, "text": "no concrete input over the pool of plain intervals of this width reproduces the failed obligation natively"}


# ---- LightFrontend on top of a contract of the backend ------------------------------------------------------------

LF_PATH = "claripy/frontend/light_frontend.py"
LIGHT_METHODS = ["eval", "min", "max", "solution", "is_true", "is_false", "satisfiable", "batch_eval"]


class _Handle:
    """an expression: opaque to the frontend; the backend contract knows its abstract value"""
    def __init__(self, name, val, truth=None):
        self.name, self.val, self.truth = name, val, truth


def ob_light(method, tier="quick", w=2):
    """LightFrontend.<method> never excludes a value / model that exists, given the backend's contract (the C24 lemmas above);
    a BackendError of the backend may only surface as ClaripyFrontendError (eval/min/max/solution/batch_eval) or as the answer False
    (is_true/is_false)"""
    CSI = absval.load()
    from claripy.errors import BackendError, ClaripyFrontendError
    ns = loader.load(LF_PATH, "claripy.frontend.light_frontend")
    LF = ns["LightFrontend"]
    proxies.set_iw(3 * w + 8)
    iw = proxies.get_iw()

    class SpecBackend:
        """contract of BackendVSA's public query methods (what ob_query proves of the private ones), with the public signatures of
        claripy.backends.backend.Backend (extra constraints are ignored by this backend: ignoring a constraint only over-approximates)"""
        def _maybe_refuse(self):
            if cur().choose([True, True], "backend-refuses") == 1:
                raise BackendError("refused")

        def eval(self, e, n, extra_constraints=(), solver=None, model_callback=None):
            self._maybe_refuse()
            return e.val.eval(n)

        def min(self, e, extra_constraints=(), signed=False, solver=None, model_callback=None):
            self._maybe_refuse()
            return e.val.min(signed=signed)

        def max(self, e, extra_constraints=(), signed=False, solver=None, model_callback=None):
            self._maybe_refuse()
            return e.val.max(signed=signed)

        def solution(self, e, v, extra_constraints=(), solver=None, model_callback=None):
            self._maybe_refuse()
            # may answer False only if the two share no value
            share = (e.val._mask & v.val._mask) != 0
            return cur().choose([z3.Not(share), True], "solution-answer") == 1

        def is_true(self, e, extra_constraints=(), solver=None, model_callback=None):
            self._maybe_refuse()
            # may answer True only if the expression is true under every assignment
            return e.always and cur().choose([True, True], "is_true-answer") == 0

        def is_false(self, e, extra_constraints=(), solver=None, model_callback=None):
            self._maybe_refuse()
            return e.never and cur().choose([True, True], "is_false-answer") == 0

        def _batch_eval(self, exprs, n):
            raise BackendError("no batch evaluation in this backend")

    def body(c):
        lf = object.__new__(LF)
        lf._solver_backend = SpecBackend()
        lf.constraints = []
        if method in ("eval", "min", "max", "solution", "batch_eval"):
            a = absval.sym("a", w, nonempty=True)
            x = absval.sym_member("x", a)
            e = _Handle("e", a)
            try:
                if method == "eval":
                    n = 1 + c.choose([True] * 5, "n")
                    r = lf.eval(e, n)
                    if not isinstance(r, tuple):
                        c.fail("eval/type", f"returned {type(r).__name__}")
                        return "answered"
                    vals = [z3.Extract(w - 1, 0, _bv(v)) for v in r]
                    for v in vals:
                        c.check("eval/members-only", absval.contains(a, v), "eval returned a value the expression cannot take")
                    if len(vals) < n:
                        c.check("eval/complete", z3.Or(*[x == v for v in vals]) if vals else False, "eval returned fewer than n values and misses one")
                elif method in ("min", "max"):
                    signed = c.choose([True, True], "signed") == 1
                    r = getattr(lf, method)(e, signed=signed)
                    rz = _bv(r)
                    xz = z3.SignExt(iw - w, x) if signed else z3.ZeroExt(iw - w, x)
                    c.check(method + "/bound", (rz <= xz) if method == "min" else (rz >= xz), f"{method} excludes a value that exists")
                elif method == "solution":
                    v = absval.sym("v", w)
                    c.assume(absval.contains(v, x))
                    r = lf.solution(e, _Handle("v", v))
                    c.check("solution/sound", proxies.zbool(r), "solution answered False although the value is possible")
                else:
                    r = lf.batch_eval([e], 2)
                    c.fail("batch_eval/unexpected", f"returned {r!r} although the backend has no batch evaluation")
            except (paths.PathEnd, paths.Undecided):
                raise
            except ClaripyFrontendError:
                c.check(method + "/refusal", True, "a refusal excludes nothing")
                return "refused"
            except Exception as ex:  # noqa
                c.fail(method + "/raises", f"{type(ex).__name__}: {ex}", kind="raises")
                return "raised"
            return "answered"
        # Boolean side: one symbolic assignment sigma; truth_i = truth of constraint i under sigma
        def bool_handle(name):
            r, b = sym_boolresult(name)
            h = _Handle(name, r, b)
            h.always = (tuple(r.value) == (True,))
            h.never = (tuple(r.value) == (False,))
            return h
        try:
            if method in ("is_true", "is_false"):
                e = bool_handle("e")
                r = getattr(lf, method)(e)
                rz = proxies.zbool(r)
                c.check(method + "/sound", z3.Implies(rz, e.truth if method == "is_true" else z3.Not(e.truth)),
                        f"{method} answered True although the expression can take the other truth value")
            else:
                hs = [bool_handle(f"c{i}") for i in range(3)]
                lf.constraints = hs[:2]
                for h in hs:
                    c.assume(h.truth)                     # sigma satisfies every constraint: a model exists
                if not c.path_feasible():
                    raise paths.PathEnd()
                r = lf.satisfiable(extra_constraints=(hs[2],))
                c.check("satisfiable/sound", proxies.zbool(r), "satisfiable answered False although a model exists")
        except (paths.PathEnd, paths.Undecided):
            raise
        except Exception as ex:  # noqa
            c.fail(method + "/raises", f"{type(ex).__name__}: {ex}", kind="raises")
            return "raised"
        return "answered"
    return explore(body, _opts(tier))


def ob_canary(tier="quick"):
    """vacuity guard: the same harness with deliberately wrong postconditions must FAIL (a contract that assumes False, or a harness that
    generates no members, would let them pass)"""
    ns, B = load_backend()
    CSI = absval.load()
    proxies.set_iw(16)
    w = 2
    bad = []

    def expect_fail(name, body):
        r = explore(body, _opts(tier, max_failures=1))
        if r.status != "violated":
            bad.append(f"{name}: {r.status}")

    def c1(c):   # add is not sub
        a, b = absval.sym("a", w), absval.sym("b", w)
        x, y = absval.sym_member("x", a), absval.sym_member("y", b)
        check_result(c, "canary", B._call("__add__", [a, b]), x - y, CSI)

    def c2(c):   # If must contain the else branch too
        cond, bb = sym_boolresult("c")
        t, f = absval.sym("t", w), absval.sym("f", w)
        x, y = absval.sym_member("x", t), absval.sym_member("y", f)
        check_result(c, "canary", B._call("If", [cond, t, f]), z3.If(bb, y, x), CSI)

    def c3(c):   # a result is not required to be exact: claiming the result is a subset of the pointwise results must fail
        a, b = absval.sym("a", w), absval.sym("b", w)
        r = B._call("__and__", [a, b])
        v = z3.BitVec("v", w)
        c.assume(absval.contains(r, v))
        c.check("canary", z3.And(absval.contains(a, v), absval.contains(b, v)), "")

    def c4(c):   # ULT answered as UGT
        a, b = absval.sym("a", w), absval.sym("b", w)
        x, y = absval.sym_member("x", a), absval.sym_member("y", b)
        check_result(c, "canary", B._call("ULT", [a, b]), z3.UGT(x, y), CSI)

    for n, b_ in (("add-vs-sub", c1), ("if-swapped", c2), ("exactness", c3), ("ult-vs-ugt", c4)):
        expect_fail(n, b_)

    def body(c):
        c.check("canaries/all-fail", not bad, "canaries that did not fail: " + "; ".join(bad))
        return "ok"
    return explore(body, _opts(tier))


def replay_light(task, failure):
    """native: the real SolverVSA (LightFrontend over the real VSA backend) on every well-formed strided interval of 3 bits, plus an expression
    the VSA backend refuses (SDiv): eval / min / max (both signednesses) / solution must not exclude a member; a refusal must surface as
    ClaripyFrontendError, never as an answer.  The obligation's own counterexample is over the backend's CONTRACT and has no native form;
    this searches the real stack for an input with the same failing clause."""
    import logging
    import claripy
    from claripy.errors import ClaripyFrontendError
    from vf.bounded.si_enum import all_intervals, _members
    logging.getLogger("claripy").setLevel(logging.CRITICAL)
    m = (task.get("kwargs") or {}).get("method") or task["id"].split(".")[1].split("/")[0]
    w = 3
    sg = lambda v: v - (1 << w) if v >> (w - 1) else v
    s = claripy.SolverVSA()
    for (lb, ub, st) in all_intervals(w, wrapping=False):
        mem = sorted(_members(lb, ub, st, w))
        e = claripy.SI(bits=w, stride=st, lower_bound=lb, upper_bound=ub)
        try:
            if m in ("min", "max"):
                for signed in (False, True):
                    r = getattr(s, m)(e, signed=signed)
                    vals = [sg(v) for v in mem] if signed else mem
                    best = min(vals) if m == "min" else max(vals)
                    if (m == "min" and r > best) or (m == "max" and r < best):
                        return {"reproduced": True, "text": f"SolverVSA().{m}(SI(bits={w},stride={st},lower_bound={lb},upper_bound={ub}), signed={signed}) = {r}; members {vals}"}
            elif m == "eval":
                for n in (1, 2, 8):
                    r = [v % (1 << w) for v in s.eval(e, n)]
                    if any(v not in mem for v in r) or (len(r) < n and set(r) != set(mem)):
                        return {"reproduced": True, "text": f"SolverVSA().eval({st}[{lb},{ub}]@{w}, {n}) = {r}; members {mem}"}
            elif m == "solution":
                for v in mem:
                    if not s.solution(e, claripy.BVV(v, w)):
                        return {"reproduced": True, "text": f"SolverVSA().solution({st}[{lb},{ub}]@{w}, {v}) is False; {v} is a member"}
        except ClaripyFrontendError:
            continue
    if m in ("solution", "eval", "min", "max"):
        x, y = claripy.BVS("x", 8), claripy.BVS("y", 8)
        try:
            r = s.solution(x.SDiv(y), 3) if m == "solution" else getattr(s, m)(x.SDiv(y), *((2,) if m == "eval" else ()))
            if m == "solution" and not r:
                return {"reproduced": True, "text": "SolverVSA().solution(x SDiv y, 3) is False although the backend cannot evaluate the expression (x=21, y=7 gives 3)"}
        except ClaripyFrontendError:
            pass
        except Exception as ex:  # noqa
            return {"reproduced": True, "text": f"SolverVSA().{m}(x SDiv y): {type(ex).__name__}: {ex} instead of ClaripyFrontendError"}
    return {"reproduced": False, "text": "no native reproducer found at 3 bits"}
