"""Contracts for claripy/backends/backend_concrete/bv.py (C01: folded constants mean the written
operation; C04: no foreign exception, integers stay within c*w+d bits).

The real BVV class and module functions (re-loaded from /repo each run) run on SymInt values of full
range; postcondition: result.value == [[op]](values) as an unsigned w-bit number, result.bits == width."""
from __future__ import annotations

import z3

from vf.engine import loader, paths, proxies
from vf.engine.paths import cur, explore, Undecided, PathEnd
from vf.engine.proxies import SymInt, SymBool, _bv
from vf.contracts import sem as S

REL = "claripy/backends/backend_concrete/bv.py"
_c = {}


def load(debug=True):
    """debug=False: the same source with claripy.debug._DEBUG off (the extra argument checks are debug-only; the value semantics must not be)"""
    k = "ns" if debug else "ns-nodebug"
    if k not in _c:
        if debug:
            _c[k] = loader.load(REL, "claripy.backends.backend_concrete.bv")
        else:
            _c[k] = loader.load(REL, "claripy.backends.backend_concrete.bv", overrides={"_d": type("debug", (), {"_DEBUG": False})})
    return _c[k]


METHODS2 = {"__add__": "__add__", "__sub__": "__sub__", "__mul__": "__mul__", "__mod__": "__mod__",
            "__floordiv__": "__floordiv__", "__truediv__": "__floordiv__", "__and__": "__and__", "__or__": "__or__",
            "__xor__": "__xor__", "__lshift__": "__lshift__", "__rshift__": "__rshift__"}
RMETHODS2 = {"__radd__": "__add__", "__rsub__": "__sub__", "__rmul__": "__mul__", "__rmod__": "__mod__",
             "__rfloordiv__": "__floordiv__", "__rand__": "__and__", "__ror__": "__or__", "__rxor__": "__xor__",
             "__rlshift__": "__lshift__", "__rrshift__": "__rshift__"}
FUNCS2 = ["SDiv", "SMod", "LShR", "RotateLeft", "RotateRight"]
CMPM = ["__eq__", "__ne__", "ULT", "ULE", "UGT", "UGE"]
CMPF = ["ULT", "ULE", "UGT", "UGE", "SLT", "SLE", "SGT", "SGE"]
DIV = {"__mod__", "__floordiv__", "SDiv", "SMod"}


def _low(z, w):
    return z3.Extract(w - 1, 0, z)


def _opts(tier, w, **kw):
    o = {"timeout_ms": 30000 if tier == "quick" else 120000, "budget_s": 300 if tier == "quick" else 1800,
         "max_depth": 3000, "max_failures": 2, "size_obligation": "size/integer-exceeds-c*w+d-bits"}
    o.update(kw)
    return o


def _mk(ns, name, w):
    v = SymInt.fresh(name, 0, (1 << w) - 1)
    return v, ns["BVV"](v, w)


def _check_val(c, label, r, ref, w, ns):
    if not isinstance(r, ns["BVV"]):
        c.fail(label + "/type", f"result is {type(r).__name__}")
        return
    if r.bits != w:
        c.fail(label + "/bits", f"result bits {r.bits} != {w}")
        return
    rv = _bv(r.value)
    c.watch["result"] = rv
    c.check(label + "/value", z3.And(rv >= 0, rv < (1 << w), _low(rv, w) == ref), "folded value differs from the SMT-LIB meaning")


def _run(c, label, f, allowed=()):
    from claripy.errors import ClaripyZeroDivisionError
    try:
        return True, f()
    except (PathEnd, Undecided):
        raise
    except ClaripyZeroDivisionError:
        return False, "zerodiv"
    except Exception as e:  # noqa
        c.fail(label + "/raises", f"{type(e).__name__}: {e}", kind="raises")
        return False, None


def ob_bin(how, name, w, tier="quick", debug=True):
    kind = how
    """kind: method | rmethod | func | cmpm | cmpf"""
    ns = load(debug)
    proxies.set_iw(2 * w + 12)      # the stated size bound of C04: every intermediate integer fits 2*w+12 bits
    from claripy.errors import ClaripyZeroDivisionError

    def body(c):
        x, a = _mk(ns, "x", w)
        y, b = _mk(ns, "y", w)
        lx, ly = _low(x.z, w), _low(y.z, w)
        if kind == "method":
            op, l, rr, call = METHODS2[name], lx, ly, (lambda: getattr(a, name)(b))
        elif kind == "rmethod":
            op, l, rr, call = RMETHODS2[name], ly, lx, (lambda: getattr(a, name)(b))   # a.__rop__(b) == b op a
        elif kind == "func":
            op, l, rr, call = name, lx, ly, (lambda: ns[name](a, b))
        elif kind == "cmpm":
            op, l, rr, call = name, lx, ly, (lambda: getattr(a, name)(b))
        else:
            op, l, rr, call = name, lx, ly, (lambda: ns[name](a, b))
        label = f"bv.{name}"
        ok, r = _run(c, label, call)
        if not ok:
            if r == "zerodiv":
                c.check(label + "/zerodiv-only-for-zero-divisor", rr == 0 if op in DIV else False,
                        "ClaripyZeroDivisionError raised for a non-zero divisor")
                return "zerodiv"
            return "raised"
        if op in DIV:
            c.check(label + "/zero-divisor-raises", rr != 0, "division by a concrete zero returned a value instead of raising")
        ref = S.sem(op, [l, rr])
        if kind in ("cmpm", "cmpf"):
            if not isinstance(r, (bool, SymBool)):
                c.fail(label + "/type", f"comparison returned {type(r).__name__}")
                return "ret"
            c.check(label + "/value", proxies.zbool(r) == ref, "folded truth value differs from the SMT-LIB meaning")
            return "ret"
        _check_val(c, label, r, ref, w, ns)
        # frame: the operands are values - the concrete backend hands out ONE object per constant (convert() caches it), so an operation
        # that writes into an operand changes what that constant means in every later fold
        for nm, obj, v in (("first", a, x), ("second", b, y)):
            if obj.bits != w:
                c.fail(label + "/operand-unchanged", f"the {nm} operand's width was changed to {obj.bits}")
            else:
                c.check(label + "/operand-unchanged", _bv(obj.value) == _bv(v), f"the operation wrote into its {nm} operand")
        return "ret"

    return explore(body, _opts(tier, w))


def ob_un(name, w, tier="quick"):
    ns = load()
    proxies.set_iw(w + 12)

    def body(c):
        x, a = _mk(ns, "x", w)
        label = f"bv.{name}"
        if name == "Reverse":
            call = lambda: ns["Reverse"](a)
        else:
            call = lambda: getattr(a, name)()
        ok, r = _run(c, label, call)
        if not ok:
            return "raised"
        _check_val(c, label, r, S.sem(name, [_low(x.z, w)]), w, ns)
        return "ret"

    return explore(body, _opts(tier, w))


def ob_sized(name, w, tier="quick"):
    """Extract / ZeroExt / SignExt / Concat / If module functions."""
    ns = load()
    proxies.set_iw(2 * w + 12)

    def body(c):
        label = f"bv.{name}"
        if name == "Extract":
            x, a = _mk(ns, "x", w)
            lo = SymInt.fresh("lo", 0, w - 1)
            hi = SymInt.fresh("hi", 0, w - 1)
            c.assume(hi.z >= lo.z)
            lo_c, hi_c = proxies.concretize(lo), proxies.concretize(hi)
            ok, r = _run(c, label, lambda: ns["Extract"](hi_c, lo_c, a))
            if ok:
                _check_val(c, label, r, z3.Extract(hi_c, lo_c, _low(x.z, w)), hi_c - lo_c + 1, ns)
            return "ret"
        if name in ("ZeroExt", "SignExt"):
            x, a = _mk(ns, "x", w)
            n = proxies.concretize(SymInt.fresh("n", 0, w), label="n")
            ok, r = _run(c, label, lambda: ns[name](n, a))
            if ok:
                _check_val(c, label, r, S.sem(name, [n, _low(x.z, w)]), w + n, ns)
            return "ret"
        if name == "Concat":
            k = 2 + c.choose([True, True], "arity")
            parts = []
            for i in range(k):
                wi = 1 + c.choose([True] * min(w, 3), f"w{i}")
                v = SymInt.fresh(f"x{i}", 0, (1 << wi) - 1)
                parts.append((v, wi, ns["BVV"](v, wi)))
            if proxies.get_iw() < sum(p[1] for p in parts) + 4:
                raise Undecided("iw")
            ok, r = _run(c, label, lambda: ns["Concat"](*[p[2] for p in parts]))
            if ok:
                _check_val(c, label, r, z3.Concat(*[_low(p[0].z, p[1]) for p in parts]), sum(p[1] for p in parts), ns)
            return "ret"
        if name == "If":
            x, a = _mk(ns, "x", w)
            y, b = _mk(ns, "y", w)
            cz = z3.Bool("cond")
            c.watch["cond"] = cz
            ok, r = _run(c, label, lambda: ns["If"](SymBool(cz), a, b))
            if ok:
                _check_val(c, label, r, z3.If(cz, _low(x.z, w), _low(y.z, w)), w, ns)
            return "ret"
        raise Undecided(name)

    return explore(body, _opts(tier, w))


def replay_bin(task, failure):
    """native replay with the real concrete backend"""
    import claripy.backends.backend_concrete.bv as bv
    import z3 as Z
    kw = task["kwargs"]
    name, w, kind = kw["name"], kw["w"], kw.get("how")
    wit = failure["witness"]
    if "x" not in wit:
        return {"reproduced": False, "text": "no operand values in witness"}
    import claripy.debug as dbg
    old_debug = dbg._DEBUG
    if kw.get("debug") is False:
        dbg._DEBUG = False
    try:
        return _replay_bin(bv, Z, kw, name, w, kind, wit, failure)
    finally:
        dbg._DEBUG = old_debug


def _replay_bin(bv, Z, kw, name, w, kind, wit, failure):
    a = bv.BVV(wit["x"], w)
    b = bv.BVV(wit.get("y", 0), w)
    opmap = {**METHODS2, **RMETHODS2}
    try:
        if kind in ("method", "cmpm"):
            r = getattr(a, name)(b); l, rr = wit["x"], wit.get("y", 0)
        elif kind == "rmethod":
            r = getattr(a, name)(b); l, rr = wit.get("y", 0), wit["x"]
        elif kind in ("func", "cmpf"):
            r = getattr(bv, name)(a, b); l, rr = wit["x"], wit.get("y", 0)
        else:
            r = getattr(a, name)() if name != "Reverse" else bv.Reverse(a); l, rr = wit["x"], None
    except Exception as e:
        from claripy.errors import ClaripyZeroDivisionError
        bad = not (isinstance(e, ClaripyZeroDivisionError) and wit.get("y", 1) == 0)
        return {"reproduced": bad, "text": f"bv.{name}({wit}) raised {type(e).__name__}: {e}"}
    if "operand-unchanged" in str(failure.get("label")):
        bad = a.value != wit["x"] or b.value != wit.get("y", 0)
        return {"reproduced": bad, "text": f"bv.{name}(BVV({wit['x']}, {w}), BVV({wit.get('y', 0)}, {w})): afterwards the operands hold {a.value} and {b.value}"
                + (" - the constant objects the backend caches were written into" if bad else "")}
    op = opmap.get(name, name)
    zs = [Z.BitVecVal(l, w)] + ([Z.BitVecVal(rr, w)] if rr is not None else [])
    ref = Z.simplify(S.sem(op, zs))
    got = r if isinstance(r, bool) else r.value
    want = Z.is_true(ref) if Z.is_bool(ref) else ref.as_long()
    return {"reproduced": got != want, "text": f"bv.{name} x={wit['x']} y={wit.get('y')} at {w} bits gives {got}, SMT-LIB says {want}"}
