"""C02 (rewriting part): the two floating-point rewriters of claripy/simplifications.py, real code on symbolic nodes whose
denotations are z3 FloatingPoint terms.

  fptofp_simplifier(*args)   registered for fpToFP:   result is None  or  [[result]] = [[fpToFP]](args)
       forms:  (bv, sort)            reinterpretation of a bit pattern          z3 fpBVToFP
               (rm, fp, sort)        conversion between formats, rounding rm     z3 fpFPToFP
               (rm, bv, sort)        signed integer to float, rounding rm        z3 fpSignedToFP
  fptobv_simplifier(fp)      registered for fpToIEEEBV: result is None or result is A bit pattern of fp
       (fpBVToFP(result) = fp; NaN has many patterns, so fpToIEEEBV is a relation - as in SMT-LIB, which has no to_ieee_bv)

Equality of floats is SMT-LIB `=` (NaN = NaN, +0 != -0).  Every rounding mode, FLOAT and DOUBLE, integer widths 8 and 64,
nested shapes one level deep (what the rewriters inspect).  Constructors called by the rewriters are answered by contract."""
from __future__ import annotations

import z3

from vf.engine import loader, paths, proxies, symnode as SN
from vf.engine.paths import cur, explore, Undecided, PathEnd
from vf.contracts import simp


def _fsorts():
    from claripy.fp import FSORT_FLOAT, FSORT_DOUBLE
    return {"FLOAT": FSORT_FLOAT, "DOUBLE": FSORT_DOUBLE}


def fptofp_contract(*args):
    """contract of the public constructor claripy.fpToFP"""
    c = cur()
    sort = args[-1]
    name = "FLOAT" if sort.length == 32 else "DOUBLE"
    zs = SN.zsort(("fp", name))
    r = SN.new_node(("fp", name), label="fptofp")
    if len(args) == 2:
        c.assume(r.den == z3.fpBVToFP(args[0].den, zs))
        kid = args[0]
    else:
        rm, x, _ = args
        kid = x
        if isinstance(x, SN.SymFP):
            c.assume(r.den == z3.fpFPToFP(SN.z3_rm(rm), x.den, zs))
        else:
            c.assume(r.den == z3.fpSignedToFP(SN.z3_rm(rm), x.den, zs))
    c.assume(r.zsym == kid.zsym)
    r.ghost_from = ("fpToFP", (kid,))
    return r


def _ns():
    ns = simp.load()
    ns["claripy"].fpToFP = fptofp_contract
    return ns


def ob_fptofp(form, tier="quick"):
    """form: 'bv' (2 arguments) | 'fp' (rm, fp, sort) | 'int' (rm, bv, sort)"""
    ns = _ns()
    f = ns["fptofp_simplifier"]
    proxies.set_iw(24)
    from claripy.fp import RM

    def body(c):
        FS = _fsorts()
        tname = ["FLOAT", "DOUBLE"][c.choose([True, True], "target-sort")]
        tsort, tz = FS[tname], SN.zsort(("fp", tname))
        desc = {"form": form, "target": tname}
        if form == "bv":
            ws = [32, 64, 16]
            w = ws[c.choose([True] * len(ws), "bv-width")]
            if (w == 32) != (tname == "FLOAT") and w != 16:
                # the constructor's extra_check rejects a bit pattern of the wrong width before any rewriter runs;
                # w = 16 stays in as a canary for the rewriter's own width test
                pass
            x = SN.new_node(("bv", w), "root_bits")
            args = (x, tsort)
            ref = z3.fpBVToFP(x.den, tz) if w == tsort.length else None
            desc["w"] = w
        else:
            rms = list(RM)
            rm = rms[c.choose([True] * len(rms), "rm")]
            desc["rm"] = rm.name
            if form == "fp":
                sname = ["FLOAT", "DOUBLE"][c.choose([True, True], "source-sort")]
                x = SN.new_node(("fp", sname), "root_x")
                ref = z3.fpFPToFP(SN.z3_rm(rm), x.den, tz)
                desc["source"] = sname
            else:
                ws = [8, 64]
                w = ws[c.choose([True] * len(ws), "int-width")]
                x = SN.new_node(("bv", w), "root_int")
                ref = z3.fpSignedToFP(SN.z3_rm(rm), x.den, tz)
                desc["w"] = w
            args = (rm, x, tsort)
        c.describers.append(lambda m: dict(desc, path=[p for p in c.path_desc()]))
        try:
            res = f(*args)
        except (PathEnd, Undecided):
            raise
        except Exception as e:  # noqa
            import traceback
            c.fail("fptofp_simplifier/raises", f"{type(e).__name__}: {e} {traceback.format_exc()[-300:]}", kind="raises")
            return "raised"
        if isinstance(res, tuple):
            res = res[0]
        if res is None:
            c.check("fptofp_simplifier/none", True)
            return "none"
        c.n_vcs += 1
        if not isinstance(res, SN.SymFP) or res.sort != ("fp", tname):
            c.fail("fptofp_simplifier/sort", f"result is {type(res).__name__} of sort {getattr(res, 'sort', None)}, expected an FP of sort {tname}", kind="C05")
            return "sort"
        if ref is None:
            c.fail("fptofp_simplifier/ill-typed-accepted", "a bit pattern whose width is not the format's width was rewritten")
            return "illtyped"
        c.check("fptofp_simplifier/meaning", res.den == ref, "the rewritten conversion is not the written conversion (SMT-LIB fp equality, all rounding modes)")
        return "rewrite"

    return explore(body, {"budget_s": 600, "timeout_ms": 60000, "max_depth": 3000, "max_paths": 400000, "max_failures": 2, "path_budget_s": 100,
                          "mentioned": simp.mentioned_ops("fptofp_simplifier"), "fp_from_bv_widths": [8, 64],
                          "replay": replay_fptofp})


def ob_fptobv(tier="quick"):
    ns = _ns()
    f = ns["fptobv_simplifier"]
    proxies.set_iw(24)

    def body(c):
        sname = ["FLOAT", "DOUBLE"][c.choose([True, True], "source-sort")]
        x = SN.new_node(("fp", sname), "root_x")
        w = 32 if sname == "FLOAT" else 64
        try:
            res = f(x)
        except (PathEnd, Undecided):
            raise
        except Exception as e:  # noqa
            c.fail("fptobv_simplifier/raises", f"{type(e).__name__}: {e}", kind="raises")
            return "raised"
        if isinstance(res, tuple):
            res = res[0]
        if res is None:
            c.check("fptobv_simplifier/none", True)
            return "none"
        c.n_vcs += 1
        if not isinstance(res, SN.SymBV) or res.length != w:
            c.fail("fptobv_simplifier/sort", f"result is not a {w}-bit vector", kind="C05")
            return "sort"
        c.check("fptobv_simplifier/is-a-bit-pattern-of-the-float", z3.fpBVToFP(res.den, SN.zsort(("fp", sname))) == x.den,
                "the rewritten fpToIEEEBV is not a bit pattern of its argument")
        return "rewrite"

    return explore(body, {"budget_s": 300, "timeout_ms": 60000, "max_depth": 3000, "mentioned": simp.mentioned_ops("fptobv_simplifier"),
                          "fp_from_bv_widths": [8, 64]})


def replay_fptofp(failure):
    """native: build the nested conversion through the PUBLIC constructors with the counter-model's rounding modes and
    widths, and let z3 compare claripy's translation with an independently built z3 term"""
    import claripy
    import z3 as _z3
    from claripy.fp import RM, FSORT_FLOAT, FSORT_DOUBLE
    wit = failure.get("witness") or {}
    path = " ".join(wit.get("path") or failure.get("path") or [])
    import re
    FS = {"FLOAT": FSORT_FLOAT, "DOUBLE": FSORT_DOUBLE}
    rms = list(RM)
    zrm = lambda r, ctx: {"RM_NearestTiesEven": _z3.RNE(ctx), "RM_NearestTiesAwayFromZero": _z3.RNA(ctx), "RM_TowardsZero": _z3.RTZ(ctx),
                          "RM_TowardsPositiveInf": _z3.RTP(ctx), "RM_TowardsNegativeInf": _z3.RTN(ctx)}[r.name]
    conv = claripy.backends.z3.convert
    tried = []
    # the nested shapes the obligation explores, instantiated natively for every inner rounding mode / source
    for rm in ([RM[wit["rm"]]] if wit.get("rm") else rms):
        for rm2 in rms:
            for inner_sort in ("DOUBLE", "FLOAT"):
                for wy in (64, 8):
                    y = claripy.BVS(f"rp_y{wy}", wy, explicit_name=True)
                    inner = claripy.fpToFP(rm2, y, FS[inner_sort])
                    tgt = FS[wit.get("target", "FLOAT")]
                    try:
                        e = claripy.fpToFP(rm, inner, tgt)
                    except Exception as ex:  # noqa
                        return {"reproduced": True, "text": f"fpToFP({rm.name}, fpToFP({rm2.name}, y{wy}, {inner_sort}), {tgt}) raised {type(ex).__name__}: {ex}"}
                    ze = conv(e)
                    ctx = ze.ctx
                    zy = conv(y)
                    zs = lambda n: _z3.Float32(ctx) if n == "FLOAT" else _z3.Float64(ctx)
                    ref = _z3.fpFPToFP(zrm(rm, ctx), _z3.fpSignedToFP(zrm(rm2, ctx), zy, zs(inner_sort)), zs(wit.get("target", "FLOAT")))
                    s = _z3.Solver(ctx=ctx)
                    s.set("timeout", 60000)
                    s.add(ze != ref)
                    r = s.check()
                    tried.append(str(r))
                    if r == _z3.sat:
                        return {"reproduced": True, "text": f"claripy.fpToFP({rm.name}, claripy.fpToFP({rm2.name}, y{wy}, {inner_sort}), {wit.get('target', 'FLOAT')}) "
                                f"was built as {e!r}; it differs from the written conversion for {s.model()}"}
    return {"reproduced": False, "text": f"nested conversions through the public constructors agree with z3 ({len(tried)} shapes)"}
