"""Frame obligations for the modules whose functions are specified as functions of their arguments (the abstract domain, the concrete
backend, the rewriters, the balancer): NO HIDDEN STATE.

Every per-call contract in this framework - "the result contains the reference result of the member operands", "the folded value is the
SMT-LIB value", "the truism implies the balanced truism" - quantifies over the arguments of one call.  It carries over to every history only
if the function reads nothing else that a previous call could have written.  This obligation establishes that frame syntactically on the
current source of a module: no function or method

  * rebinds a module-level variable (`global x` + assignment),
  * stores into / calls a mutating method on a module-level or class-level container (`CACHE[k] = v`, `Cls.memo.setdefault(...)`,
    `self.memo[...] = ...` where `memo` is a class attribute),
  * is wrapped in a memoising decorator (functools.lru_cache / cache / cached_property on a class without instances' own dict is fine: flagged
    only lru_cache / cache),

except for the names listed as declared state of that module (each with the obligation that covers it).  A failed frame clause is reported
with the native history-dependent reproducer of the module where one exists (the exhaustive enumeration visited twice)."""
from __future__ import annotations

import ast
import hashlib
import os

from vf.engine import loader, paths

MUTATORS = {"append", "extend", "insert", "add", "update", "setdefault", "pop", "popitem", "clear", "remove", "discard", "__setitem__", "appendleft"}
MEMO_DECORATORS = {"lru_cache", "cache"}

# module -> declared state: name -> where it is covered
MODULES = {
    "claripy/backends/backend_vsa/strided_interval.py": {"_allow_dsis_flag": "the allow_dsis() context flag: decides which CLASS the join of two intervals builds (C23 proves both)"},
    "claripy/backends/backend_vsa/discrete_strided_interval_set.py": {},
    "claripy/backends/backend_vsa/valueset.py": {},
    "claripy/backends/backend_vsa/bool_result.py": {},
    "claripy/backends/backend_vsa/balancer.py": {},
    "claripy/backends/backend_concrete/bv.py": {},
    "claripy/backends/backend_concrete/fp.py": {},
    "claripy/backends/backend_concrete/strings.py": {},
    "claripy/simplifications.py": {},
    "claripy/algorithm/ite_relocation.py": {"burrowed_cache": "memo: hash of an expression -> its burrowed form (C08: the per-shape obligations run with it)",
                                             "excavated_cache": "memo: hash of an expression -> its excavated form (C08)"},
    "claripy/algorithm/replace.py": {},
}


def _module_level_names(tree):
    names = set()
    for n in tree.body:
        if isinstance(n, (ast.Assign, ast.AnnAssign, ast.AugAssign)):
            tgts = n.targets if isinstance(n, ast.Assign) else [n.target]
            for t in tgts:
                for x in ast.walk(t):
                    if isinstance(x, ast.Name):
                        names.add(x.id)
    return names


def _class_level_containers(cls):
    out = set()
    for n in cls.body:
        if isinstance(n, (ast.Assign, ast.AnnAssign)):
            v = n.value
            tgts = n.targets if isinstance(n, ast.Assign) else [n.target]
            if v is None:
                continue
            mutable = isinstance(v, (ast.Dict, ast.List, ast.Set, ast.DictComp, ast.ListComp, ast.SetComp)) or \
                (isinstance(v, ast.Call) and isinstance(v.func, (ast.Name, ast.Attribute)) and
                 (v.func.id if isinstance(v.func, ast.Name) else v.func.attr) in ("dict", "list", "set", "defaultdict", "OrderedDict", "WeakValueDictionary", "WeakKeyDictionary", "WeakSet", "deque", "Counter"))
            if mutable:
                for t in tgts:
                    if isinstance(t, ast.Name):
                        out.add(t.id)
    return out


def scan(rel, declared):
    src = open(os.path.join(loader.REPO, rel)).read()
    loader.SOURCES[rel] = hashlib.sha256(src.encode()).hexdigest()
    tree = ast.parse(src)
    mod_names = _module_level_names(tree)
    problems, n_checked = [], 0

    def root_name(node):
        while isinstance(node, (ast.Subscript, ast.Attribute)):
            node = node.value
        return node.id if isinstance(node, ast.Name) else None

    def visit_function(fn, cls_name, cls_containers):
        nonlocal n_checked
        local = {a.arg for a in fn.args.args + fn.args.kwonlyargs + fn.args.posonlyargs}
        if fn.args.vararg:
            local.add(fn.args.vararg.arg)
        if fn.args.kwarg:
            local.add(fn.args.kwarg.arg)
        globs = set()
        for n in ast.walk(fn):
            if isinstance(n, ast.Global):
                globs |= set(n.names)
        for n in ast.walk(fn):
            if isinstance(n, ast.Name) and isinstance(n.ctx, ast.Store) and n.id not in globs:
                local.add(n.id)
        where = f"{cls_name + '.' if cls_name else ''}{fn.name}"
        for d in fn.decorator_list:
            dn = d.func if isinstance(d, ast.Call) else d
            name = dn.id if isinstance(dn, ast.Name) else dn.attr if isinstance(dn, ast.Attribute) else None
            n_checked += 1
            if name in MEMO_DECORATORS:
                problems.append(f"{where} (line {fn.lineno}) is memoised with @{name}: its result depends on earlier calls whenever two arguments compare equal without being the same value")
        for n in ast.walk(fn):
            # rebinding a module-level name
            if isinstance(n, ast.Name) and isinstance(n.ctx, (ast.Store, ast.Del)) and n.id in globs and n.id not in declared:
                n_checked += 1
                problems.append(f"{where} (line {n.lineno}) rebinds the module-level variable {n.id}")
            # store into a module-level / class-level container
            tgt = None
            if isinstance(n, (ast.Subscript, ast.Attribute)) and isinstance(n.ctx, (ast.Store, ast.Del)):
                tgt = n.value
            elif isinstance(n, ast.Call) and isinstance(n.func, ast.Attribute) and n.func.attr in MUTATORS:
                tgt = n.func.value
            if tgt is None:
                continue
            n_checked += 1
            r = root_name(tgt)
            # module-level container: root is a module-level name that is not shadowed locally
            if r is not None and r in mod_names and r not in local and r not in declared and isinstance(tgt, ast.Name):
                problems.append(f"{where} (line {n.lineno}) writes into the module-level object {r}")
            # class-level container reached as Cls.X / cls.X / self.X
            if isinstance(tgt, ast.Attribute) and tgt.attr in cls_containers and tgt.attr not in declared:
                base = root_name(tgt.value) if not isinstance(tgt.value, ast.Name) else tgt.value.id
                if base in ("self", "cls", cls_name):
                    problems.append(f"{where} (line {n.lineno}) writes into the class-level container {cls_name}.{tgt.attr}, which all instances and all calls share")

    for node in tree.body:
        if isinstance(node, (ast.FunctionDef, ast.AsyncFunctionDef)):
            visit_function(node, None, set())
            for sub in ast.walk(node):
                if sub is not node and isinstance(sub, (ast.FunctionDef, ast.AsyncFunctionDef)):
                    visit_function(sub, None, set())
        elif isinstance(node, ast.ClassDef):
            cc = _class_level_containers(node)
            for m in ast.walk(node):
                if isinstance(m, (ast.FunctionDef, ast.AsyncFunctionDef)):
                    visit_function(m, node.name, cc)
    return problems, n_checked


def ob_no_hidden_state(rel):
    res = paths.Result()
    res.paths = 1
    problems, n = scan(rel, MODULES.get(rel, {}))
    res.vcs = n
    if n == 0:
        res.status, res.reason = "undecided", "vacuous: nothing to check in " + rel
        return res
    for p in problems:
        f = paths.Failure("no-hidden-state", "frame", {"module": rel}, f"{rel}: {p}", [])
        res.failures.append(f)
    res.status = "violated" if problems else "discharged"
    res.samples = [{"module": rel, "stores_and_decorators_checked": n}]
    return res


# which properties' per-call contracts rest on which module being free of hidden state
BY_PROPERTY = {
    "C01": ["claripy/backends/backend_concrete/bv.py", "claripy/simplifications.py"],
    "C02": ["claripy/backends/backend_concrete/fp.py"],
    "C03": ["claripy/backends/backend_concrete/strings.py"],
    "C04": ["claripy/backends/backend_concrete/bv.py", "claripy/simplifications.py"],
    "C08": ["claripy/algorithm/ite_relocation.py", "claripy/algorithm/replace.py"],
    "C10": ["claripy/backends/backend_concrete/bv.py"],
    "C21": ["claripy/backends/backend_vsa/strided_interval.py"],
    "C22": ["claripy/backends/backend_vsa/strided_interval.py"],
    "C23": ["claripy/backends/backend_vsa/discrete_strided_interval_set.py", "claripy/backends/backend_vsa/valueset.py", "claripy/backends/backend_vsa/strided_interval.py"],
    "C24": ["claripy/backends/backend_vsa/bool_result.py", "claripy/backends/backend_vsa/strided_interval.py"],
    "C25": ["claripy/backends/backend_vsa/balancer.py"],
}


def tasks_for(prop):
    from vf.common import task
    return [task("vf.contracts.purity", "ob_no_hidden_state", f"purity.{os.path.basename(rel)}/no-hidden-state", [prop], rel=rel, replay="vf.contracts.purity:replay")
            for rel in BY_PROPERTY.get(prop, [])]


def replay(task, failure):
    """native, history-dependent reproducers for the modules that have one: the same inputs visited after other inputs"""
    rel = task["kwargs"]["rel"]
    if rel.endswith("strided_interval.py"):
        from vf.bounded import si_pairs
        r = si_pairs.run_history(ops=("eval", "min", "max", "union", "intersection", "add", "mul", "udiv", "bitwise_and", "ULT", "SLT"), widths=(2, 3, 2, 3), budget_s=150)
        if r["n_failures"]:
            f = r["failures"][0]
            return {"reproduced": True, "text": "exhaustive enumeration at widths 2, 3, 2, 3 in one process: " + f["detail"]}
        return {"reproduced": False, "text": "the exhaustive enumeration gives the recorded results at every visit (widths 2, 3, 2, 3 in one process)"}
    if rel.endswith("balancer.py"):
        import claripy
        bad = []
        for (fn, first), (sn, second) in ((("ULE", claripy.ULE), ("SLE", claripy.SLE)), (("SGE", claripy.SGE), ("ULE", claripy.ULE)),
                                          (("SLE", claripy.SLE), ("UGE", claripy.UGE)), (("UGE", claripy.UGE), ("SGE", claripy.SGE))):
            for k in (5, 200, 3, 0x83):
                x = claripy.BVS("kf_pur_x", 8)
                claripy.backends.vsa.constraint_to_si(first(x, claripy.BVV(k, 8)))
                cons = second(x, claripy.BVV(k, 8))
                sat, repl = claripy.backends.vsa.constraint_to_si(cons)
                sg = lambda v: v - 256 if v >= 128 else v  # noqa
                truth = {"ULE": lambda v: v <= k, "UGE": lambda v: v >= k, "SLE": lambda v: sg(v) <= sg(k), "SGE": lambda v: sg(v) >= sg(k)}[sn]
                ok = [v for v in range(256) if truth(v)]
                for old, new in repl:
                    if old is not x:
                        continue
                    si = claripy.backends.vsa.convert(new)
                    lost = [v for v in ok if not si.solution(v)]
                    if lost or (ok and not sat):
                        bad.append(f"after constraint_to_si({fn}(x, {k})), constraint_to_si({cons!r}) bounds x by {si}: the satisfying values {lost[:4]}... are cut off")
        if bad:
            return {"reproduced": True, "text": bad[0]}
        return {"reproduced": False, "text": "constraint_to_si gives sound bounds for a comparison after a comparison of the other signedness on the same variable"}
    return {"reproduced": False, "text": "no history-dependent reproducer for this module; the frame clause is syntactic"}
