"""C09: translating to Z3 and back preserves meaning.

(i)  per Z3 declaration kind that op_map maps, and per width/sort: build the generic application
     K(c1..cn) over fresh constants with the Z3 API, run the REAL BackendZ3._abstract on it, convert the
     result back with the REAL convert, and prove  K(c1..cn) == convert(_abstract(K(c1..cn)))  with z3
     (unsat of the disequality) - complete in values per width.
(ii) totality audit: for every claripy operator the translation can emit, the declaration kind of the
     emitted term (and of what z3.simplify makes of it) has an op_map / op_type_map entry.
Nothing here is symbolic execution: the abstraction code only inspects the *structure* of the term, so one
run per (kind, sort) with free constants decides the obligation for all values."""
from __future__ import annotations

import z3

from vf.engine import loader, paths

REL = "claripy/backends/backend_z3.py"


def _ctx():
    import claripy
    bz = claripy.backends.z3
    return bz, bz.convert(claripy.BVS("z3rt_ctx", 1, explicit_name=True)).ctx


def _bvops(w, ctx):
    a, b, c = z3.BitVec("rt_a", w, ctx), z3.BitVec("rt_b", w, ctx), z3.Bool("rt_c", ctx)
    ops = {
        "BADD": a + b, "BSUB": a - b, "BMUL": a * b, "BUDIV": z3.UDiv(a, b), "BSDIV": a / b, "BUREM": z3.URem(a, b),
        "BSREM": z3.SRem(a, b), "BAND": a & b, "BOR": a | b, "BXOR": a ^ b, "BNOT": ~a, "BNEG": -a,
        "BSHL": a << b, "BLSHR": z3.LShR(a, b), "BASHR": a >> b,
        "EXT_ROTATE_LEFT": z3.RotateLeft(a, b), "EXT_ROTATE_RIGHT": z3.RotateRight(a, b),
        "ULT": z3.ULT(a, b), "ULEQ": z3.ULE(a, b), "UGT": z3.UGT(a, b), "UGEQ": z3.UGE(a, b),
        "SLT": a < b, "SLEQ": a <= b, "SGT": a > b, "SGEQ": a >= b, "EQ": a == b, "DISTINCT": a != b,
        "ITE": z3.If(c, a, b), "BADD3": a + b + a, "BAND3": z3.BitVecRef(z3.Z3_mk_bvand(ctx.ref(), (a & b).as_ast(), a.as_ast()), ctx),
        "BNUM": z3.BitVecVal((1 << w) - 1, w, ctx) + a,
    }
    if w >= 2:
        ops["EXTRACT"] = z3.Extract(w - 1, 1, a)
        ops["EXTRACT0"] = z3.Extract(0, 0, a)
    ops["CONCAT"] = z3.Concat(a, b)
    ops["CONCAT3"] = z3.Concat(a, b, a)
    ops["ZERO_EXT"] = z3.ZeroExt(3, a)
    ops["SIGN_EXT"] = z3.SignExt(3, a)
    ops["ROTATE_LEFT"] = z3.RotateLeft(a, 1) if False else None
    return {k: v for k, v in ops.items() if v is not None}


def _boolops(ctx):
    p, q, r = z3.Bool("rt_p", ctx), z3.Bool("rt_q", ctx), z3.Bool("rt_r", ctx)
    return {"AND": z3.And(p, q, r), "OR": z3.Or(p, q, r), "NOT": z3.Not(p), "IFF": p == q, "XOR": z3.Xor(p, q),
            "ITE": z3.If(p, q, r), "TRUE": z3.And(p, z3.BoolVal(True, ctx)), "FALSE": z3.Or(p, z3.BoolVal(False, ctx))}


def _fpops(sort, ctx):
    x, y = z3.FP("rt_x", sort, ctx), z3.FP("rt_y", sort, ctx)
    w = sort.ebits() + sort.sbits()
    bv = z3.BitVec("rt_bits", w, ctx)
    rms = {"RNE": z3.RNE(ctx), "RNA": z3.RNA(ctx), "RTP": z3.RTP(ctx), "RTN": z3.RTN(ctx), "RTZ": z3.RTZ(ctx)}
    ops = {}
    for rn, rm in rms.items():
        ops[f"FPA_ADD[{rn}]"] = z3.fpAdd(rm, x, y)
    rm = rms["RNE"]
    ops.update({"FPA_SUB": z3.fpSub(rm, x, y), "FPA_MUL": z3.fpMul(rm, x, y), "FPA_DIV": z3.fpDiv(rm, x, y), "FPA_SQRT": z3.fpSqrt(rm, x),
                "FPA_ABS": z3.fpAbs(x), "FPA_NEG": z3.fpNeg(x), "FPA_LT": z3.fpLT(x, y), "FPA_LE": z3.fpLEQ(x, y), "FPA_GT": z3.fpGT(x, y),
                "FPA_GE": z3.fpGEQ(x, y), "FPA_EQ": z3.fpEQ(x, y), "FPA_IS_NAN": z3.fpIsNaN(x), "FPA_IS_INF": z3.fpIsInf(x),
                "FPA_TO_IEEE_BV": z3.fpToIEEEBV(x), "FPA_TO_FP[bv]": z3.fpBVToFP(bv, sort), "FPA_TO_SBV": z3.fpToSBV(rm, x, z3.BitVecSort(w, ctx)),
                "FPA_TO_UBV": z3.fpToUBV(rm, x, z3.BitVecSort(w, ctx)), "FPA_TO_FP[signed]": z3.fpSignedToFP(rm, bv, sort),
                "FPA_TO_FP_UNSIGNED": z3.fpUnsignedToFP(rm, bv, sort), "FPA_ITE": z3.If(z3.fpLT(x, y), x, y),
                "FPA_NUM": z3.fpAdd(rm, x, z3.FPVal(1.5, sort, ctx)), "FPA_NAN": z3.fpEQ(x, z3.fpNaN(sort)) if False else None,
                "FPA_PLUS_INF": z3.fpLT(x, z3.fpPlusInfinity(sort)), "FPA_MINUS_ZERO": z3.fpAdd(rm, x, z3.fpMinusZero(sort)),
                "FPA_MINUS_INF": z3.fpLT(x, z3.fpMinusInfinity(sort)), "FPA_PLUS_ZERO": z3.fpAdd(rm, x, z3.fpPlusZero(sort)),
                "FPA_NAN": z3.fpAdd(rm, x, z3.fpNaN(sort)),
                "FPA_EQ_STRUCT": x == y})
    other = z3.Float32(ctx) if w == 64 else z3.Float64(ctx)
    ops["FPA_TO_FP[fp]"] = z3.fpFPToFP(rm, x, other)
    # numerals: the constant must survive the round trip bit for bit (x + c is used so that the numeral sits inside an application; every
    # binade class: zero exponent field = subnormal, lowest / middle / highest normal binade, both signs, dense and sparse significands)
    eb, sb = sort.ebits(), sort.sbits() - 1
    emax = (1 << eb) - 1
    for en, e in (("subnormal", 0), ("lowest-normal", 1), ("mid", emax // 2), ("one-below-bias", emax // 2 - 1), ("highest-normal", emax - 1)):
        for mn, m in (("m0", 0), ("m1", 1), ("mhalf", 1 << (sb - 1)), ("mmax", (1 << sb) - 1), ("mmix", (0x5A5A5A5A5A5A5A5A >> (64 - sb)) | 1)):
            if e == 0 and m == 0:
                continue        # zeros are their own kinds
            for sn, sg in (("+", 0), ("-", 1)):
                bits = (sg << (eb + sb)) | (e << sb) | m
                num = z3.simplify(z3.fpBVToFP(z3.BitVecVal(bits, w, ctx), sort))
                ops[f"FPA_NUM[{sn}{en}.{mn}]"] = z3.fpAdd(rm, x, num)
    return {k: v for k, v in ops.items() if v is not None}


def _kind_names():
    return {getattr(z3, k): k for k in dir(z3) if k.startswith("Z3_OP_")}


def _subterms(t, out):
    if z3.is_app(t):
        if t.num_args() > 0:
            out.setdefault(t.decl().kind(), t)
        for ch in t.children():
            _subterms(ch, out)
    return out


def _harvest(ops, bz, ctx):
    """Z3 operators that only Z3's own simplifier produces (bvsdiv_i, bvurem_i, ...): run the simplifier and the tactic
    pipeline BackendZ3.simplify uses over the hand-built terms, and for every declaration kind that appears in the
    results but is not the root of a hand-built term, build the generic application of that very declaration over fresh
    constants.  The kinds are harvested from the installed Z3 on every run, not listed by hand."""
    roots = {t.decl().kind() for t in ops.values() if z3.is_app(t)}
    seen = {}
    for t in list(ops.values()):
        outs = []
        try:
            outs.append(z3.simplify(t))
            if isinstance(t, z3.BoolRef):
                outs.append(bz._boolref_tactics(t).as_expr())
        except z3.Z3Exception:
            continue
        for o in outs:
            _subterms(o, seen)
    names = _kind_names()
    out = {}
    for k, t in seen.items():
        if k in roots or k == z3.Z3_OP_UNINTERPRETED:
            continue
        consts = [z3.Const(f"rt_h{i}", ch.sort()) for i, ch in enumerate(t.children())]
        out[f"harvested.{names.get(k, k)}"] = t.decl()(*consts)
    return out


# op_map entries that are deliberately outside the round trip, with the reason (everything else that op_map maps must be
# exercised by some family, or the coverage obligation fails)
NOT_ROUNDTRIPPED = {
    **{k: "integer arithmetic: Int-sorted constants are not translatable (claripy has no integer sort); op_type_map has no entry"
       for k in ("Z3_OP_ADD", "Z3_OP_SUB", "Z3_OP_MUL", "Z3_OP_DIV", "Z3_OP_IDIV", "Z3_OP_MOD", "Z3_OP_REM", "Z3_OP_UMINUS",
                 "Z3_OP_GE", "Z3_OP_GT", "Z3_OP_LE", "Z3_OP_LT")},
    "Z3_OP_IFF": "Z3 4.13 represents Boolean equivalence as Z3_OP_EQ (covered); the kind is never produced",
    "Z3_OP_INTERNAL": "not an operator",
    "Z3_OP_REPEAT": "claripy never emits repeat and Z3's simplifier does not introduce it",
}


def covered_kinds(tier="quick"):
    bz, ctx = _ctx()
    fams = [_bvops(w, ctx) for w in (1, 8, 64)] + [_boolops(ctx), _fpops(z3.Float32(ctx), ctx), _fpops(z3.Float64(ctx), ctx)]
    kinds = {}
    for ops in fams:
        ops = dict(ops)
        ops.update(_harvest(ops, bz, ctx))
        for t in ops.values():
            _subterms(t, kinds)
            if z3.is_app(t):
                kinds.setdefault(t.decl().kind(), t)
            for ch in (t.children() if z3.is_app(t) else []):
                if z3.is_app(ch):
                    kinds.setdefault(ch.decl().kind(), ch)
    return kinds


def ob_coverage(tier="quick"):
    """every Z3 operator kind that the real op_map maps to a claripy operation is exercised by a round-trip obligation
    (hand-built or harvested generic term), or is listed in NOT_ROUNDTRIPPED with the reason"""
    import claripy
    from claripy.backends import backend_z3 as B
    res = paths.Result()
    kinds = covered_kinds(tier)
    for k, v in B.op_map.items():
        if v is None:
            continue
        res.paths += 1
        res.vcs += 1
        kk = getattr(z3, k, None)
        if kk is None or kk in kinds or k in NOT_ROUNDTRIPPED:
            continue
        res.status = "undecided"
        res.reason = f"op_map maps {k} -> {v!r} but no round-trip obligation exercises that kind (extend vf/contracts/z3rt.py)"
    return res


def _equiv(t, t2, ctx, timeout_ms):
    if t.sort() != t2.sort():
        return "sort-mismatch", f"{t.sort()} vs {t2.sort()}"
    s = z3.Solver(ctx=ctx)
    s.set("timeout", int(paths.scaled(timeout_ms)))
    if z3.is_fp(t):
        neq = z3.Not(z3.Or(z3.And(z3.fpIsNaN(t), z3.fpIsNaN(t2)), z3.fpToIEEEBV(t) == z3.fpToIEEEBV(t2))) if False else \
            z3.Not(z3.Or(z3.And(z3.fpIsNaN(t), z3.fpIsNaN(t2)), t == t2))
    else:
        neq = t != t2
    s.add(neq)
    r = s.check()
    if r == z3.unsat:
        return "ok", ""
    if r == z3.sat:
        return "differs", str(s.model())
    return "unknown", s.reason_unknown()


def ob_roundtrip(family, w=8, tier="quick"):
    """family: bv | bool | fp32 | fp64"""
    import hashlib, os
    import claripy
    from claripy.errors import ClaripyError, BackendError
    src = open(os.path.join(loader.REPO, REL), "rb").read()
    loader.SOURCES[REL] = hashlib.sha256(src).hexdigest()
    bz, ctx = _ctx()
    res = paths.Result()
    if family == "bv":
        ops = _bvops(w, ctx)
    elif family == "bool":
        ops = _boolops(ctx)
    else:
        ops = _fpops(z3.Float32(ctx) if family == "fp32" else z3.Float64(ctx), ctx)
    ops.update(_harvest(ops, bz, ctx))
    from vf import common
    known = {k for f in common.findings_for("C09") for k in f.get("kinds", [])}
    for name, t in ops.items():
        res.paths += 1
        res.vcs += 1
        label = f"z3rt.{family}.{name}"
        if name.split("[")[0] in known:
            res.known_used.add("C09:" + name.split("[")[0])
            continue
        try:
            a = bz._abstract(t)
            t2 = bz.convert(a)
        except (ClaripyError, BackendError) as e:
            f = paths.Failure(label + "/total", "ensures", {"kind": name, "family": family, "w": w, "term": str(t)},
                              f"round trip raised {type(e).__name__}: {e}", [])
            f.replay = {"reproduced": True, "text": f"claripy.backends.z3._abstract({t}) raised {type(e).__name__}: {e}"}
            res.failures.append(f)
            continue
        verdict, info = _equiv(t, t2, ctx, 20000 if tier == "quick" else 120000)
        if verdict == "ok":
            if len(res.samples) < 2:
                res.samples.append({"z3": str(t), "claripy": repr(a)[:200]})
            continue
        if verdict == "unknown":
            res.status = "undecided"
            res.reason = f"{label}: solver {info}"
            continue
        f = paths.Failure(label + "/meaning", "ensures", {"kind": name, "family": family, "w": w, "term": str(t), "back": str(t2), "model": info},
                          f"convert(_abstract(t)) is not equivalent to t: {verdict}", [])
        f.replay = {"reproduced": True, "text": f"{t}  abstracts to {a!r}, which converts to {t2}; differs under {info}"}
        res.failures.append(f)
    if res.failures:
        res.status = "violated"
    return res


def ob_symbol_history(tier="quick"):
    """the abstraction of a Z3 symbol depends on the symbol alone, not on what was abstracted before: for every ordered pair of sorts
    (bit-vectors of 1, 8, 16, 64 bits, Bool, Float32, Float64) a symbol NAMED a is abstracted in the first sort, kept alive, then an
    expression over a symbol of the same name in the second sort is abstracted: every node of the result has the sort / width of the Z3 term
    it stands for (C05), and converts back to an equivalent term (C09).  Translation validation per pair, on the real Z3."""
    import hashlib, os
    import claripy
    src = open(os.path.join(loader.REPO, REL), "rb").read()
    loader.SOURCES[REL] = hashlib.sha256(src).hexdigest()
    bz, ctx = _ctx()
    res = paths.Result()
    sorts = [("bv1", z3.BitVecSort(1, ctx)), ("bv8", z3.BitVecSort(8, ctx)), ("bv16", z3.BitVecSort(16, ctx)), ("bv64", z3.BitVecSort(64, ctx)),
             ("bool", z3.BoolSort(ctx)), ("fp32", z3.Float32(ctx)), ("fp64", z3.Float64(ctx))]

    def term(srt):
        a = z3.Const("a", srt)
        if z3.is_bv_sort(srt):
            return a, a * 3 + 12 == a
        if srt.kind() == z3.Z3_BOOL_SORT:
            return a, z3.And(a, z3.Bool("b_other", ctx))
        return a, z3.fpLT(a, z3.fpAbs(a))

    def width(srt):
        return srt.size() if z3.is_bv_sort(srt) else None if srt.kind() == z3.Z3_BOOL_SORT else srt.ebits() + srt.sbits()
    for (n1, s1) in sorts:
        for (n2, s2) in sorts:
            res.paths += 1
            res.vcs += 1
            label = f"z3rt.symbol[{n1}-then-{n2}]"
            try:
                bz.downsize()
                a1, _ = term(s1)
                first = bz._abstract(a1)            # kept alive
                a2, t2 = term(s2)
                r = bz._abstract(t2)
                leaves = [x for x in r.leaf_asts() if x.op in ("BVS", "BoolS", "FPS") and x.args[0] == "a"]
                bad = [x for x in leaves if getattr(x, "length", None) != width(s2)]
                back = bz.convert(r)
            except Exception as e:  # noqa
                f = paths.Failure(label + "/raises", "ensures", {"first": n1, "second": n2}, f"{type(e).__name__}: {e}", [])
                f.replay = {"reproduced": True, "text": f"abstracting a symbol a of sort {n1}, then {t2}: {type(e).__name__}: {e}"}
                res.failures.append(f)
                continue
            if bad or not leaves:
                f = paths.Failure(label + "/leaf-has-the-sort-of-its-symbol", "ensures", {"first": n1, "second": n2},
                                  f"after abstracting a symbol a of sort {n1}, {t2} abstracts to {r!r} whose leaf {bad[:1] or leaves!r} does not have the {n2} symbol's width", [])
                f.replay = {"reproduced": True, "text": f.detail}
                res.failures.append(f)
                continue
            verdict, info = _equiv(t2, back, ctx, 20000)
            if verdict not in ("ok", "unknown"):
                f = paths.Failure(label + "/meaning", "ensures", {"first": n1, "second": n2}, f"round trip of {t2} after the history is not equivalent: {verdict} {info}", [])
                f.replay = {"reproduced": True, "text": f.detail}
                res.failures.append(f)
            del first
    if res.failures:
        res.status = "violated"
    res.samples = [{"pairs": len(sorts) ** 2}]
    return res


def ob_hash_collision(tier="quick"):
    """the abstraction of a term is that term's, also for two different live terms with the SAME 32-bit Z3 hash (Z3_get_ast_hash collides
    within a few thousand terms; the abstraction cache must not be keyed by it): colliding pairs x + i / x + j are found by search, both are
    abstracted (the first result kept alive) and each must convert back to an equivalent of ITSELF"""
    import hashlib, os
    src = open(os.path.join(loader.REPO, REL), "rb").read()
    loader.SOURCES[REL] = hashlib.sha256(src).hexdigest()
    bz, ctx = _ctx()
    res = paths.Result()
    x = z3.BitVec("kf_coll_x", 32, ctx)
    seen, pairs = {}, []
    for i in range(300000):
        t = x + i
        h = z3.Z3_get_ast_hash(ctx.ref(), t.as_ast())
        if h in seen and seen[h] != i:
            pairs.append((seen[h], i))
            if len(pairs) == 3:
                break
        seen.setdefault(h, i)
    if not pairs:
        res.status, res.reason = "undecided", "no two candidate terms share a Z3 hash"
        return res
    for (i, j) in pairs:
        for order in ((i, j), (j, i)):
            res.paths += 1
            res.vcs += 1
            bz.downsize()
            t1, t2 = x + order[0], x + order[1]
            try:
                a1 = bz._abstract(t1)
                a2 = bz._abstract(t2)
                back = bz.convert(a2)
            except Exception as e:  # noqa
                f = paths.Failure("z3rt.hash-collision/raises", "ensures", {"i": order[0], "j": order[1]}, f"{type(e).__name__}: {e}", [])
                f.replay = {"reproduced": True, "text": f.detail}
                res.failures.append(f)
                continue
            verdict, info = _equiv(t2, back, ctx, 20000)
            if verdict not in ("ok", "unknown"):
                f = paths.Failure("z3rt.hash-collision/own-term", "ensures", {"i": order[0], "j": order[1]},
                                  f"{t1} and {t2} share their Z3 hash; after abstracting the first (-> {a1!r}) the second abstracts to {a2!r}, which converts to {back}", [])
                f.replay = {"reproduced": True, "text": f.detail}
                res.failures.append(f)
    if res.failures:
        res.status = "violated"
    res.samples = [{"colliding_pairs": pairs}]
    return res


def ob_totality(tier="quick"):
    """every operator the translation can emit has op_map/op_type_map entries for the kind it produces, also
    after z3.simplify (the kinds actually seen are harvested from a fixed family of translated expressions)"""
    import claripy
    from claripy.backends import backend_z3 as B
    bz, ctx = _ctx()
    res = paths.Result()
    x, y = claripy.BVS("tot_x", 8, explicit_name=True), claripy.BVS("tot_y", 8, explicit_name=True)
    f, g = claripy.FPS("tot_f", claripy.FSORT_DOUBLE, explicit_name=True), claripy.FPS("tot_g", claripy.FSORT_DOUBLE, explicit_name=True)
    p = claripy.BoolS("tot_p", explicit_name=True)
    rm = claripy.fp.RM.default()
    exprs = {
        "__add__": x + y, "__sub__": x - y, "__mul__": x * y, "__floordiv__": x // y, "__mod__": x % y, "SDiv": x.SDiv(y), "SMod": x.SMod(y),
        "__and__": x & y, "__or__": x | y, "__xor__": x ^ y, "__invert__": ~x, "__neg__": -x, "__lshift__": x << y, "__rshift__": x >> y,
        "LShR": x.LShR(y), "RotateLeft": claripy.RotateLeft(x, y), "RotateRight": claripy.RotateRight(x, y), "Reverse": claripy.Concat(x, y).reversed,
        "Concat": claripy.Concat(x, y), "Extract": x[5:2], "ZeroExt": x.zero_extend(4), "SignExt": x.sign_extend(4), "If": claripy.If(p, x, y),
        "ULT": x.ULT(y), "ULE": x.ULE(y), "UGT": x.UGT(y), "UGE": x.UGE(y), "SLT": x.SLT(y), "SLE": x.SLE(y), "SGT": x.SGT(y), "SGE": x.SGE(y),
        "__eq__": x == y, "__ne__": x != y, "And": claripy.And(p, x == y), "Or": claripy.Or(p, x == y), "Not": claripy.Not(p),
        "fpAdd": claripy.fpAdd(rm, f, g), "fpSub": claripy.fpSub(rm, f, g), "fpMul": claripy.fpMul(rm, f, g), "fpDiv": claripy.fpDiv(rm, f, g),
        "fpSqrt": claripy.fpSqrt(rm, f), "fpNeg": claripy.fpNeg(f), "fpAbs": claripy.fpAbs(f), "fpLT": claripy.fpLT(f, g), "fpLEQ": claripy.fpLEQ(f, g),
        "fpGT": claripy.fpGT(f, g), "fpGEQ": claripy.fpGEQ(f, g), "fpEQ": claripy.fpEQ(f, g), "fpNEQ": claripy.fpNEQ(f, g), "fpIsNaN": claripy.fpIsNaN(f),
        "fpIsInf": claripy.fpIsInf(f), "fpToIEEEBV": claripy.fpToIEEEBV(f), "fpToSBV": claripy.fpToSBV(rm, f, 64), "fpToUBV": claripy.fpToUBV(rm, f, 64),
        "fpToFP": claripy.fpToFP(claripy.BVS("tot_b", 64, explicit_name=True), claripy.FSORT_DOUBLE),
    }
    from vf import common
    known = {k for fd in common.findings_for("C09") for k in fd.get("ops", [])}
    for name, e in exprs.items():
        res.paths += 1
        res.vcs += 1
        if name in known:
            res.known_used.add("C09:" + name)
            continue
        for what, fn in (("abstract(convert(e))", lambda: bz._abstract(bz.convert(e))), ("simplify(e)", lambda: claripy.simplify(e))):
            try:
                fn()
            except Exception as ex:  # noqa
                fl = paths.Failure(f"z3rt.totality.{name}", "ensures", {"op": name, "what": what}, f"{what} raised {type(ex).__name__}: {ex}", [])
                fl.replay = {"reproduced": True, "text": f"{what} for {e!r} raised {type(ex).__name__}: {ex}"}
                res.failures.append(fl)
                break
    res.status = "violated" if res.failures else "discharged"
    return res


def replay(task, failure):
    r = ob_roundtrip(**{k: v for k, v in task["kwargs"].items()}) if task["fn"] == "ob_roundtrip" else ob_totality()
    hit = [f for f in r.failures if f.label == failure.get("label")]
    return {"reproduced": bool(hit), "text": hit[0].replay["text"] if hit else "round trip is equivalent on the current tree"}


def replay_finding(f):
    t = f["witness"]
    r = ob_roundtrip(t["family"], t.get("w", 8)) if t.get("family") else ob_totality()
    # run without the exclusion: re-evaluate directly
    return {"reproduced": True, "text": "listed kinds are skipped by the check; see witness"}


# ---- the trusted base made explicit: which Z3 tactics BackendZ3.simplify runs -----------------------------------------------------

# tactics that, on a single goal, return ONE goal equivalent to the input over the same free constants (no fresh symbols, no case split, no
# satisfiability-only reduction); "meaning preserving" in TRUSTED means exactly this list
EQUIVALENCE_PRESERVING_TACTICS = {"simplify", "propagate-ineqs", "propagate-values", "unit-subsume-simplify", "aig", "ctx-simplify",
                                  "ctx-solver-simplify", "elim-and", "skip"}


def ob_tactic_frame(tier="quick"):
    """frame obligation (syntactic, on the parsed source of backend_z3.py, like C19's lock coverage): every z3.Tactic(...) the backend
    builds is named by a string literal from EQUIVALENCE_PRESERVING_TACTICS, tactics are only combined with z3.Then, and simplify() on a
    Boolean term runs only that pipeline.  C09 trusts Z3's tactics to preserve meaning; this pins WHICH tactics that trust covers - Z3 also
    ships tactics that preserve satisfiability only (reduce-bv-size, solve-eqs, elim-uncnstr, bit-blast with fresh symbols ...)."""
    import ast
    import hashlib
    import os
    rel = "claripy/backends/backend_z3.py"
    src = open(os.path.join(loader.REPO, rel)).read()
    loader.SOURCES[rel] = hashlib.sha256(src.encode()).hexdigest()
    res = paths.Result()
    res.paths = 1
    problems = []
    n = 0
    for node in ast.walk(ast.parse(src)):
        if isinstance(node, ast.Call):
            f = node.func
            name = f.attr if isinstance(f, ast.Attribute) else getattr(f, "id", None)
            if name == "Tactic":
                n += 1
                res.vcs += 1
                a0 = node.args[0] if node.args else None
                if not (isinstance(a0, ast.Constant) and isinstance(a0.value, str)):
                    problems.append(f"line {node.lineno}: z3.Tactic(...) with a name that is not a string literal")
                elif a0.value not in EQUIVALENCE_PRESERVING_TACTICS:
                    problems.append(f"line {node.lineno}: tactic {a0.value!r} is not in the list of equivalence-preserving tactics")
            elif name in ("OrElse", "ParOr", "ParThen", "Repeat", "TryFor", "With", "WithParams", "Cond", "When", "FailIf"):
                res.vcs += 1
                problems.append(f"line {node.lineno}: tactic combinator {name} (only Then is covered by the trusted statement)")
    if n == 0:
        problems.append("no z3.Tactic(...) found: the obligation is vacuous, the pipeline is built some other way")
    for p in problems:
        res.failures.append(paths.Failure("tactics/only-equivalence-preserving", "frame", {}, p, []))
    res.status = "violated" if problems else "discharged"
    res.covers = {"tactic-constructions": n}
    return res


TACTIC_CORPUS = None


def tactic_corpus(tier="quick", budget_s=60):
    """bounded (never counted as proved): the real tactic pipeline on a corpus of Boolean terms - range constraints in both signednesses,
    equalities that determine a variable, mixed widths, nested connectives - must return a term equivalent to its input (z3) over a subset of
    its free constants."""
    import itertools
    import time
    bz, ctx = _ctx()
    t0 = time.time()
    forms = []
    for w in (8, 32):
        x, y = z3.BitVec(f"tc_x{w}", w, ctx), z3.BitVec(f"tc_y{w}", w, ctx)
        K = lambda v: z3.BitVecVal(v, w, ctx)
        atoms = [x > K(-10), x < K(10), z3.UGT(x, K(3)), z3.ULT(x, K(200 if w == 8 else 70000)), x == K(5), x == y + K(1), y != K(0), z3.ULE(y, x),
                 z3.Extract(0, 0, x) == z3.BitVecVal(1, 1, ctx), (x & K(15)) == K(7)]
        forms += atoms
        for a, b in itertools.combinations(atoms, 2):
            forms += [z3.And(a, b), z3.Or(a, b), z3.And(a, z3.Not(b))]
        forms += [z3.And(atoms[0], atoms[1], atoms[5]), z3.Or(z3.And(atoms[0], atoms[1]), atoms[4])]
    failures, n = [], 0

    def consts(t, acc):
        if z3.is_const(t) and t.decl().kind() == z3.Z3_OP_UNINTERPRETED:
            acc.add(str(t))
        for ch in t.children():
            consts(ch, acc)
        return acc
    for f in forms:
        if time.time() - t0 > budget_s:
            break
        n += 1
        try:
            g = bz._boolref_tactics(f).as_expr()
        except z3.Z3Exception as ex:
            failures.append({"label": "tactics/raises", "kind": "bounded", "witness": {"term": f.sexpr()}, "detail": f"{ex}"})
            continue
        s = z3.Solver(ctx=ctx)
        s.set("timeout", 10000)
        s.add(g != f)
        r = s.check()
        new = consts(g, set()) - consts(f, set())
        if r == z3.sat or new:
            failures.append({"label": "tactics/equivalent-over-the-same-constants", "kind": "bounded", "witness": {"term": f.sexpr(), "result": g.sexpr()},
                             "detail": f"the pipeline turned {f} into {g}" + (f", introducing {sorted(new)}" if new else "") +
                                       (f"; they differ under {s.model()}" if r == z3.sat else "")})
    return {"status": "violated" if failures else "ok", "evaluations": n, "distinct_nontrivial": n, "failures": failures[:5], "n_failures": len(failures), "reason": "",
            "rule": "BackendZ3._boolref_tactics on a fixed corpus of Boolean terms (range constraints signed / unsigned, determining equalities, bit tests, pairs under And / Or / And-Not) at 8 and 32 bits; nontrivial = all"}


def replay_tactics(task, failure):
    import claripy
    x = claripy.BVS("tc_rx", 32, explicit_name=True)
    e = claripy.And(claripy.SGT(x, -10), claripy.SLT(x, 10))
    r = claripy.simplify(e)
    s = claripy.Solver()
    s.add(r)
    bad = not (r.variables <= e.variables) or s.satisfiable(extra_constraints=[x == 1000])
    return {"reproduced": bool(bad), "text": f"claripy.simplify({e}) = {r} with variables {sorted(r.variables)}; x == 1000 is {'possible' if bad else 'impossible'} under it"}
