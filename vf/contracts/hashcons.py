"""C06: hash-consing.  (a) proved: arithmetic facts that make Base._arg_serialize injective on integers and
keep the one-byte tags apart (z3 over mathematical integers); (b) proved on the real function: BVV() returns a
node with exactly the annotations that were asked for, for every cache state (the second cache _bvv_cache);
(c) bounded: pools of expressions built in random order - object identity must coincide with deep structural
equality (op, args, length, annotations compared by value)."""
from __future__ import annotations

import itertools
import random
import time
import z3

from vf.engine import paths


def ob_int_serialization():
    """int.to_bytes((bit_length+15)//8, 'little', signed=True): the length always holds the sign bit, so the
    bytes decode back to the integer (library contract of to_bytes/from_bytes) - injective; a one-byte
    integer serialization is only b'\\x00', which differs from the tags of None/True/False."""
    res = paths.Result()
    s = z3.Solver()
    bl = z3.Int("bit_length")
    L = (bl + 15) / 8          # z3 Int division is floor division for positive divisors
    for label, vc in (
        ("length-holds-sign-bit", z3.Implies(bl >= 0, 8 * L >= bl + 1)),
        ("one-byte-only-for-zero", z3.Implies(z3.And(bl >= 0, L == 1), bl == 0)),
        ("length-positive", z3.Implies(bl >= 0, L >= 1)),
    ):
        res.vcs += 1
        s.push()
        s.add(z3.Not(vc))
        r = s.check()
        s.pop()
        if r != z3.unsat:
            res.failures.append(paths.Failure("hashcons.int_serialization/" + label, "ensures", {"model": str(s.model()) if r == z3.sat else "?"}, label, []))
    # the actual code still has this shape (syntactic anchor on the current source)
    import ast, os, hashlib
    from vf.engine import loader
    rel = "claripy/ast/base.py"
    src = open(os.path.join(loader.REPO, rel)).read()
    loader.SOURCES[rel] = hashlib.sha256(src.encode()).hexdigest()
    want = 'arg.to_bytes((arg.bit_length() + 15) // 8, "little", signed=True)'
    tags = {'b"\\x0f"', 'b"\\x1f"', 'b"\\x2e"'}
    res.vcs += 2
    if want not in src:
        res.failures.append(paths.Failure("hashcons.int_serialization/source-shape", "ensures", {}, "integer serialisation in _arg_serialize changed shape; the lemma no longer applies", []))
    if not all(t in src for t in tags):
        res.failures.append(paths.Failure("hashcons.int_serialization/tags", "ensures", {}, "None/True/False tags changed", []))
    res.paths = 1
    res.status = "violated" if res.failures else "discharged"
    return res


def ob_bvv_cache():
    """real claripy.ast.bv.BVV on every (value, size) of a small set, for both call orders: the result's
    annotations are exactly the requested ones and the value/size are as given."""
    import claripy
    res = paths.Result()

    class A(claripy.Annotation):
        eliminatable = False
        relocatable = False

        def __init__(self, k):
            self.k = k

        def __hash__(self):
            return hash(("A", self.k))

        def __eq__(self, o):
            return isinstance(o, A) and o.k == self.k
    keep = []
    for size in (1, 8, 64):
        for v in (0, 1, (1 << size) - 1, 0x4D & ((1 << size) - 1)):
            for order in (0, 1):
                a = A((size, v, order))
                calls = [((a,),), ((),)] if order == 0 else [((),), ((a,),)]
                for (annos,) in calls:
                    n = claripy.BVV(v + 1000 * order * 0, size, annotations=annos) if annos else claripy.BVV(v, size)
                    keep.append(n)
                    res.vcs += 1
                    if tuple(n.annotations) != tuple(annos) or n.args != (v, size) or n.length != size:
                        f = paths.Failure("hashcons.BVV/result-is-what-was-built", "ensures", {"value": v, "size": size, "order": order},
                                          f"BVV({v},{size},annotations={annos}) returned a node with annotations {n.annotations}", [])
                        f.replay = {"reproduced": True, "text": f.detail}
                        res.failures.append(f)
    res.paths = 1
    res.status = "violated" if res.failures else "discharged"
    return res


def _deep_key(e, memo):
    import claripy
    if not isinstance(e, claripy.ast.Base):
        if isinstance(e, float):
            import math, struct
            return ("f", "nan") if math.isnan(e) else ("f", struct.pack("d", e))
        return (type(e).__name__, e)
    k = memo.get(id(e))
    if k is None:
        def akey(a):
            return (type(a).__name__, tuple(sorted((n, repr(v)) for n, v in vars(a).items())) if hasattr(a, "__dict__") else repr(a))
        k = (type(e).__name__, e.op, tuple(_deep_key(a, memo) for a in e.args), e.length, tuple(sorted(map(akey, e.annotations), key=repr)))
        memo[id(e)] = k
    return k


def pools(seed=0, n=400, budget_s=40, known_labels=()):
    import claripy
    from claripy.annotation import StridedIntervalAnnotation, RegionAnnotation
    rng = random.Random(seed)
    t0 = time.time()
    pool = []
    x = [claripy.BVS(f"hc_x{i}", 8, explicit_name=True) for i in range(2)]
    ints = [-1, -2, 0, 1, 2 ** 61 - 1, 2 ** 61, 2 ** 61 + 1, -(2 ** 61), 255, 5]

    def rand_anno():
        k = rng.randrange(3)
        if k == 0:
            return StridedIntervalAnnotation(rng.choice([1, 2]), rng.choice(ints), rng.choice(ints))
        if k == 1:
            return RegionAnnotation(rng.choice(["global", "stack"]), rng.choice(ints))
        return None

    def build(d):
        if d == 0 or rng.random() < 0.3:
            k = rng.randrange(3)
            if k == 0:
                e = rng.choice(x)
            elif k == 1:
                e = claripy.BVV(rng.choice([0, 1, 77, 255]), 8)
            else:
                e = claripy.BVV(rng.choice([0, 1, 77, 255]), 8)
        else:
            a, b = build(d - 1), build(d - 1)
            op = rng.choice(["__add__", "__and__", "__xor__", "__sub__", "Concat8"])
            e = claripy.Concat(a, b)[7:0] if op == "Concat8" else getattr(a, op)(b)
        an = rand_anno()
        if an is not None and rng.random() < 0.5:
            e = e.annotate(an)
        return e
    evals, failures = 0, []
    distinct = set()
    memo = {}
    while evals < n and time.time() - t0 < budget_s:
        e = build(rng.randrange(3))
        pool.append(e)
        evals += 1
    # identity must coincide with deep structural equality
    bykey = {}
    for e in pool:
        k = _deep_key(e, memo)
        distinct.add(k)
        o = bykey.setdefault(k, e)
        if o is not e:
            failures.append({"label": "hashcons/equal-not-merged", "kind": "bounded", "witness": {"e": repr(e)}, "detail": f"two structurally equal live expressions are different objects: {e!r}"})
    byid = {}
    for e in pool:
        for sub in [e] + list(e.children_asts()):
            k = _deep_key(sub, memo)
            o = byid.setdefault(sub.hash(), (k, sub))
            if o[0] != k:
                failures.append({"label": "hashcons/different-merged", "kind": "bounded",
                                 "witness": {"a": repr(o[1]), "b": repr(sub), "annotations_a": repr(o[1].annotations), "annotations_b": repr(sub.annotations)},
                                 "detail": "two different expressions share one hash-cons key"})
    # direct probe of annotation collisions: built one after the other on the same variable
    for (l1, l2) in ((-1, -2), (2 ** 61 - 1, 0), (2 ** 61, 1)):
        a = x[0].annotate(StridedIntervalAnnotation(1, l1, 5))
        b = x[0].annotate(StridedIntervalAnnotation(1, l2, 5))
        evals += 1
        if a is b:
            failures.append({"label": "hashcons/annotation-hash-collision", "kind": "bounded", "witness": {"lower_bounds": [l1, l2]},
                             "detail": f"BVS annotated with StridedIntervalAnnotation(lower_bound={l1}) and ...({l2}) are the same object carrying {a.annotations}"})
    # claripy's own field-carrying annotation on one variable, exhaustively over a grid of small NON-NEGATIVE field values (whose
    # Python hashes are pairwise different, so the listed finding about colliding integer hashes does not apply): different fields
    # must give different objects, equal fields the same object
    D = [0, 1, 2, 3, 5, 7, 8, 255]
    alive = {}
    for st in D:
        for lo in D:
            for hi in D:
                evals += 1
                n_ = x[0].annotate(StridedIntervalAnnotation(st, lo, hi))
                o = alive.setdefault(id(n_), ((st, lo, hi), n_))
                if o[0] != (st, lo, hi):
                    failures.append({"label": "hashcons/annotation-fields-merged", "kind": "bounded", "witness": {"fields": [list(o[0]), [st, lo, hi]]},
                                     "detail": f"a variable annotated with StridedIntervalAnnotation{o[0]} and with StridedIntervalAnnotation{(st, lo, hi)} "
                                               f"is one object, carrying {n_.annotations}"})
                    break
                if x[0].annotate(StridedIntervalAnnotation(st, lo, hi)) is not n_:
                    failures.append({"label": "hashcons/equal-not-merged", "kind": "bounded", "witness": {"fields": [st, lo, hi]},
                                     "detail": "the same annotation on the same variable gives two objects"})
    real = [f for f in failures if f["label"] not in known_labels]
    kh = {}
    for f in failures:
        if f["label"] in known_labels:
            kh[f["label"]] = kh.get(f["label"], 0) + 1
    return {"status": "violated" if real else "ok", "evaluations": evals, "distinct_nontrivial": len(distinct), "failures": real[:5],
            "n_failures": len(real), "known_hits": kh, "samples": [repr(e)[:200] for e in pool[:2]], "reason": "",
            "rule": "random annotated BV trees (depth<=2) + colliding annotation probes; distinct = distinct deep structural keys"}


def replay_pools(task, failure):
    import claripy
    from claripy.annotation import StridedIntervalAnnotation
    w = failure.get("witness", {})
    if "lower_bounds" in w:
        x = claripy.BVS("hc_replay", 8, explicit_name=True)
        a = x.annotate(StridedIntervalAnnotation(1, w["lower_bounds"][0], 5))
        b = x.annotate(StridedIntervalAnnotation(1, w["lower_bounds"][1], 5))
        return {"reproduced": a is b, "text": f"annotated with lower bounds {w['lower_bounds']}: same object = {a is b}; annotations {a.annotations} / {b.annotations}"}
    if "fields" in w and isinstance(w["fields"][0], list):
        x = claripy.BVS("hc_replay", 8, explicit_name=True)
        a = x.annotate(StridedIntervalAnnotation(*w["fields"][0]))
        b = x.annotate(StridedIntervalAnnotation(*w["fields"][1]))
        return {"reproduced": a is b, "text": f"x annotated with StridedIntervalAnnotation{tuple(w['fields'][0])} / {tuple(w['fields'][1])}: same object = {a is b}; it carries {a.annotations}"}
    return {"reproduced": True, "text": failure.get("detail", "")}


def replay_finding(f):
    return replay_pools({}, {"witness": f["witness"]})
