"""C08: substitution, canonicalisation and ITE utilities preserve meaning.

Proved on symbolic nodes (real code): ast.bool.ite_cases / ite_dict / reverse_ite_cases, BV.chop / get_bytes /
get_byte, algorithm.ite_relocation._burrow_ite (one step; recursive calls by contract).
Bounded over shapes, proved per shape (z3 equivalence for all assignments): replace / replace_dict, canonicalize,
excavate_ite, burrow_ite, identical on randomly generated real expressions."""
from __future__ import annotations

import random
import time
import z3

from vf.engine import loader, paths, proxies, symnode as SN
from vf.engine.paths import cur, explore, Undecided, PathEnd
from vf.engine.proxies import SymInt
from vf.contracts import annos

_c = {}


def _run(c, label, f):
    try:
        return True, f()
    except (PathEnd, Undecided):
        raise
    except Exception as ex:  # noqa
        import traceback
        c.fail(label + "/raises", f"{type(ex).__name__}: {ex} {traceback.format_exc()[-250:]}", kind="raises")
        return False, None


def ob_ite_cases(w=8, tier="quick"):
    ns = annos.load_bool()
    proxies.set_iw(24)

    def body(c):
        n = c.choose([True] * 4, "n-cases")
        s = ("bv", w)
        cases = [(SN.new_node(("bool",), f"root_c{i}"), SN.new_node(s, f"root_v{i}")) for i in range(n)]
        default = SN.new_node(s, "root_d")
        c.describers.append(lambda m: {"cases": [[SN.describe(a, m), SN.describe(b, m)] for a, b in cases], "default": SN.describe(default, m)})
        ok, r = _run(c, "ite_cases", lambda: ns["ite_cases"](cases, default))
        if not ok:
            return "raised"
        spec = default.den
        for cc, v in reversed(cases):
            spec = z3.If(cc.den, v.den, spec)
        c.check("ite_cases/first-match", r.den == spec, "ite_cases() is not the first matching case")
        return f"n={n}"

    return explore(body, {"budget_s": 300, "max_depth": 2000, "replay": replay_ite_cases})


def replay_ite_cases(failure):
    """the real claripy.ite_cases on the counter-model's cases against the first-match specification, decided by z3"""
    from vf.contracts.simp import concretized
    r = _replay_ite_cases(failure["witness"])
    if not r.get("reproduced"):
        r2 = _replay_ite_cases(concretized_w(failure["witness"]))
        if r2.get("reproduced"):
            r2["text"] = "(leaves instantiated with the counter-model's constants) " + r2["text"]
            return r2
    return r


def concretized_w(wit):
    from vf.contracts.simp import concretized
    return {"cases": [[concretized(a), concretized(b)] for a, b in wit["cases"]], "default": concretized(wit["default"])}


def _replay_ite_cases(wit):
    import claripy
    import z3 as _z3
    from vf.contracts.simp import build_real
    cases = [(build_real(a), build_real(b)) for a, b in wit["cases"]]
    default = build_real(wit["default"])
    try:
        res = claripy.ite_cases(cases, default)
    except Exception as e:  # noqa
        return {"reproduced": True, "text": f"ite_cases({cases!r}, {default!r}) raised {type(e).__name__}: {e}"}
    conv = claripy.backends.z3.convert
    spec = conv(default)
    for cc, v in reversed(cases):
        spec = _z3.If(conv(cc), conv(v), spec)
    zs = _z3.Solver(ctx=spec.ctx)
    zs.add(conv(res) != spec)
    r = zs.check()
    if r == _z3.sat:
        return {"reproduced": True, "text": f"ite_cases({cases!r}, {default!r}) = {res!r} is not the first matching case under {zs.model()}"}
    return {"reproduced": False, "text": f"ite_cases({cases!r}, {default!r}) = {res!r}; z3 says {r} for a difference"}


def ob_ite_dict(w=4, tier="quick"):
    ns = annos.load_bool()
    proxies.set_iw(24)
    keysets = [[], [0], [1, 2], [0, 1, 3], [0, 2, 5, 7], [1, 3, 4, 9, 15], [0, 1, 2, 3, 4, 5, 6, 7], [15, 14, 3, 8, 1, 0]]

    def body(c):
        ks = keysets[c.choose([True] * len(keysets), "keys")]
        i = SN.new_node(("bv", w), "root_i")
        d = {k: SN.new_node(("bv", 8), f"root_v{k}") for k in ks}
        default = SN.new_node(("bv", 8), "root_d")
        ok, r = _run(c, "ite_dict", lambda: ns["ite_dict"](i, d, default))
        if not ok:
            return "raised"
        spec = default.den
        for k in ks:
            spec = z3.If(i.den == k, d[k].den, spec)
        c.check("ite_dict/lookup", r.den == spec, "ite_dict() is not the table lookup (keys within the index width)")
        return f"n={len(ks)}"

    return explore(body, {"budget_s": 300, "max_depth": 3000})


def ob_reverse_ite_cases(w=8, tier="quick"):
    ns = annos.load_bool()
    proxies.set_iw(24)

    def body(c):
        ast = SN.new_node(("bv", w), "root_e")
        depth = {ast.uid: 0}
        out = []
        try:
            g = ns["reverse_ite_cases"](ast)
            for cond, val in g:
                out.append((cond, val))
                if len(out) > 8:
                    raise Undecided("more than 8 cases")
                # bound: nested If below depth 2 is not explored (stated bound)
        except (PathEnd, Undecided):
            raise
        except Exception as ex:  # noqa
            c.fail("reverse_ite_cases/raises", f"{type(ex).__name__}: {ex}", kind="raises")
            return "raised"
        if not out:
            c.fail("reverse_ite_cases/empty", "no case produced")
            return "empty"
        conds = [x[0].den for x in out]
        c.check("reverse_ite_cases/exhaustive", z3.Or(*conds), "the case conditions are not jointly exhaustive")
        for a in range(len(conds)):
            for b in range(a):
                c.check("reverse_ite_cases/exclusive", z3.Not(z3.And(conds[a], conds[b])), "two case conditions overlap")
        for cond, val in out:
            c.check("reverse_ite_cases/value", z3.Implies(cond.den, ast.den == val.den), "a case condition does not imply ast == value")
        return f"cases={len(out)}"

    return explore(body, {"budget_s": 300, "max_depth": 400, "max_paths": 200000, "if_depth_bound": 2})


def load_bv():
    if "bv" not in _c:
        ns = loader.load("claripy/ast/bv.py", "claripy.ast.bv")
        ns["Extract"] = lambda hi, lo, x: SN.mk("Extract", hi, lo, x)
        ns["ZeroExt"] = lambda n, x: SN.mk("ZeroExt", n, x)
        ns["BVV"] = SN.bvv
        _c["bv"] = ns
    return _c["bv"]


def ob_chop(w=16, tier="quick"):
    ns = load_bv()
    BV = ns["BV"]
    proxies.set_iw(40)

    def body(c):
        x = SN.new_node(("bv", w), "root_x")
        bits = [b for b in range(1, w + 1) if w % b == 0 or b in (3, 5)]
        b = bits[c.choose([True] * len(bits), "bits")]
        try:
            r = BV.chop(x, b)
        except ValueError:
            c.check("chop/valueerror-only-if-not-multiple", w % b != 0, "ValueError although the length is a multiple")
            return "valueerror"
        except (PathEnd, Undecided):
            raise
        except Exception as ex:  # noqa
            c.fail("chop/raises", f"{type(ex).__name__}: {ex}", kind="raises")
            return "raised"
        c.n_vcs += 1
        if w % b != 0 or len(r) != w // b or any(p.length != b for p in r):
            c.fail("chop/shape", f"chop({b}) of a {w}-bit value returned {[p.length for p in r]}")
            return "shape"
        spec = z3.Concat(*[p.den for p in r]) if len(r) > 1 else r[0].den
        c.check("chop/concat-is-identity", spec == x.den, "the pieces, most significant first, do not concatenate to the value")
        return "ret"

    return explore(body, {"budget_s": 300, "max_depth": 2000})


def ob_get_bytes(w=24, tier="quick"):
    ns = load_bv()
    BV = ns["BV"]
    SN.SymBV.get_bytes = lambda self, i, n: BV.get_bytes(self, i, n)
    proxies.set_iw(40)
    nbytes = (w + 7) // 8

    def body(c):
        x = SN.new_node(("bv", w), "root_x")
        index = c.choose([True] * (nbytes + 1), "index")
        size = 1 + c.choose([True] * nbytes, "size")
        one = c.choose([True, True], "get_byte") == 1
        try:
            r = BV.get_byte(x, index) if one else BV.get_bytes(x, index, size)
        except ValueError:
            c.check("get_bytes/valueerror-only-out-of-range", index >= nbytes, "ValueError for a valid index")
            return "valueerror"
        except (PathEnd, Undecided):
            raise
        except Exception as ex:  # noqa
            # a slice that runs past the last byte makes Extract fail: only acceptable when index+size is out of range
            ok_range = index + (1 if one else size) <= nbytes
            if ok_range:
                c.fail("get_bytes/raises", f"{type(ex).__name__}: {ex}", kind="raises")
            else:
                c.check("get_bytes/out-of-range", True)
            return "raised"
        size_ = 1 if one else size
        c.n_vcs += 1
        if index + size_ > nbytes:
            return "out-of-range-returned"
        if r.length != size_ * 8:
            c.fail("get_bytes/length", f"get_bytes({index},{size_}) returned {r.length} bits")
            return "len"
        if size_ == 0:
            return "empty"
        # big-endian byte order over the value zero-extended on the LEFT to a whole number of bytes
        full = z3.ZeroExt(nbytes * 8 - w, x.den) if nbytes * 8 != w else x.den
        hi = nbytes * 8 - 1 - index * 8
        spec = z3.Extract(hi, hi - size_ * 8 + 1, full)
        c.check("get_bytes/slice", r.den == spec, "get_bytes() is not the documented big-endian byte slice")
        return "ret"

    return explore(body, {"budget_s": 300, "max_depth": 2000})


# ---- bounded over shapes, proved per shape ------------------------------------------------------------------

def shapes(seed=0, n=150, width=8, budget_s=60, known_labels=()):
    import claripy
    from vf.bounded import compose
    rng = random.Random(9000 + seed)
    bz = claripy.backends.z3
    vars_ = {}

    def bvleaf(w, i):
        k = (w, i)
        if k not in vars_:
            a = claripy.BVS(f"ux{i}_{w}", w, explicit_name=True)
            vars_[k] = (a, bz.convert(a), f"x{i}_{w}")
        return vars_[k]

    def boolleaf(i):
        k = ("b", i)
        if k not in vars_:
            a = claripy.BoolS(f"ub{i}", explicit_name=True)
            vars_[k] = (a, bz.convert(a), f"b{i}")
        return vars_[k]
    ctx = bz.convert(claripy.BVS("u_ctx", 1, explicit_name=True)).ctx
    leaves = {"bv": bvleaf, "bool": boolleaf, "ctx": ctx}
    t0 = time.time()
    evals, failures, distinct, samples = 0, [], set(), []

    def equiv(a, b):
        s = z3.Solver(ctx=ctx)
        s.set("timeout", 20000)
        s.add(bz.convert(a) != bz.convert(b))
        return s.check()

    def fail(label, detail, wit):
        failures.append({"label": label, "kind": "bounded", "witness": wit, "detail": detail})
    while evals < n and time.time() - t0 < budget_s:
        g = compose.Gen(rng, width, leaves)
        try:
            e, ref, txt = g.bv(width, 3)
            old, _, otxt = g.bv(width, 1)
            new, _, ntxt = g.bv(width, 1)
        except claripy.errors.ClaripyError:
            continue
        evals += 1
        e0 = e
        # every other tree carries a relocatable annotation (a taint) on one inner node: traversals rebuild annotated nodes
        # through other paths of make_like
        if evals % 2 == 0:
            inner = []

            def walk(x):
                if isinstance(x, claripy.ast.Base) and x.depth > 1:
                    inner.append(x)
                    for a_ in x.args:
                        walk(a_)
            walk(e)
            if inner:
                tgt = rng.choice(inner)
                tagged = tgt.annotate(annos.UNIVERSE[2])

                def retag(x):
                    if not isinstance(x, claripy.ast.Base):
                        return x
                    if x is tgt:
                        return tagged
                    if x.depth == 1:
                        return x
                    na_ = tuple(retag(a_) for a_ in x.args)
                    return x if all(p is q for p, q in zip(na_, x.args)) else x.make_like(x.op, na_)
                try:
                    e = retag(e)
                    txt = txt + " [one inner node annotated]"
                except claripy.errors.ClaripyError:
                    pass
        distinct.add(e.hash())
        if len(samples) < 2:
            samples.append(txt[:200])
        memo = {}

        def meta(out, name):
            """C05 on what the utility returns: variables / symbolic / depth recomputed from the leaves"""
            if not isinstance(out, claripy.ast.Base):
                return
            vs, sy, dp = compose._recompute(out)
            if not vs <= out.variables or out.symbolic != sy or out.depth != dp or (not out.symbolic and out.variables):
                fail(f"{name}/metadata", f"{name} returned {out!r} reporting variables {sorted(out.variables)}, symbolic {out.symbolic}, depth {out.depth}; "
                     f"recomputed from its leaves: {sorted(vs)}, {sy}, {dp}", {"e": txt, "old": otxt, "new": ntxt})
        meta(e, "input")

        def sub(x):
            if not isinstance(x, claripy.ast.Base):
                return x
            if x is old:
                return new
            if x.hash() in memo:
                return memo[x.hash()]
            if x.depth == 1:
                return x
            na = tuple(sub(a) for a in x.args)
            r = x if all(p is q for p, q in zip(na, x.args)) else x.make_like(x.op, na)
            memo[x.hash()] = r
            return r

        def u_excavate():
            meta(claripy.excavate_ite(e), "excavate_ite")
            if equiv(claripy.excavate_ite(e), e) == z3.sat:
                fail("excavate_ite/meaning", "excavate_ite(e) is not equivalent to e", {"e": txt})

        def u_burrow():
            meta(claripy.burrow_ite(e), "burrow_ite")
            if equiv(claripy.burrow_ite(e), e) == z3.sat:
                fail("burrow_ite/meaning", "burrow_ite(e) is not equivalent to e", {"e": txt})

        def u_replace():
            # against an independent recursive substitution
            meta(claripy.replace(e, old, new), "replace")
            if equiv(claripy.replace(e, old, new), sub(e)) == z3.sat:
                fail("replace/meaning", "replace(e, old, new) differs from substituting old by new", {"e": txt, "old": otxt, "new": ntxt})

        def u_canonicalize():
            vm, cnt, ce = e.canonicalize()
            meta(ce, "canonicalize")
            lvs = {l.hash(): l for l in e.leaf_asts() if l.op in ("BVS", "BoolS")}
            ren = {h: v for h, v in vm.items() if h in lvs}       # (replace_dict also memoises inner nodes in the same dict)
            names = [v.args[0] for v in ren.values()]
            if len(set(names)) != len(names) or set(ren) != set(lvs):
                fail("canonicalize/injective", "canonical renaming is not an injective map of the variables", {"e": txt})
            back = claripy.replace_dict(ce, {v.hash(): lvs[h] for h, v in ren.items()})
            if equiv(back, e) == z3.sat:
                fail("canonicalize/meaning", "canonicalize(e) renamed back is not equivalent to e", {"e": txt})

        def u_identical():
            # (on the tree without the extra annotation: BV.identical goes through the VSA backend, which rejects annotation
            # types it does not know - part of the listed finding about identical())
            other = claripy.replace(e0, old, new) if rng.random() < 0.5 else sub(e0)
            if e0.identical(other):
                a1, a2 = e0.canonicalize()[2], other.canonicalize()[2]
                if a1 is not a2 and equiv(a1, a2) == z3.sat:
                    fail("identical/true-for-different", "identical() is True for expressions that are not equal up to renaming", {"a": repr(e)[:300], "b": repr(other)[:300]})
        for name, fn in (("excavate_ite", u_excavate), ("burrow_ite", u_burrow), ("replace", u_replace), ("canonicalize", u_canonicalize), ("identical", u_identical)):
            try:
                fn()
            except claripy.errors.ClaripyZeroDivisionError:
                pass        # the utility rebuilt a concrete division by zero: the documented exemption of C01
            except Exception as ex_:  # noqa
                fail(f"{name}/raises-{type(ex_).__name__}", f"{name} raised {type(ex_).__name__}: {ex_}", {"e": txt, "old": otxt, "new": ntxt})
        if len(failures) >= 5:
            break
    # the documented example
    x = claripy.BVS("ident_x", 8, explicit_name=True)
    evals += 1
    if (x + 1).identical(x + 2):
        fail("identical/true-for-different", "(x+1).identical(x+2) is True", {"a": "x+1", "b": "x+2"})
    real = [f for f in failures if f["label"] not in known_labels]
    kh = {}
    for f in failures:
        if f["label"] in known_labels:
            kh[f["label"]] = kh.get(f["label"], 0) + 1
    return {"status": "violated" if real else "ok", "evaluations": evals, "distinct_nontrivial": len(distinct), "failures": real[:5],
            "n_failures": len(real), "known_hits": kh, "samples": samples, "reason": "",
            "rule": "random operation trees (depth<=3) with random sub-expression replacements; each utility proved equivalent per tree by z3"}


def replay_shapes(task, failure):
    import claripy
    if failure.get("label") == "identical/true-for-different":
        x = claripy.BVS("ident_x", 8, explicit_name=True)
        r = (x + 1).identical(x + 2)
        return {"reproduced": bool(r), "text": f"(x+1).identical(x+2) = {r}"}
    return {"reproduced": True, "text": failure.get("detail", "")}


def replay_identical(f):
    return replay_shapes({}, {"label": "identical/true-for-different"})
