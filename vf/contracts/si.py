"""Contracts for claripy/backends/backend_vsa/strided_interval.py (C21, C22).

The real StridedInterval class (re-loaded from /repo on every run) is instantiated with SymInt
fields and its real methods are executed on every feasible path; the postcondition is gamma
containment against the reference operation on *members*, for all members, per width.
"""
from __future__ import annotations

import math as _math
import z3

from vf.engine import loader, paths, proxies
from vf.engine.paths import cur, explore, Undecided, Unsupported
from vf.engine.proxies import SymInt, SymBool, _bv

SI_PATH = "claripy/backends/backend_vsa/strided_interval.py"
WM_PATH = "claripy/backends/backend_vsa/warren_methods.py"

_ns_cache = {}


class MathContract:
    """Library contracts used by strided_interval.py (assumed, listed in trusted_base)."""
    floor = staticmethod(_math.floor)
    ceil = staticmethod(_math.ceil)

    @staticmethod
    def gcd(*xs):
        xs = list(xs)
        if not any(isinstance(x, SymInt) for x in xs):
            return _math.gcd(*xs)
        if len(xs) != 2:
            r = xs[0]
            for x in xs[1:]:
                r = MathContract.gcd(r, x)
            return r
        a, b = _bv(xs[0]), _bv(xs[1])
        c = cur()
        c.ghost["gcd_n"] = c.ghost.get("gcd_n", 0) + 1
        g = z3.BitVec(f"gcd{c.ghost['gcd_n']}", proxies.get_iw())
        absa = z3.If(a < 0, -a, a)
        absb = z3.If(b < 0, -b, b)
        # contract of math.gcd: g >= 0; g | a; g | b; every common divisor divides g (stated through
        # a bounded witness: no larger common divisor); g == 0 iff a == b == 0
        c.assume(g >= 0)
        c.assume(z3.Implies(z3.And(a == 0, b == 0), g == 0))
        c.assume(z3.Implies(z3.Or(a != 0, b != 0), z3.And(g > 0, z3.SRem(absa, g) == 0, z3.SRem(absb, g) == 0)))
        c.assume(z3.Implies(a != 0, g <= absa))
        c.assume(z3.Implies(b != 0, g <= absb))
        c.assume(z3.Implies(a == 0, g == absb))
        c.assume(z3.Implies(b == 0, g == absa))
        # greatest: for the small widths used here, state it for every candidate divisor
        W = c.opts.get("gcd_max", 0)
        for d in range(2, W + 1):
            dv = z3.BitVecVal(d, proxies.get_iw())
            c.assume(z3.Implies(z3.And(z3.SRem(absa, dv) == 0, z3.SRem(absb, dv) == 0, z3.Or(a != 0, b != 0)),
                                z3.SRem(g, dv) == 0))
        return SymInt(g)

    @staticmethod
    def lcm(a, b):
        if not (isinstance(a, SymInt) or isinstance(b, SymInt)):
            return _math.lcm(a, b)
        g = MathContract.gcd(a, b)
        if g == 0:
            return 0
        return abs(a * b) // g

    @staticmethod
    def log2(x):
        if isinstance(x, SymInt):
            raise Unsupported("math.log2 of a symbolic integer")
        return _math.log2(x)

    def __getattr__(self, n):
        return getattr(_math, n)


def mci_splitted_contract(si_0, si_1):
    """Contract of StridedInterval._minimal_common_integer_splitted (the real body solves a linear
    Diophantine equation through float division; it is checked against this contract by the bounded
    task `si.mci_splitted/bounded`).  requires: neither interval straddles the south pole.
    ensures: result is None and the intervals share no member, or result is the least common member."""
    c = cur()
    w = si_0.bits
    iw = proxies.get_iw()
    c.check("_minimal_common_integer_splitted/requires",
            z3.And(_bv(si_0._lower_bound) <= _bv(si_0._upper_bound), _bv(si_1._lower_bound) <= _bv(si_1._upper_bound)),
            "called with an interval that straddles the south pole", kind="requires")
    common = lambda v: z3.And(member(v, si_0, w), member(v, si_1, w))
    cands = [z3.BitVecVal(v, iw) for v in range(1 << w)]
    if c.choose([True, True], "mci") == 0:
        c.assume(z3.Not(z3.Or(*[common(v) for v in cands])))
        if not c.path_feasible():
            raise paths.PathEnd()
        return None
    c.ghost["mci_n"] = c.ghost.get("mci_n", 0) + 1
    r = SymInt.fresh(f"mci{c.ghost['mci_n']}", 0, (1 << w) - 1)
    c.assume(common(r.z))
    c.assume(z3.And(*[z3.Implies(v < r.z, z3.Not(common(v))) for v in cands]))
    if not c.path_feasible():
        raise paths.PathEnd()
    return r


def load_si():
    """Fresh load per process (cached): warren_methods and strided_interval from /repo."""
    proxies.FORMAT_CONCRETIZE = True      # StridedInterval.__hash__ formats its fields; sets of intervals depend on it
    if "si" in _ns_cache:
        return _ns_cache["si"]
    import logging
    logging.getLogger("claripy.backends.backend_vsa.strided_interval").setLevel(logging.ERROR)   # "Tried to cast_low ..." warnings per path
    wm = loader.load(WM_PATH, "claripy.backends.backend_vsa.warren_methods")
    ns = loader.load(SI_PATH, "claripy.backends.backend_vsa.strided_interval",
                     overrides={"math": MathContract(), "min_or": wm["min_or"], "max_or": wm["max_or"]})
    ns["__real_mci_splitted__"] = ns["StridedInterval"].__dict__["_minimal_common_integer_splitted"]
    ns["StridedInterval"]._minimal_common_integer_splitted = staticmethod(mci_splitted_contract)
    _ns_cache["si"] = ns
    _ns_cache["wm"] = wm
    return ns


# ---- specification (written from the wrapped strided-interval definition, not from the code) ----

def zmod(a, w):
    """a mod 2^w on IW-bit terms (non-negative result)."""
    return a & z3.BitVecVal((1 << w) - 1, a.size())


def member(v, si, w=None):
    """z3 Bool: v (IW-bit term, 0 <= v < 2^w) is in gamma(si).  si is a real StridedInterval whose
    fields may be proxies."""
    w = si.bits if w is None else w
    if si._is_bottom:
        return z3.BoolVal(False)
    lb, ub, st = _bv(si._lower_bound), _bv(si._upper_bound), _bv(si._stride)
    off = zmod(v - lb, w)
    span = zmod(ub - lb, w)
    return z3.If(st == 0, v == lb, z3.And(z3.ULE(off, span), z3.URem(off, st) == 0))


def wf(si, strong=False):
    w = si.bits
    if si._is_bottom:
        return z3.BoolVal(True)
    lb, ub, st = _bv(si._lower_bound), _bv(si._upper_bound), _bv(si._stride)
    M = (1 << w)
    c = [lb >= 0, lb < M, ub >= 0, ub < M, st >= 0, z3.Implies(st == 0, lb == ub)]
    if strong:
        c.append(z3.Implies(st != 0, z3.URem(zmod(ub - lb, w), st) == 0))
    return z3.And(*c)


def sym_si(ns, name, w, strong=True, allow_bottom=False):
    """An arbitrary well-formed strided interval of width w, built through the real constructor."""
    c = cur()
    M = (1 << w) - 1
    lb = SymInt.fresh(f"{name}_lb", 0, M)
    ub = SymInt.fresh(f"{name}_ub", 0, M)
    st = SymInt.fresh(f"{name}_stride", 0, M)
    c.assume(z3.Implies(st.z == 0, lb.z == ub.z))
    if strong:
        c.assume(z3.Implies(st.z != 0, z3.URem(zmod(ub.z - lb.z, w), st.z) == 0))
    if allow_bottom and c.choose([True, True], f"{name}_bottom") == 1:
        return ns["StridedInterval"].empty(w)
    return ns["StridedInterval"](bits=w, stride=st, lower_bound=lb, upper_bound=ub)


def sym_member(name, si, w=None):
    w = si.bits if w is None else w
    v = SymInt.fresh(name, 0, (1 << w) - 1)
    cur().assume(member(v.z, si, w))
    if not cur().path_feasible():
        raise paths.PathEnd()
    return v.z


def sx(v, w):
    """sign-extend the low w bits of an IW-bit term."""
    iw = v.size()
    return z3.SignExt(iw - w, z3.Extract(w - 1, 0, v))


def zx(v, w):
    iw = v.size()
    return z3.ZeroExt(iw - w, z3.Extract(w - 1, 0, v))


def _bvop(f, w):
    """lift a function on w-bit z3 terms to IW-bit terms holding values in [0,2^w)."""
    def g(*xs):
        iw = xs[0].size()
        r = f(*[z3.Extract(w - 1, 0, x) for x in xs])
        if z3.is_bool(r):
            return r
        return z3.ZeroExt(iw - r.size(), r)
    return g


# reference semantics of the transfer functions on members (SMT-LIB)
BIN_REF = {
    "add": lambda x, y: x + y,
    "sub": lambda x, y: x - y,
    "mul": lambda x, y: x * y,
    "udiv": lambda x, y: z3.UDiv(x, y),
    "sdiv": lambda x, y: x / y,
    "__mod__": lambda x, y: z3.URem(x, y),
    "bitwise_or": lambda x, y: x | y,
    "bitwise_and": lambda x, y: x & y,
    "bitwise_xor": lambda x, y: x ^ y,
    "lshift": lambda x, y: x << y,
    "rshift_logical": lambda x, y: z3.LShR(x, y),
    "rshift_arithmetic": lambda x, y: x >> y,
}
UN_REF = {
    "neg": lambda x: -x,
    "__neg__": lambda x: -x,
    "bitwise_not": lambda x: ~x,
    "__invert__": lambda x: ~x,
}
CMP_REF = {
    "SLT": lambda x, y: x < y, "SLE": lambda x, y: x <= y, "SGT": lambda x, y: x > y, "SGE": lambda x, y: x >= y,
    "ULT": z3.ULT, "ULE": z3.ULE, "UGT": z3.UGT, "UGE": z3.UGE, "eq": lambda x, y: x == y,
}
NEEDS_NONZERO = {"udiv", "sdiv", "__mod__"}


def _opts(w, tier, **kw):
    o = {"timeout_ms": 20000 if tier == "quick" else 120000, "budget_s": 240 if tier == "quick" else 3000,
         "max_paths": 60000, "max_depth": 30000, "gcd_max": (1 << w) - 1, "max_failures": 2}
    o.update(kw)
    return o


def _call(c, label, f, *args):
    """Run the real method; an exception on a feasible path is a failed obligation (no result returned)."""
    try:
        return True, f(*args)
    except (paths.PathEnd, paths.Undecided):
        raise
    except Exception as e:  # noqa
        import traceback
        tb = traceback.extract_tb(e.__traceback__)
        where = next((f"{fr.name}:{fr.lineno}" for fr in reversed(tb) if "strided_interval" in fr.filename or "warren" in fr.filename), "?")
        c.fail(label + "/raises", f"{type(e).__name__}: {e} at {where}", kind="raises")
        return False, None


def _rp(fn, **kw):
    """in-worker native replay of a counter-model (see paths.Ctx.check)"""
    def rp(failure):
        wit = failure.get("witness", {})
        if "a_lb" not in wit or ("x" not in wit and fn == "replay_transfer"):
            return {"reproduced": False, "text": "witness carries no operands"}
        return globals()[fn]({"kwargs": kw}, failure)
    return rp


def _result_check(c, label, r, val, w, ns, operands=()):
    SI = ns["StridedInterval"]
    if not isinstance(r, SI):
        c.fail(label + "/type", f"result is {type(r).__name__}, not a StridedInterval")
        return
    if r._reversed:
        raise Undecided("result is a reversed interval (exempt class); not expected from non-reversed operands")
    if r.bits != w:
        c.fail(label + "/bits", f"result width {r.bits} != {w}")
        return
    c.watch["r_lb"], c.watch["r_ub"], c.watch["r_stride"] = _bv(r._lower_bound), _bv(r._upper_bound), _bv(r._stride)
    c.watch["ref"] = val
    c.check(label + "/gamma", member(val, r, w), "reference result of member operands not in gamma(result)")
    c.check(label + "/wf", wf(r), "result interval is not well-formed", kind="invariant")
    # name discipline: StridedInterval.eq answers True for two intervals of the same name ("they are the same guy"), so a result may carry
    # an operand's name only if it always has that operand's value
    for o, oval in operands:
        if o is not None and getattr(r, "name", None) is not None and r.name == o.name:
            c.check(label + "/name-only-if-same-value", val == oval,
                    "the result carries the name of an operand although its value can differ from the operand's: eq() of the two answers a definite True")


def ob_binary(op, w, tier="quick", iw=None, known=None, replay=None):
    ns = load_si()
    proxies.set_iw(iw or (3 * w + 6))

    def body(c):
        a = sym_si(ns, "a", w)
        b = sym_si(ns, "b", w)
        x = sym_member("x", a)
        y = sym_member("y", b)
        if op in NEEDS_NONZERO:
            c.assume(y != 0)
        apply_known(c, f"si.{op}/gamma", a, b, w)
        ok, r = _call(c, op, getattr(a, op), b)
        if not ok:
            return "raised"
        val = _bvop(BIN_REF[op], w)(x, y)
        _result_check(c, f"{op}", r, val, w, ns, operands=((a, x), (b, y)))
        return "ret"

    return explore(body, _opts(w, tier, replay=_rp("replay_transfer", op=op, w=w)))


def ob_unary(op, w, tier="quick", iw=None, replay=None):
    ns = load_si()
    proxies.set_iw(iw or (3 * w + 6))

    def body(c):
        a = sym_si(ns, "a", w)
        x = sym_member("x", a)
        apply_known(c, f"si.{op}/gamma", a, None, w)
        ok, r = _call(c, op, getattr(a, op))
        if not ok:
            return "raised"
        val = _bvop(UN_REF[op], w)(x)
        _result_check(c, f"{op}", r, val, w, ns, operands=((a, x),))
        return "ret"

    return explore(body, _opts(w, tier, replay=_rp("replay_transfer", op=op, w=w)))


def ob_compare(op, w, tier="quick", iw=None, replay=None):
    ns = load_si()
    proxies.set_iw(iw or (3 * w + 6))
    BR = ns["BoolResult"]

    def body(c):
        a = sym_si(ns, "a", w)
        b = sym_si(ns, "b", w)
        x = sym_member("x", a)
        y = sym_member("y", b)
        apply_known(c, f"si.{op}/gamma", a, b, w)
        ok, r = _call(c, op, getattr(a, op), b)
        if not ok:
            return "raised"
        truth = _bvop(CMP_REF[op], w)(x, y)
        c.watch["truth"] = truth
        if not isinstance(r, BR):
            c.fail(op + "/type", f"comparison returned {type(r).__name__}")
            return "ret"
        vals = r.value
        c.ghost["res"] = repr(vals)
        ok = z3.Or(*[truth == z3.BoolVal(bool(v)) for v in vals]) if vals else z3.BoolVal(False)
        c.check(op + "/gamma", ok, f"truth value of member operands not in result {vals}")
        return "ret:" + "".join(sorted(str(v)[0] for v in vals))

    return explore(body, _opts(w, tier, replay=_rp("replay_transfer", op=op, w=w)))


def ob_resize(op, w, tier="quick", iw=None, wb=None):
    """extract / zero_extend / sign_extend (integer parameters enumerated completely for the width) and concat (second operand of
    every width 1..wb_max): the reference result of every member is in gamma(result), and the result has the width of [[op]]."""
    ns = load_si()
    wb_max = wb or 1
    proxies.set_iw(iw or (2 * (w + wb_max) + 6))
    IW = proxies.get_iw()

    def body(c):
        a = sym_si(ns, "a", w)
        x = sym_member("x", a)
        b = None
        if op == "extract":
            pairs = [(h, l) for h in range(w) for l in range(h + 1)]
            h, l = pairs[c.choose([True] * len(pairs), "bounds")]
            c.ghost["param"] = (h, l)
            c.watch["high"], c.watch["low"] = z3.BitVecVal(h, IW), z3.BitVecVal(l, IW)
            f = lambda: a.extract(h, l)
            wr = h - l + 1
            val = zx(z3.LShR(x, z3.BitVecVal(l, IW)) & z3.BitVecVal((1 << wr) - 1, IW), wr)
        elif op in ("zero_extend", "sign_extend"):
            n = w + c.choose([True] * 3, "extend-to")
            c.watch["new_length"] = z3.BitVecVal(n, IW)
            f = lambda: getattr(a, op)(n)
            wr = n
            val = x if op == "zero_extend" else zx(sx(x, w), n)
        else:  # concat
            wb = wb_max
            c.watch["b_bits"] = z3.BitVecVal(wb, IW)
            b = sym_si(ns, "b", wb)
            y = sym_member("y", b)
            f = lambda: a.concat(b)
            wr = w + wb
            val = (x << wb) | y
        apply_known(c, f"si.{op}/gamma", a, b, w)
        ok, r = _call(c, op, f)
        if not ok:
            return "raised"
        _result_check(c, op, r, val, wr, ns, operands=((a, x), (b, y if b is not None else None)))
        return "ret"

    return explore(body, _opts(max(w, wb_max), tier, replay=_rp("replay_resize", op=op, w=w)))


def replay_resize(task, failure):
    from claripy.backends.backend_vsa import StridedInterval as SI
    kw = task["kwargs"]
    op, w = kw["op"], kw["w"]
    wit = failure["witness"]
    a = SI(bits=w, stride=wit["a_stride"], lower_bound=wit["a_lb"], upper_bound=wit["a_ub"])
    x = wit["x"]
    assert x in py_members(a), "witness member not in gamma(a)"
    mk = f"SI(bits={w},stride={wit['a_stride']},lower_bound={wit['a_lb']},upper_bound={wit['a_ub']})"
    try:
        if op == "extract":
            h, l = wit["high"], wit["low"]
            r = a.extract(h, l); ref = (x >> l) & ((1 << (h - l + 1)) - 1); call = f"{mk}.extract({h},{l})"; wr = h - l + 1
        elif op in ("zero_extend", "sign_extend"):
            n = wit["new_length"]
            r = getattr(a, op)(n); ref = x if op == "zero_extend" else _tosigned(x, w) % (1 << n); call = f"{mk}.{op}({n})"; wr = n
        else:
            wb = wit["b_bits"]
            b = SI(bits=wb, stride=wit["b_stride"], lower_bound=wit["b_lb"], upper_bound=wit["b_ub"])
            y = wit["y"]
            assert y in py_members(b)
            r = a.concat(b); ref = (x << wb) | y; wr = w + wb
            call = f"{mk}.concat(SI(bits={wb},stride={wit['b_stride']},lower_bound={wit['b_lb']},upper_bound={wit['b_ub']}))"
    except Exception as e:  # noqa
        return {"reproduced": True, "text": f"{op} on {a} raised {type(e).__name__}: {e}"}
    mem = py_members(r)
    if "name-only-if-same-value" in str(failure.get("label")):
        bad = r.name == a.name and ref != x
        cmp = ""
        if bad and op in ("zero_extend", "sign_extend"):
            other = a.zero_extend(wr) if op == "sign_extend" else a.sign_extend(wr)
            cmp = f"; eq() with {'zero' if op == 'sign_extend' else 'sign'}_extend of the same interval answers {other.eq(r).value} although member x={x} gives {ref} vs {x if op == 'sign_extend' else _tosigned(x, w) % (1 << wr)}"
        return {"reproduced": bad, "text": f"{call} = {r!r} is named {r.name!r} like its operand; member x={x} becomes {ref}" + cmp}
    bad = r.bits != wr or ref not in mem
    return {"reproduced": bad, "text": f"{call} = {r!r} ({r.bits} bits) members={sorted(mem)}; member x={x} gives {ref}",
            "script": f"from claripy.backends.backend_vsa import StridedInterval as SI\nprint({call})"}


def replay_finding_resize(f):
    w = dict(f["witness"])
    t = {"kwargs": {"op": w.pop("op"), "w": w.pop("w")}}
    return replay_resize(t, {"witness": w})


KNOWN_PREDS = {}


# ---- native replay on the real, unmodified claripy -------------------------------------------------

def py_members(si):
    """gamma(si) by the specification, natively (small widths)."""
    if si.is_empty:
        return set()
    w, lb, ub, st = si.bits, si.lower_bound, si.upper_bound, si.stride
    M = 1 << w
    if st == 0:
        return {lb}
    return {v for v in range(M) if (v - lb) % M <= (ub - lb) % M and ((v - lb) % M) % st == 0}


def _tosigned(v, w):
    return v - (1 << w) if v >> (w - 1) else v


PY_REF = {
    "add": lambda x, y, w: (x + y) % (1 << w), "sub": lambda x, y, w: (x - y) % (1 << w),
    "mul": lambda x, y, w: (x * y) % (1 << w), "udiv": lambda x, y, w: x // y,
    "sdiv": lambda x, y, w: (lambda a, b: (abs(a) // abs(b)) * (1 if (a < 0) == (b < 0) else -1))(_tosigned(x, w), _tosigned(y, w)) % (1 << w),
    "__mod__": lambda x, y, w: x % y, "bitwise_or": lambda x, y, w: x | y, "bitwise_and": lambda x, y, w: x & y,
    "bitwise_xor": lambda x, y, w: x ^ y,
    "lshift": lambda x, y, w: (x << y) % (1 << w) if y < w else 0,
    "rshift_logical": lambda x, y, w: x >> y,
    "rshift_arithmetic": lambda x, y, w: (_tosigned(x, w) >> y) % (1 << w),
    "neg": lambda x, w: (-x) % (1 << w), "__neg__": lambda x, w: (-x) % (1 << w),
    "bitwise_not": lambda x, w: (~x) % (1 << w), "__invert__": lambda x, w: (~x) % (1 << w),
    "SLT": lambda x, y, w: _tosigned(x, w) < _tosigned(y, w), "SLE": lambda x, y, w: _tosigned(x, w) <= _tosigned(y, w),
    "SGT": lambda x, y, w: _tosigned(x, w) > _tosigned(y, w), "SGE": lambda x, y, w: _tosigned(x, w) >= _tosigned(y, w),
    "ULT": lambda x, y, w: x < y, "ULE": lambda x, y, w: x <= y, "UGT": lambda x, y, w: x > y, "UGE": lambda x, y, w: x >= y,
    "eq": lambda x, y, w: x == y,
}


def replay_transfer(task, failure):
    """Re-run the failing input on the real claripy (imported normally, nothing symbolic)."""
    from claripy.backends.backend_vsa import StridedInterval as SI
    from claripy.backends.backend_vsa.bool_result import BoolResult
    kw = task["kwargs"]
    op, w = kw["op"], kw["w"]
    wit = failure["witness"]
    a = SI(bits=w, stride=wit["a_stride"], lower_bound=wit["a_lb"], upper_bound=wit["a_ub"])
    x = wit["x"]
    assert x in py_members(a), "witness member not in gamma(a)"
    if "b_lb" in wit:
        b = SI(bits=w, stride=wit["b_stride"], lower_bound=wit["b_lb"], upper_bound=wit["b_ub"])
        y = wit["y"]
        assert y in py_members(b)
        try:
            r = getattr(a, op)(b)
        except Exception as e:  # noqa
            return {"reproduced": True, "text": f"SI({wit['a_stride']}[{wit['a_lb']},{wit['a_ub']}]).{op}(SI({wit['b_stride']}[{wit['b_lb']},{wit['b_ub']}])) at {w} bits raised {type(e).__name__}: {e}"}
        ref = PY_REF[op](x, y, w)
        call = f"SI(bits={w},stride={wit['a_stride']},lower_bound={wit['a_lb']},upper_bound={wit['a_ub']}).{op}(SI(bits={w},stride={wit['b_stride']},lower_bound={wit['b_lb']},upper_bound={wit['b_ub']}))"
        ins = f"x={x} y={y}"
    else:
        r = getattr(a, op)()
        ref = PY_REF[op](x, w)
        call = f"SI(bits={w},stride={wit['a_stride']},lower_bound={wit['a_lb']},upper_bound={wit['a_ub']}).{op}()"
        ins = f"x={x}"
    if isinstance(r, BoolResult):
        bad = ref not in r.value
        return {"reproduced": bad, "text": f"{call} = {r!r} value={r.value}; concrete {ins} gives {ref}"}
    mem = py_members(r)
    bad = ref not in mem
    return {"reproduced": bad, "text": f"{call} = {r!r} members={sorted(mem)}; concrete {ins} gives {ref}",
            "script": f"from claripy.backends.backend_vsa import StridedInterval as SI\nprint({call})"}


# ---- input classes for known findings -------------------------------------------------------------
# A known finding for a transfer function is a conjunction of these features (vf/si_findings.json,
# referenced from known_findings.json).  The obligation is proved on the complement of the listed
# classes, so any *other* failing input is still a violation.

def _pow2(st, iw):
    return z3.Or(*[st == (1 << k) for k in range(iw - 1)])


def features(name, s, w):
    """feature name -> z3 Bool, for interval s (fields may be proxies)."""
    if s._is_bottom:
        return {}
    lb, ub, st = _bv(s._lower_bound), _bv(s._upper_bound), _bv(s._stride)
    msb = 1 << (w - 1)
    f = {
        f"{name}_single": st == 0,
        f"{name}_wrap": lb > ub,                                   # straddles the south pole (2^w-1 -> 0)
        f"{name}_nwrap": z3.And(st != 0, z3.Or(z3.And(lb < msb, ub >= msb), z3.And(lb > ub, z3.Or(lb < msb, ub >= msb)))),
        f"{name}_np2": z3.And(st != 0, z3.Not(_pow2(st, st.size()))),  # stride is not a power of two
        f"{name}_neg": z3.And(st == 0, lb >= msb),                  # negative constant
    }
    if name == "b":
        f["b_gew"] = z3.Or(lb >= w, ub >= w, lb > ub)               # may hold a value >= the bit width
    return f


def py_features(name, lb, ub, st, w):
    msb = 1 << (w - 1)
    f = set()
    if st == 0:
        f.add(f"{name}_single")
    if lb > ub:
        f.add(f"{name}_wrap")
    if st != 0 and ((lb < msb <= ub) or (lb > ub and (lb < msb or ub >= msb))):
        f.add(f"{name}_nwrap")
    if st != 0 and st & (st - 1):
        f.add(f"{name}_np2")
    if st == 0 and lb >= msb:
        f.add(f"{name}_neg")
    if name == "b" and (lb >= w or ub >= w or lb > ub):
        f.add("b_gew")
    return f


def apply_known(c, obligation, a, b, w):
    """Assume away the input classes listed for `obligation` (read-only file) and watch the features."""
    from vf import common
    feats = features("a", a, w)
    if b is not None:
        feats.update(features("b", b, w))
    for k, v in feats.items():
        c.watch["F_" + k] = v
    for f in common.si_classes(obligation):
        lits = [feats[n] for n in f["class"] if n in feats]
        if len(lits) != len(f["class"]):
            continue
        if not lits:
            raise Undecided("obligation generated for a transfer function listed as unsound on ordinary inputs")
        c.known(f["finding"], z3.And(*lits))


def replay_finding(f):
    """Native replay of a listed known finding's witness."""
    w = dict(f["witness"])
    t = {"kwargs": {"op": w.pop("op"), "w": w.pop("w")}}
    return replay_transfer(t, {"witness": w})


# ---- C22: joins, meets, widening, queries ---------------------------------------------------------

def ob_join(op, w, tier="quick", smart=True):
    """gamma(a) U gamma(b) is contained in gamma(op(a, b)) for union / pseudo_join / widen / least_upper_bound."""
    ns = load_si()
    proxies.set_iw(3 * w + 6)
    SIc = ns["StridedInterval"]

    def body(c):
        a = sym_si(ns, "a", w, allow_bottom=False)
        b = sym_si(ns, "b", w, allow_bottom=False)
        d = sym_si(ns, "d", w, allow_bottom=False) if op == "least_upper_bound3" else None
        side = c.choose([True] * (3 if d is not None else 2), "member-of")          # the member comes from a / from b (/ from the third operand)
        v = sym_member("x", [a, b, d][side])
        apply_known(c, f"si.{op}{'' if smart else '[plain]'}/gamma", a, b, w)
        if op == "pseudo_join":
            f = lambda: SIc.pseudo_join(a, b, smart)
        elif op == "least_upper_bound":
            f = lambda: SIc.least_upper_bound(a, b)
        elif op == "least_upper_bound3":
            # three operands: the only arity at which least_upper_bound runs its own loop (two go to pseudo_join)
            f = lambda: SIc.least_upper_bound(a, b, d)
        else:
            f = lambda: getattr(a, op)(b)
        ok, r = _call(c, op, f)
        if not ok:
            return "raised"
        _result_check(c, op, r, v, w, ns)
        return "ret"

    # three symbolic operands do not finish at widths >= 2 in any budget: a fixed share of the time in both tiers (partial = bounded, the exhaustive
    # triples of si_pairs.run_lub3 are the complete part)
    return explore(body, _opts(w, tier, **({"budget_s": 240 if tier == "quick" else 600} if op == "least_upper_bound3" else {})))


def ob_meet(op, w, tier="quick"):
    """every common member of a and b is in intersection(a, b) (resp. in one of _multi_valued_intersection)."""
    ns = load_si()
    proxies.set_iw(3 * w + 6)
    SIc = ns["StridedInterval"]

    def body(c):
        a = sym_si(ns, "a", w)
        b = sym_si(ns, "b", w)
        v = sym_member("x", a)
        c.assume(member(v, b, w))
        if not c.path_feasible():
            raise paths.PathEnd()
        apply_known(c, f"si.{op}/gamma", a, b, w)
        ok, r = _call(c, op, getattr(a, op), b)
        if not ok:
            return "raised"
        if op == "intersection":
            _result_check(c, op, r, v, w, ns)
        else:
            c.check(op + "/gamma", z3.Or(*[member(v, p, w) for p in r if isinstance(p, SIc)]) if r else False,
                    "a common member is in none of the returned intervals")
        return "ret"

    return explore(body, _opts(w, tier))


def ob_query(q, w, tier="quick"):
    """eval / min / max / cardinality / solution / complement agree with the member set."""
    ns = load_si()
    proxies.set_iw(3 * w + 6)
    iw = proxies.get_iw()
    M = 1 << w

    def body(c):
        a = sym_si(ns, "a", w)
        apply_known(c, f"si.{q}/exact", a, None, w)
        allv = [z3.BitVecVal(v, iw) for v in range(M)]
        mem = [member(v, a, w) for v in allv]
        card = z3.Sum([z3.If(m, z3.BitVecVal(1, iw), z3.BitVecVal(0, iw)) for m in mem])
        if q.startswith("eval"):
            n = int(q[4:])
            signed = c.choose([True, True], "signed") == 1
            ok, r = _call(c, q, lambda: a.eval(n, signed=signed))
            if not ok:
                return "raised"
            vals = [_bv(x) & (M - 1) for x in r]     # signed results are negative numbers: compare as bit patterns
            for i, x in enumerate(vals):
                c.check(f"{q}/members-only", member(x, a, w), f"eval returned a non-member at position {i}")
            if len(vals) > 1:
                c.check(f"{q}/distinct", z3.Distinct(*vals), "eval returned duplicates")
            c.check(f"{q}/count", z3.If(card < n, card, z3.BitVecVal(n, iw)) == len(vals),
                    f"eval({n}) returned {len(vals)} values for a set of different size")
            return f"ret{len(vals)}"
        if q in ("min", "max"):
            signed = c.choose([True, True], "signed") == 1
            ok, r = _call(c, q, lambda: getattr(a, q)(signed=signed))
            if not ok:
                return "raised"
            rz = _bv(r)
            key = (lambda t: sx(t, w)) if signed else (lambda t: t)
            c.watch["res"] = rz
            c.check(f"{q}/member", member(rz & (M - 1), a, w), f"{q} is not a member")
            if signed:
                c.check(f"{q}/signed-range", z3.And(rz >= -(M // 2), rz < M // 2), "signed result not returned as a signed number")
            cmpf = (lambda x, y: x <= y) if q == "min" else (lambda x, y: x >= y)
            c.check(f"{q}/extremal", z3.And(*[z3.Implies(m, cmpf(key(rz), key(v))) for m, v in zip(mem, allv)]),
                    f"{q} is not the extremal member in the requested signedness")
            return "ret"
        if q == "cardinality":
            ok, r = _call(c, q, lambda: a.cardinality)
            if not ok:
                return "raised"
            c.watch["res"] = _bv(r)
            c.check("cardinality/exact", _bv(r) == card, "cardinality differs from the number of members")
            return "ret"
        if q == "solution":
            v = SymInt.fresh("v", 0, M - 1)
            ok, r = _call(c, q, lambda: a.solution(v))
            if not ok:
                return "raised"
            rb = proxies.zbool(r) if isinstance(r, (bool, SymBool)) else None
            if rb is None:
                c.fail("solution/type", f"returned {type(r).__name__}")
                return "ret"
            c.check("solution/iff-member", rb == member(v.z, a, w), "solution(v) disagrees with membership")
            return "ret"
        if q == "complement":
            ok, r = _call(c, q, lambda: a.complement)
            if not ok:
                return "raised"
            v = SymInt.fresh("v", 0, M - 1)
            c.assume(z3.Not(member(v.z, a, w)))
            c.check("complement/contains-non-members", member(v.z, r, w), "a non-member of a is not in a.complement")
            return "ret"
        raise Undecided(q)

    return explore(body, _opts(w, tier))


def replay_c22(task, failure):
    from claripy.backends.backend_vsa import StridedInterval as SI
    kw = task["kwargs"]
    w = kw["w"]
    wit = failure["witness"]
    mk = lambda p: SI(bits=w, stride=wit[p + "_stride"], lower_bound=wit[p + "_lb"], upper_bound=wit[p + "_ub"])
    a = mk("a")
    A = py_members(a)
    if "op" in kw:
        op = kw["op"]
        b = mk("b")
        B = py_members(b)
        try:
            if op == "pseudo_join":
                r = SI.pseudo_join(a, b, kw.get("smart", True))
            elif op.startswith("least_upper_bound"):
                r = SI.least_upper_bound(a, b) if op == "least_upper_bound" else SI.least_upper_bound(a, b, mk("d"))
            else:
                r = getattr(a, op)(b)
        except Exception as e:
            return {"reproduced": True, "text": f"{op}({a},{b}) raised {type(e).__name__}: {e}"}
        if op in ("intersection", "_multi_valued_intersection"):
            want = A & B
            got = py_members(r) if op == "intersection" else set().union(*[py_members(p) for p in r])
        else:
            want = A | B
            if op == "least_upper_bound3":
                want |= py_members(mk("d"))
            got = py_members(r)
        return {"reproduced": not want <= got, "text": f"{op}({a}, {b}) = {r}: members {sorted(got)} must contain {sorted(want)}"}
    q = kw["q"]
    out = []
    try:
        if q.startswith("eval"):
            n = int(q[4:])
            for signed in (False, True):
                r = [x % (1 << w) for x in a.eval(n, signed=signed)]
                if any(x not in A for x in r) or len(set(r)) != len(r) or len(r) != min(n, len(A)):
                    out.append(f"eval({n},signed={signed})={r} members={sorted(A)}")
        elif q in ("min", "max"):
            for signed in (False, True):
                r = getattr(a, q)(signed=signed)
                key = (lambda v: _tosigned(v, w)) if signed else (lambda v: v)
                best = (min if q == "min" else max)(A, key=key)
                if r is None or r % (1 << w) != best or (signed and r != _tosigned(best, w)):
                    out.append(f"{q}(signed={signed})={r}, expected {key(best)}; members={sorted(A)}")
        elif q == "cardinality":
            if a.cardinality != len(A):
                out.append(f"cardinality={a.cardinality}, members={sorted(A)}")
        elif q == "solution":
            v = wit["v"]
            if bool(a.solution(v)) != (v in A):
                out.append(f"solution({v})={a.solution(v)}, members={sorted(A)}")
        elif q == "complement":
            C = py_members(a.complement)
            if not (set(range(1 << w)) - A) <= C:
                out.append(f"complement={a.complement} members={sorted(C)}; a={sorted(A)}")
    except Exception as e:
        out.append(f"raised {type(e).__name__}: {e}")
    return {"reproduced": bool(out), "text": f"{a}: " + ("; ".join(out) or "query agrees with the member set")}


def replay_finding22(f):
    w = dict(f["witness"])
    kw = {"w": w.pop("w")}
    for k in ("op", "q", "smart"):
        if k in w:
            kw[k] = w.pop(k)
    return replay_c22({"kwargs": kw}, {"witness": w})


# ---- __hash__: Python sets of intervals (DiscreteStridedIntervalSet._si_set, udiv, _multi_valued_intersection) -------------------

def ob_hash(w, tier="quick"):
    """StridedInterval.__eq__ returns a (truthy) BoolResult, so a Python set keeps only ONE of two intervals whose hashes are equal.
    Obligation on the real __hash__: the key it hashes determines the member set -  key(a) == key(b)  ==>  gamma(a) == gamma(b).
    The builtin `hash` is bound to a capturing stand-in that returns its argument (assumed: Python's hash of two different keys of
    this shape does not collide), the fields are formatted through CPython's real format() on every feasible value."""
    proxies.FORMAT_CONCRETIZE = True
    import logging
    logging.getLogger("claripy.backends.backend_vsa.strided_interval").setLevel(logging.ERROR)
    ns = loader.load(SI_PATH, "claripy.backends.backend_vsa.strided_interval", overrides={"math": MathContract()},
                     extra_shadow={"hash": lambda key: ("KEY", key)})
    proxies.set_iw(3 * w + 6)
    iw = proxies.get_iw()

    def body(c):
        a = sym_si(ns, "a", w)
        b = sym_si(ns, "b", w)
        ka = a.__hash__()
        kb = b.__hash__()
        if not (isinstance(ka, tuple) and ka and ka[0] == "KEY"):
            c.fail("__hash__/shape", "__hash__ does not hash a key built from the fields (the obligation cannot see what it depends on)")
            return "shape"
        if ka != kb:
            c.check("__hash__/different-keys", True, "different keys: both intervals are kept")
            return "different"
        same = z3.And(*[member(z3.BitVecVal(v, iw), a, w) == member(z3.BitVecVal(v, iw), b, w) for v in range(1 << w)])
        c.check("__hash__/separates-member-sets", same, "two intervals with different member sets have the same hash key: a set of intervals silently drops one of them")
        return "same-key"

    return explore(body, _opts(w, tier, replay=_rp("replay_hash", w=w)))


def replay_hash(task, failure):
    from claripy.backends.backend_vsa import StridedInterval as SI
    w = task["kwargs"]["w"]
    wit = failure["witness"]
    a = SI(bits=w, stride=wit["a_stride"], lower_bound=wit["a_lb"], upper_bound=wit["a_ub"])
    b = SI(bits=w, stride=wit["b_stride"], lower_bound=wit["b_lb"], upper_bound=wit["b_ub"])
    kept = {a, b}
    lost = (py_members(a) | py_members(b)) - set().union(*[py_members(s) for s in kept])
    return {"reproduced": bool(lost), "text": f"the Python set {{{a}, {b}}} keeps {sorted(map(str, kept))}; members lost: {sorted(lost)}"}
