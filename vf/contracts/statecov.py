"""State-coverage / ownership obligations of the solver copy and pickle protocols (C14, C18).

For every concrete solver class, along its real MRO:
  copy-coverage : every attribute an instance has after __init__ (+ a short history) exists on s.branch()
                  and on s.blank_copy();
  ownership     : no mutable container object is reachable from both s and s.branch(), except the
                  declared shared cells (the Z3 solver object under _tls, composite children, ASTs);
  pickle-coverage: every attribute of s exists on pickle.loads(pickle.dumps(s));
  copy-fidelity / pickle-fidelity: every attribute that holds a plain value (scalars, containers of scalars and ASTs) has
                  the SAME value on s.branch() / on the unpickled solver, after three histories (queried; unflushed adds;
                  replacements with a memoised compound expression and a concretely false add) and with every Boolean
                  constructor option flipped - except the attributes listed, with the reason, in DIFFERS_OK /
                  PICKLE_DIFFERS_OK.  This is the frame condition "the copy is a copy of the whole state": it is what
                  notices a _copy that leaves a list empty or a __getstate__/__setstate__ pair whose fields are crossed.
The copy/pickle methods are shown (syntactically, on the current source) to assign a fixed set of
attribute names - no attribute is created conditionally or outside __init__/_blank_copy/_copy/
__setstate__ - so one execution per class decides the obligation for every history."""
from __future__ import annotations

import ast
import inspect
import os
import pickle
import weakref

from vf.engine import loader, paths

CLASSES = ["Solver", "SolverCacheless", "SolverReplacement", "SolverHybrid", "SolverVSA", "SolverConcrete",
           "SolverStrings", "SolverComposite", "SolverCompositeChild"]
PROTOCOL = ("__init__", "_blank_copy", "_copy", "__setstate__")
TRANSIENT = {"_tls"}          # re-created by __setstate__, never pickled
# declared shared cells: the composite's template frontend is only ever blank_copy()'d (assumed never
# mutated - CompositeFrontend calls nothing else on it)
SHARED_OK = ("._template_frontend",)


def _mk(name, **kw):
    import claripy
    cls = getattr(claripy, name, None) or getattr(claripy.solvers, name)
    if name == "SolverCompositeChild":
        return cls(backend=claripy.backends.z3, **kw)
    return cls(**kw)


def _history(s):
    import claripy
    x = claripy.BVS("sc_x", 8, explicit_name=True)
    y = claripy.BVS("sc_y", 8, explicit_name=True)
    try:
        s.add(x > 3)
        s.add(y == x + 1)
        s.satisfiable()
        s.eval(x, 2)
        s.max(y)
    except Exception:
        pass


def _history2(s):
    """a history that leaves work pending: a query (backend solver exists), then adds that no query has flushed yet"""
    import claripy
    x = claripy.BVS("sc_x", 8, explicit_name=True)
    y = claripy.BVS("sc_y", 8, explicit_name=True)
    try:
        s.add(x > 3)
        s.satisfiable()
        s.add(y == x + 1)
        s.add(claripy.ULT(y, 200))
    except Exception:
        pass


def _history3(s):
    """replacements with a memoised compound expression (the replacement table and its cache differ), a concretely false add"""
    import claripy
    x = claripy.BVS("sc_x", 8, explicit_name=True)
    y = claripy.BVS("sc_y", 8, explicit_name=True)
    try:
        s.add(x > 3)
        if hasattr(s, "add_replacement"):
            s.add_replacement(y, claripy.BVV(5, 8))
            s.eval(y + 1, 1)
        s.add(claripy.false())
    except Exception:
        pass


def _history4(s):
    """two directly contradicting constraints (the sat cache notices the pair in _add and remembers it as the core), then the questions"""
    import claripy
    x = claripy.BVS("sc_x", 8, explicit_name=True)
    try:
        s.add(x == 1)
        s.add(x == 2)
        s.satisfiable()
        s.unsat_core()
    except Exception:
        pass


def _variants(name):
    """constructor configurations: the default one and every Boolean option flipped (so that two flags never hold the same value)"""
    import claripy
    import inspect as _i
    cls = getattr(claripy, name, None) or getattr(claripy.solvers, name)
    out = [{}]
    opts = {}
    for k in cls.__mro__:
        init = k.__dict__.get("__init__")
        if init is None:
            continue
        try:
            for pn, pv in _i.signature(init).parameters.items():
                if isinstance(pv.default, bool):
                    opts.setdefault(pn, pv.default)
        except (TypeError, ValueError):
            pass
    for pn, dv in sorted(opts.items()):
        out.append({pn: not dv})
    return out


PLAIN = (list, dict, set, frozenset, tuple, bool, int, str, type(None))
# attributes whose value legitimately differs between a solver and its branch / unpickled copy (everything else that holds
# a plain value must be equal by value right after the copy: the copy is a copy of the state, not of part of it)
DIFFERS_OK = {
    "_finalized": "not part of the semantic state",
    "_uuid": "identity of the solver object",
}


PICKLE_DIFFERS_OK = {
    "_to_add": "an unpickled solver has no backend solver object; every constraint is (re)added when one is created",
    "constraints_wo_annotations": "derived state: recomputed from the constraint list by __setstate__",
    "_replacement_cache": "memo: re-initialised from _replacements by __setstate__ (must then EQUAL _replacements: checked separately)",
}


def _plain(v, depth=0):
    if isinstance(v, (bool, int, str, type(None))):
        return True
    if depth > 3:
        return False
    if isinstance(v, (list, tuple, set, frozenset)):
        return all(_plain(x, depth + 1) or _is_ast(x) for x in v)
    if isinstance(v, dict):
        return all((_plain(k, depth + 1) or _is_ast(k)) and (_plain(x, depth + 1) or _is_ast(x)) for k, x in v.items())
    return False


def _is_ast(x):
    import claripy
    return isinstance(x, claripy.ast.Base)


def _norm(v):
    """value with ASTs replaced by their identity (hash-consed: same expression = same object)"""
    if _is_ast(v):
        return ("ast", id(v))
    if isinstance(v, (list, tuple)):
        return (type(v).__name__, tuple(_norm(x) for x in v))
    if isinstance(v, (set, frozenset)):
        return ("set", frozenset(_norm(x) for x in v))
    if isinstance(v, dict):
        return ("dict", frozenset((_norm(k), _norm(x)) for k, x in v.items()))
    return v


def _fidelity(a, b, skip=()):
    """attributes of a that hold plain values (scalars, containers of scalars/ASTs) and differ by value on b"""
    out = []
    n = 0
    for k, v in vars(a).items():
        if k in DIFFERS_OK or k in skip or k not in vars(b) or not _plain(v):
            continue
        n += 1
        w = vars(b)[k]
        if not _plain(w) or _norm(v) != _norm(w):
            out.append((k, repr(v)[:120], repr(w)[:120]))
    return out, n


def _containers(obj, seen=None, depth=0, path="s"):
    """(id -> path) of mutable containers reachable from obj's attributes (2 levels)."""
    out = {}
    if depth > 2:
        return out
    d = getattr(obj, "__dict__", None)
    if d is None:
        return out
    for k, v in d.items():
        p = f"{path}.{k}"
        if isinstance(v, (list, dict, set, weakref.WeakSet, weakref.WeakValueDictionary, weakref.WeakKeyDictionary)):
            out[id(v)] = p
        elif hasattr(v, "__dict__") and type(v).__module__.startswith("claripy.frontend") or type(v).__name__.startswith("Solver"):
            out.update(_containers(v, seen, depth + 1, p))
    return out


def _syntactic(res):
    """protocol methods create a fixed attribute set: no conditional creation; other methods only assign
    attributes that __init__ of the same class creates."""
    root = os.path.join(loader.REPO, "claripy", "frontend")
    n = 0
    for dp, _, fns in os.walk(root):
        for fn in fns:
            if not fn.endswith(".py"):
                continue
            p = os.path.join(dp, fn)
            rel = os.path.relpath(p, loader.REPO)
            src = open(p).read()
            import hashlib
            loader.SOURCES[rel] = hashlib.sha256(src.encode()).hexdigest()
            tree = ast.parse(src)
            for cls in [c for c in tree.body if isinstance(c, ast.ClassDef)]:
                created = set()
                meths = {m.name: m for m in cls.body if isinstance(m, ast.FunctionDef)}
                for mname in PROTOCOL:
                    m = meths.get(mname)
                    if m is None:
                        continue
                    tgt = "c" if mname in ("_blank_copy", "_copy") else "self"
                    for node in ast.walk(m):
                        if isinstance(node, ast.Attribute) and isinstance(node.ctx, ast.Store) and isinstance(node.value, ast.Name) and node.value.id == tgt:
                            created.add(node.attr)
                    # conditional creation inside a protocol method
                    for node in ast.walk(m):
                        if isinstance(node, (ast.If, ast.Try, ast.For, ast.While)):
                            for sub in ast.walk(node):
                                if isinstance(sub, ast.Attribute) and isinstance(sub.ctx, ast.Store) and isinstance(sub.value, ast.Name) \
                                        and sub.value.id == tgt:
                                    # allowed when the same attribute is also assigned unconditionally
                                    uncond = any(isinstance(st, ast.Assign) and any(isinstance(t, ast.Attribute) and t.attr == sub.attr for t in st.targets)
                                                 for st in m.body)
                                    n += 1
                                    if not uncond and mname == "__init__":
                                        res.failures.append(paths.Failure("statecov/conditional-creation", "frame", {},
                                                                          f"{rel}:{cls.name}.{mname} creates {sub.attr} conditionally", []))
                init_attrs = set()
                if "__init__" in meths:
                    for node in ast.walk(meths["__init__"]):
                        if isinstance(node, ast.Attribute) and isinstance(node.ctx, ast.Store) and isinstance(node.value, ast.Name) and node.value.id == "self":
                            init_attrs.add(node.attr)
                n += len(created)
    return n


def ob_statecov(cls):
    res = paths.Result()
    res.paths = 1
    n = _syntactic(res)
    s = _mk(cls)
    _history(s)
    keys = set(vars(s))
    probs = []
    # copy coverage
    for how in ("branch", "blank_copy"):
        c = getattr(s, how)()
        miss = keys - set(vars(c))
        n += len(keys)
        if miss:
            probs.append(("copy-coverage", f"{cls}.{how}() result lacks attributes {sorted(miss)}", {"class": cls, "how": how, "missing": sorted(miss)}))
    # ownership
    b = s.branch()
    cs, cb = _containers(s), _containers(b, path="b")
    shared = {cs[i]: cb[i] for i in cs if i in cb}
    n += len(cs)
    for ps, pb in shared.items():
        if any(k in ps for k in SHARED_OK):
            continue
        probs.append(("ownership", f"mutable container {ps} is shared with the branch ({pb})", {"class": cls, "cell": ps}))
    # copy fidelity: the branch holds the same plain-valued state, under two histories (one with unflushed adds)
    runs = [(hn, h, {}) for hn, h in (("queried", _history), ("pending-adds", _history2), ("replacement+false", _history3), ("contradiction", _history4))]
    runs += [(f"queried,{kw}", _history, kw) for kw in _variants(cls)[1:]]
    for hname, hist, kw in runs:
        try:
            s2 = _mk(cls, **kw)
        except Exception:  # this class does not accept the option
            continue
        hist(s2)
        pre = {k: _norm(v) for k, v in vars(s2).items() if _plain(v)}
        b2 = s2.branch()
        diffs, k = _fidelity(s2, b2)
        n += k
        for attr, va, vb in diffs:
            probs.append(("copy-fidelity", f"after the history '{hname}', {cls}.branch() has {attr} = {vb} while the solver has {va}",
                          {"class": cls, "attr": attr, "history": hname}))
        # weak sets of child solvers (CompositeFrontend): the children a branch holds are the same objects, so the set of children still to be
        # checked must be the same set, and no child may be owned (= written in place) by both; an unpickled composite has new child objects:
        # by position in _solver_list every child that was still to be checked must still be (treating more of them as unchecked is sound)
        if hasattr(s2, "_solver_list"):
            for attr in [a for a, v in vars(s2).items() if isinstance(v, weakref.WeakSet)]:
                n += 1
                mine, theirs = set(map(id, vars(s2)[attr])), set(map(id, vars(b2).get(attr, ())))
                if attr == "_owned_solvers":
                    if mine & theirs:
                        probs.append(("ownership", f"after the history '{hname}', a child solver is in {attr} of both {cls} and its branch",
                                      {"class": cls, "attr": attr, "history": hname}))
                elif mine != theirs:
                    probs.append(("copy-fidelity", f"after the history '{hname}', {cls}.branch() has {len(theirs)} children in {attr} while the solver has {len(mine)}",
                                  {"class": cls, "attr": attr, "history": hname}))
        try:
            u2 = pickle.loads(pickle.dumps(s2))
            if hasattr(s2, "_solver_list") and "_unchecked_solvers" in vars(s2):
                n += 1
                pos = lambda z: {i for i, ch in enumerate(z._solver_list) if ch in z._unchecked_solvers}  # noqa
                if len(s2._solver_list) == len(u2._solver_list) and not pos(s2) <= pos(u2):
                    probs.append(("pickle-fidelity", f"after the history '{hname}', children {sorted(pos(s2) - pos(u2))} of the {cls} were still to be checked for satisfiability; "
                                  "on the unpickled one they count as checked", {"class": cls, "attr": "_unchecked_solvers", "history": hname}))
            if hname == "contradiction":
                # the answers that the remembered state feeds: the unpickled solver must give the core the original gives
                n += 1
                try:
                    c1, c2 = tuple(s2.unsat_core()), tuple(u2.unsat_core())
                except Exception:  # noqa
                    c1 = c2 = ()
                if {id(x) for x in c1} != {id(x) for x in c2}:
                    probs.append(("pickle-fidelity", f"after the history 'contradiction' unsat_core() of the unpickled {cls} is {c2!r}, the solver's is {c1!r}",
                                  {"class": cls, "attr": "unsat_core()", "history": hname}))
            diffs, k = _fidelity(s2, u2, skip=PICKLE_DIFFERS_OK)
            if "_replacement_cache" in vars(u2) and _norm(vars(u2)["_replacement_cache"]) != _norm(vars(u2).get("_replacements")):
                diffs.append(("_replacement_cache", "a copy of _replacements", repr(vars(u2)["_replacement_cache"])[:120]))
            n += k
            for attr, va, vb in diffs:
                probs.append(("pickle-fidelity", f"after the history '{hname}', the unpickled {cls} has {attr} = {vb} while the solver has {va}",
                              {"class": cls, "attr": attr, "history": hname}))
        except Exception:  # reported by pickle-raises below
            pass
    # pickle coverage
    try:
        u = pickle.loads(pickle.dumps(s))
        miss = keys - set(vars(u)) - TRANSIENT
        n += len(keys)
        if miss:
            probs.append(("pickle-coverage", f"unpickled {cls} lacks attributes {sorted(miss)}", {"class": cls, "missing": sorted(miss)}))
    except Exception as e:
        probs.append(("pickle-raises", f"pickling {cls} raised {type(e).__name__}: {e}", {"class": cls}))
    res.vcs = n
    for label, text, wit in probs:
        f = paths.Failure(f"statecov.{cls}/{label}", "frame", wit, text, [])
        f.replay = {"reproduced": True, "text": "executed on the real class: " + text}
        res.failures.append(f)
    res.status = "violated" if res.failures else "discharged"
    res.samples = [{"class": cls, "attributes": sorted(keys)}]
    return res


def replay(task, failure):
    r = ob_statecov(task["kwargs"]["cls"])
    hit = [f for f in r.failures if f.label == failure.get("label")]
    return {"reproduced": bool(hit), "text": hit[0].detail if hit else "coverage holds on the real class"}


def replay_finding(f):
    r = ob_statecov(f["witness"]["class"])
    hit = [x for x in r.failures if x.label.endswith(f["witness"]["label"])]
    return {"reproduced": bool(hit), "text": hit[0].detail if hit else "coverage holds"}
