"""C05 (and the annotation bookkeeping C07 relies on): the metadata derivation of the real Base.__new__ and Base.make_like.

Real code of claripy/ast/base.py (re-loaded every run) executed on stub children whose metadata is symbolic:
depth is an arbitrary positive integer (SymInt), symbolic an arbitrary Boolean, variables / annotations arbitrary
subsets of small universes.  For every combination of the keyword arguments (annotations=, skip_child_annotations,
variables=, symbolic=, add_variables=) the node that is built satisfies

    depth      = 1 + max(depth of AST arguments)            (1 for a node without AST arguments)
    variables  = given variables, else the union of the arguments' variables  (+ add_variables)
    symbolic   = given flag, else "some argument is symbolic"
    _uneliminatable_annotations = own non-eliminatable/non-relocatable annotations (+ the arguments' unless skipped)
    (always: skip_child_annotations must not un-protect what sub-expressions carry)
    _relocatable_annotations / annotations carry the arguments' relocatable annotations unless skipped
    op, args, length are what was passed.

make_like: the fast path (annotation edits) may copy depth/variables/symbolic from `self` ONLY because its arguments are
self's arguments; the obligation runs the real make_like with (i) args = self.args and arbitrary annotation edits and
(ii) different args (slow path forced by the call shape used in the library) and checks the same postcondition against the
ARGUMENTS.  Contract of the concrete backend (constant folding of a non-symbolic node): BackendError or any node.
The hash-cons cache is empty (a cache hit returns an older node of the same structure: C06)."""
from __future__ import annotations

import weakref
import z3

from vf.engine import loader, paths, proxies
from vf.engine.paths import cur, explore, Undecided, PathEnd
from vf.engine.proxies import SymInt, SymBool
from claripy.errors import BackendError

_c = {}
VARS = ["x", "y", "z"]
SIMPLIFY_HOOK = [lambda op, args: (None, False)]      # contract of simplifications.simplify, set per path


def _annos():
    from vf.contracts import annos as AN
    return AN.UNIVERSE


def load_base():
    import claripy as real

    class Concrete:
        @staticmethod
        def call(op, args):
            raise BackendError("contract: the concrete backend cannot fold this node")

        @staticmethod
        def _abstract(x):
            raise BackendError("contract")

    class NS:
        backends = type("B", (), {"concrete": Concrete})
        simplifications = type("S", (), {"simplify": staticmethod(lambda op, args: SIMPLIFY_HOOK[0](op, args))})
        errors = real.errors
        annotation = real.annotation
    ns = loader.load("claripy/ast/base.py", "claripy.ast.base", overrides={"claripy": NS})
    return ns


def _stub(ns, c, name, uid, light=False):
    """an arbitrary existing AST: metadata symbolic, structure irrelevant"""
    Base = ns["Base"]
    n = object.__new__(Base)
    n.op = "BVS"
    n.args = (name,)
    n.length = 8
    d = SymInt(z3.BitVec(f"depth_{name}", proxies.IW))
    c.assume(z3.And(d.z >= 1, d.z <= 1000))
    c.watch[f"depth_{name}"] = d.z
    n.depth = d
    sym = z3.Bool(f"symbolic_{name}")
    c.watch[f"symbolic_{name}"] = sym
    # the code only forms unions of these sets: each argument has either no variable or one of its own, and its own
    # annotations range over {non-eliminatable, relocatable}; what its sub-expressions carry (protected) is arbitrary
    hasv = c.choose([True, True], f"variables-{name}")
    n.variables = frozenset({f"v_{name}"}) if hasv else frozenset()
    # class invariant of existing nodes: symbolic iff it has variables
    c.assume(sym == z3.BoolVal(bool(n.variables)))
    n.symbolic = bool(n.variables)
    uni = _annos()
    ku = [uni[1], uni[2]]
    k = c.choose([True] * (1 << len(ku)), f"annotations-{name}")
    own = tuple(a for i, a in enumerate(ku) if k >> i & 1)
    n.annotations = own
    un = [a for a in uni if not (a.eliminatable or a.relocatable)]
    kb = 0 if light else c.choose([True] * (1 << len(un)), f"below-{name}")      # light: a template whose sub-expressions play no role
    n._uneliminatable_annotations = frozenset(a for a in own if not (a.eliminatable or a.relocatable)) | frozenset(a for i, a in enumerate(un) if kb >> i & 1)
    n._relocatable_annotations = frozenset(a for a in own if not a.eliminatable and a.relocatable)
    n._errored = set()
    n._hash = 1000 + uid
    n._cached_encoded_name = None
    return n


def _plain_stub(ns, c, name, uid, hasv):
    """an existing AST without annotations, depth symbolic, with one variable of its own or none"""
    Base = ns["Base"]
    n = object.__new__(Base)
    n.op, n.args, n.length = "BVS", (name,), 8
    d = SymInt(z3.BitVec(f"depth_{name}", proxies.IW))
    c.assume(z3.And(d.z >= 1, d.z <= 1000))
    c.watch[f"depth_{name}"] = d.z
    n.depth = d
    n.variables = frozenset({f"v_{name}"}) if hasv else frozenset()
    n.symbolic = bool(n.variables)
    n.annotations = ()
    n._uneliminatable_annotations = frozenset()
    n._relocatable_annotations = frozenset()
    n._errored = set()
    n._hash = 1000 + uid
    n._cached_encoded_name = None
    return n


def _post(c, where, r, op, args, kids, given_annos, skip, given_vars, given_sym, add_vars, length):
    c.n_vcs += 1
    if r.op != op or tuple(r.args) != tuple(args) or r.length != length:
        c.fail(f"{where}/structure", f"built node has op/args/length {r.op!r}/{r.args!r}/{r.length!r}")
    want_depth = 1
    dz = None
    for k in kids:
        kz = k.depth.z if isinstance(k.depth, SymInt) else z3.BitVecVal(k.depth, proxies.IW)
        dz = kz if dz is None else z3.If(kz > dz, kz, dz)
    rz = r.depth.z if isinstance(r.depth, SymInt) else z3.BitVecVal(int(r.depth), proxies.IW)
    c.check(f"{where}/depth", rz == (dz + 1 if dz is not None else z3.BitVecVal(1, proxies.IW)),
            "depth is not 1 + the maximum depth of the AST arguments")
    want_vars = frozenset(given_vars) if given_vars is not None else frozenset().union(*[k.variables for k in kids]) if kids else frozenset()
    if add_vars:
        want_vars |= frozenset(add_vars)
    if frozenset(r.variables) != want_vars:
        c.fail(f"{where}/variables", f"variables {sorted(r.variables)} instead of {sorted(want_vars)}", kind="C05")
    want_sym = given_sym if given_sym is not None else any(k.symbolic for k in kids)
    if bool(r.symbolic) != bool(want_sym):
        c.fail(f"{where}/symbolic", f"symbolic={r.symbolic} instead of {want_sym}", kind="C05")
    own_u = frozenset(a for a in given_annos if not (a.eliminatable or a.relocatable))
    own_r = frozenset(a for a in given_annos if not a.eliminatable and a.relocatable)
    # the protected annotations of sub-expressions stay protected whatever is done to the top-level annotations (C07):
    # skip_child_annotations only stops the arguments' RELOCATABLE annotations from being merged in again
    need_u = own_u.union(*[k._uneliminatable_annotations for k in kids])
    need_r = own_r if skip else own_r.union(*[k._relocatable_annotations for k in kids])
    if frozenset(r._uneliminatable_annotations) != need_u:
        c.fail(f"{where}/uneliminatable-accumulated", f"_uneliminatable_annotations {sorted(map(repr, r._uneliminatable_annotations))} instead of {sorted(map(repr, need_u))}", kind="C07")
    if frozenset(r._relocatable_annotations) != need_r:
        c.fail(f"{where}/relocatable-accumulated", f"_relocatable_annotations {sorted(map(repr, r._relocatable_annotations))} instead of {sorted(map(repr, need_r))}", kind="C07")
    if not (set(given_annos) | set(need_r)) <= set(r.annotations) or not set(r.annotations) <= (set(given_annos) | set(need_r)):
        c.fail(f"{where}/annotations", f"annotations {sorted(map(repr, r.annotations))} are not the given ones plus the arguments' relocatable ones", kind="C07")


def ob_base_new(tier="quick"):
    proxies.set_iw(24)

    def body(c):
        ns = _c.get("ns") or _c.setdefault("ns", load_base())
        Base = ns["Base"]
        Base._hash_cache = weakref.WeakValueDictionary()
        nk = c.choose([True, True, True], "n-ast-args")
        kids = [_stub(ns, c, f"k{i}", i) for i in range(nk)]
        args = tuple(kids) + (3,) if nk else ("leafname", None)
        op = "__add__" if nk else "BVS"
        uni = [_annos()[0], _annos()[1], _annos()[3]]
        ka = c.choose([True] * (1 << len(uni)), "annotations-given")
        given = tuple(a for i, a in enumerate(uni) if ka >> i & 1)
        skip = c.choose([True, True], "skip_child_annotations") == 1
        gv = c.choose([True, True], "variables-given")
        given_vars = frozenset({"x", "w"}) if gv else None
        gs = c.choose([True, True, True], "symbolic-given")
        given_sym = [None, True, False][gs]
        av = c.choose([True, True], "add_variables")
        add_vars = frozenset({"q"}) if av else None
        if not nk and given_vars is None:
            given_vars = frozenset({"leafname"})
        try:
            r = Base(op, args, add_variables=add_vars, symbolic=given_sym, variables=given_vars, annotations=given,
                     skip_child_annotations=skip, length=8)
        except (PathEnd, Undecided):
            raise
        except Exception as ex:  # noqa
            import traceback
            c.fail("Base.__new__/raises", f"{type(ex).__name__}: {ex} {traceback.format_exc()[-300:]}", kind="raises")
            return "raised"
        _post(c, "Base.__new__", r, op, args, kids, given, skip, given_vars, given_sym, add_vars, 8)
        return f"kids={nk}"

    return explore(body, {"budget_s": 600, "max_depth": 4000, "max_paths": 3000000,
                          "anno_universe": None})


class _Table(dict):
    """the hash-cons table in an arbitrary state satisfying its invariant: under a hash h it holds nothing, or a live node whose own hash is h
    (decided per probe); every probe and every store is recorded"""
    def __init__(self, c, ns):
        super().__init__()
        self.c, self.ns, self.probes, self.stores, self.pre = c, ns, [], [], []

    def get(self, h, default=None):
        self.probes.append(h)
        if dict.__contains__(self, h):
            return dict.__getitem__(self, h)
        if h in getattr(self, "miss_keys", ()):
            return default
        if self.c.choose([True, True], f"table-holds-a-node-under-probe{len(self.probes)}") == 0:
            return default
        n = object.__new__(self.ns["Base"])
        n._hash = h
        self.pre.append(n)
        dict.__setitem__(self, h, n)
        return n

    def __setitem__(self, h, n):
        self.stores.append((h, n))
        dict.__setitem__(self, h, n)


def ob_base_new_table(tier="quick"):
    """C06: the hash-cons table discipline of the real Base.__new__.  The table is in an arbitrary state satisfying its invariant (a node is
    stored under its own hash).  Post: the node returned for (op, args, annotations, length) carries the hash of the FINAL identity of the
    node - the annotations after the arguments' relocatable annotations were merged in - whether it was found in the table or built; a node
    that is built is stored under exactly that hash.  (Returning what the table holds under any other key merges two different
    expressions.)"""
    import itertools
    proxies.set_iw(24)

    def body(c):
        ns = _c.get("ns") or _c.setdefault("ns", load_base())
        Base = ns["Base"]
        table = _Table(c, ns)
        Base._hash_cache = table
        nk = 1 + c.choose([True, True], "n-ast-args")
        kids = [_stub(ns, c, f"k{i}", i, light=True) for i in range(nk)]
        args = tuple(kids) + (3,)
        op = "__add__"
        uni = [_annos()[0], _annos()[1], _annos()[3]]
        ka = c.choose([True] * (1 << len(uni)), "annotations-given")
        given = tuple(a for i, a in enumerate(uni) if ka >> i & 1)
        skip = c.choose([True, True], "skip_child_annotations") == 1
        # hash=: what unpickling passes - the hash computed by the process that pickled the node.  It is the node's hash only if that
        # process hashed the annotations the same way (same PYTHONHASHSEED); a foreign hash must not become the key of a node built here
        hk = c.choose([True, True], "hash-argument")            # none / a foreign hash that is in nobody's table
        kw = {}
        if hk == 1:
            kw["hash"] = 0x0BADC0DE
            table.miss_keys = {0x0BADC0DE}
        try:
            r = Base(op, args, annotations=given, skip_child_annotations=skip, length=8, **kw)
        except (PathEnd, Undecided):
            raise
        except Exception as ex:  # noqa
            import traceback
            c.fail("Base.__new__/raises", f"{type(ex).__name__}: {ex} {traceback.format_exc()[-300:]}", kind="raises")
            return "raised"
        finally:
            Base._hash_cache = weakref.WeakValueDictionary()
        c.n_vcs += 1
        own_r = frozenset(a for a in given if not a.eliminatable and a.relocatable)
        merged = set(given) if skip else set(given) | set().union(*[k._relocatable_annotations for k in kids])
        # the merged annotation tuple is built by iterating a frozenset: any order of the same set is the same identity here
        ok_hashes = {Base._calc_hash(op, args, perm if (not skip) else given, 8) for perm in (itertools.permutations(merged) if not skip else [given])}
        was_there = any(r is n for n in table.pre)
        if r._hash not in ok_hashes:
            pre = was_there
            c.fail("Base.__new__/returned-node-has-the-hash-of-the-final-identity",
                   f"asked for {op}{tuple('k%d' % i for i in range(nk))} with annotations {given!r} (arguments carry {[tuple(k.annotations) for k in kids]}, skip_child_annotations={skip}): "
                   + ("the node found in the table under ANOTHER key was returned" if pre else "the built node carries another hash"), kind="C06")
            return "wrong-node"
        if not was_there:
            if not any(h == r._hash and n is r for h, n in table.stores):
                c.fail("Base.__new__/built-node-is-stored-under-its-hash", "a node was built but not stored in the table under its own hash", kind="C06")
        c.check("Base.__new__/table-discipline", True)
        return "hit" if was_there else "built"

    return explore(body, {"budget_s": 300, "max_depth": 4000, "max_paths": 500000, "anno_universe": None, "replay": replay_table})


def replay_table(failure=None):
    """native: the annotation-stripped twin of an operation over an annotated symbol is alive; building the operation again must not return it"""
    import claripy
    x = claripy.BVS("kf_tab_x", 8, explicit_name=True).annotate(claripy.annotation.UninitializedAnnotation())
    twin = (-x).clear_annotations()
    again = -x
    bad = again is twin or tuple(again.annotations) != tuple((-x).annotations) or not again.annotations
    if bad:
        return {"reproduced": True, "text": f"x = BVS.annotate(UninitializedAnnotation()); twin = (-x).clear_annotations(); -x now has annotations {again.annotations!r}"
                + (" and IS the twin" if again is twin else "")}
    # a node built with a supplied hash that no table knows (what unpickling in a process with another hash seed does)
    from claripy.ast import BV
    y = claripy.BVS("kf_tab_y", 8, explicit_name=True)
    n1 = BV("__sub__", (x, y), length=8, hash=0x0BADC0DE)
    n2 = BV("__sub__", (x, y), length=8)
    bad = n1 is not n2 or n1._hash == 0x0BADC0DE
    return {"reproduced": bool(bad), "text": f"BV('__sub__', (x, y), length=8, hash=<foreign>) has hash {n1._hash:#x}; the same node built without hash= " +
            ("is ANOTHER object: two structurally identical live expressions" if n1 is not n2 else "is the same object")}


def ob_make_like(tier="quick"):
    """annotation edits through the real make_like (fast path and slow path): args = self.args"""
    proxies.set_iw(24)

    def body(c):
        ns = _c.get("ns") or _c.setdefault("ns", load_base())
        Base = ns["Base"]
        Base._hash_cache = weakref.WeakValueDictionary()
        shape = c.choose([True, True, True, True, True], "args")
        same = shape == 0
        nk = 1 + c.choose([True, True], "n-ast-args") if same else 1
        kids = [_stub(ns, c, f"k{i}", i) for i in range(nk)]
        args = tuple(kids)
        uni = [_annos()[0], _annos()[1], _annos()[3]]
        k0 = c.choose([True] * (1 << len(uni)), "annotations-self")
        own0 = tuple(a for i, a in enumerate(uni) if k0 >> i & 1)
        islen = c.choose([True, True], "has-length")           # Bool nodes have length None: the fast path is not taken
        length = 8 if islen else None
        try:
            me = Base("__add__", args, annotations=own0, length=length)
        except (PathEnd, Undecided):
            raise
        new = ()
        if same:
            ka = c.choose([True] * (1 << len(uni)), "annotations-new")
            new = tuple(a for i, a in enumerate(uni) if ka >> i & 1)
        args2 = args if same else tuple(_stub(ns, c, f"n{i}", 10 + i) for i in range(nk))
        kids2 = list(args2)
        try:
            if same:
                # the call shape of Base._apply_to_annotations / annotate / remove_annotations / clear_annotations
                r = me.make_like(me.op, me.args, annotations=new, skip_child_annotations=True, length=me.length)
            elif shape == 1:
                # the call shape of every rebuilding traversal (replace_dict, canonicalize, burrow/excavate): new arguments
                r = me.make_like(me.op, args2, length=me.length)
            elif shape == 2:
                # the call shape of the rewriters (extract_simplifier, bitwise_sub_simplifier, excavate_ite): ANOTHER operation is built
                # "like" an operand that may be a symbol leaf - whose own variables / symbolic flag must not be inherited
                leaf = _stub(ns, c, "tmpl", 50, light=True)
                r = leaf.make_like("__and__", args2, length=me.length)
            elif shape == 4:
                # the same call with simplify=True (extract_simplifier's distribution over a flattenable operation) when the rewriter returns
                # one of the OPERANDS, a symbol leaf (0xff & x -> x): the node that is built stands for that leaf
                tmpl = _stub(ns, c, "tmpl", 50, light=True)
                tmpl.variables, tmpl.symbolic = frozenset(), False                     # the template is a constant
                leaf = args2[0]
                SIMPLIFY_HOOK[0] = lambda op, args: (leaf, False)
                try:
                    r = tmpl.make_like("__and__", args2, simplify=True, length=me.length)
                finally:
                    SIMPLIFY_HOOK[0] = lambda op, args: (None, False)
            else:
                r = me.make_like("__and__", args2, length=me.length)
        except (PathEnd, Undecided):
            raise
        except Exception as ex:  # noqa
            import traceback
            c.fail("Base.make_like/raises", f"{type(ex).__name__}: {ex} {traceback.format_exc()[-300:]}", kind="raises")
            return "raised"
        if same:
            _post(c, "Base.make_like[annotation-edit]", r, "__add__", args, kids, new, True, None, None, None, length)
        elif shape == 1:
            # annotations default to self's; children's relocatable annotations are merged again
            _post(c, "Base.make_like[new-args]", r, "__add__", args2, kids2, me.annotations, False, None, None, None, length)
        elif shape == 4:
            c.n_vcs += 1
            if r.op != leaf.op or tuple(r.args) != tuple(leaf.args):
                c.fail("Base.make_like[rewritten-to-a-leaf]/structure", f"built {r.op}{r.args!r} instead of the leaf {leaf.op}{leaf.args!r}")
            if frozenset(r.variables) != frozenset(leaf.variables):
                c.fail("Base.make_like[rewritten-to-a-leaf]/variables", f"the node built for the symbol leaf {leaf.args[0]!r} reports variables {sorted(r.variables)} "
                       f"(the template's) instead of {sorted(leaf.variables)}", kind="C05")
            if bool(r.symbolic) != bool(leaf.symbolic):
                c.fail("Base.make_like[rewritten-to-a-leaf]/symbolic", f"symbolic={r.symbolic} instead of {leaf.symbolic}", kind="C05")
        elif shape == 2:
            _post(c, "Base.make_like[other-op-like-a-leaf]", r, "__and__", args2, kids2, leaf.annotations, False, None, None, None, length)
        else:
            _post(c, "Base.make_like[other-op]", r, "__and__", args2, kids2, me.annotations, False, None, None, None, length)
        return ["same", "new", "leaf-template", "other-op", "rewritten-to-a-leaf"][shape]

    return explore(body, {"budget_s": 900, "max_depth": 4000, "max_paths": 3000000, "anno_universe": None, "replay": replay_make_like})


def replay_make_like(failure=None):
    """native (found by a sub-agent while writing a seeded change): an extraction that distributes over a mask whose rewrite returns an
    annotated symbol, while the plain symbol is not alive in the hash-cons table"""
    if "rewritten-to-a-leaf" not in str((failure or {}).get("label")):
        return {"reproduced": True, "text": "metadata clause on the built node (executed on the real class)"}
    import gc
    import claripy

    class _A(claripy.Annotation):
        pass
    y = claripy.BVS("kf_ml_y", 8, explicit_name=True)
    xa = claripy.BVS("kf_ml_x", 8, explicit_name=True).annotate(_A())
    gc.collect()
    e = (claripy.BVV(0xFF, 16) & claripy.Concat(y, xa))[7:0]
    bad = e.op == "BVS" and (not e.variables or not e.symbolic)
    return {"reproduced": bool(bad), "text": f"(BVV(0xff, 16) & Concat(y, x.annotate(A())))[7:0] = {e!r}: op {e.op}, variables {set(e.variables)}, symbolic {e.symbolic}"}


def non_leaf_operation_names():
    """every operation name that claripy/operations.py mentions in a module-level set, frozenset, dict or list, minus the leaf operations: the
    names a membership test in Base.__new__ / make_like could single out"""
    import claripy.operations as O
    names = set()
    for k, v in vars(O).items():
        if k.startswith("__"):
            continue
        if isinstance(v, (set, frozenset, dict, list, tuple)):
            names |= {x for x in v if isinstance(x, str)}
    return sorted(n for n in names - set(O.leaf_operations) if n and not n.startswith("_") or n.startswith("__"))


def ob_make_like_ops(tier="quick"):
    """make_like for EVERY non-leaf operation name (the other make_like obligations build __add__ / __and__): the rebuilt node's variables,
    symbolic flag and depth are those of its NEW arguments, whatever the operation is called and whatever node make_like is called on -
    same operation with new arguments (every rebuilding traversal), and another node's make_like building this operation (the rewriters)."""
    proxies.set_iw(24)
    ops = non_leaf_operation_names()

    def body(c):
        ns = _c.get("ns") or _c.setdefault("ns", load_base())
        Base = ns["Base"]
        Base._hash_cache = weakref.WeakValueDictionary()
        op = ops[c.choose([True] * len(ops), "operation")]
        shape = c.choose([True, True], "called-on")
        # the operands: the first of each pair has a variable of its own, the second may be variable-free (metadata symbolic as in _stub, but
        # without annotations: they are the subject of the other make_like obligations)
        old = tuple(_plain_stub(ns, c, f"k{i}", i, True) for i in range(2))
        new = (_plain_stub(ns, c, "n0", 10, True), _plain_stub(ns, c, "n1", 11, c.choose([True, True], "second-new-operand-has-a-variable") == 0))
        try:
            me = Base(op if shape == 0 else "__add__", old, length=8)
            r = me.make_like(op, new, length=8)
        except (PathEnd, Undecided):
            raise
        except Exception as ex:  # noqa
            import traceback
            c.fail("Base.make_like[every-operation]/raises", f"{op}: {type(ex).__name__}: {ex} {traceback.format_exc()[-300:]}", kind="raises")
            return "raised"
        _post(c, f"Base.make_like[every-operation:{'same-op' if shape == 0 else 'from-another-node'}]", r, op, new, list(new), me.annotations, False, None, None, None, 8)
        return op
    return explore(body, {"budget_s": 600, "max_depth": 4000, "max_paths": 3000000, "anno_universe": None, "replay": replay_make_like_ops})


def replay_make_like_ops(failure=None, _task=None):
    """native: replace() through a node of every binary BV operation, the replaced operand's variable must leave and the new one arrive"""
    import claripy
    x, y, z = (claripy.BVS(n, 8, explicit_name=True) for n in ("mlo_x", "mlo_y", "mlo_z"))
    bad = []
    for op in non_leaf_operation_names():
        f = getattr(x, op, None)
        if f is None:
            continue
        try:
            e = f(y)
            if not isinstance(e, claripy.ast.Base) or e.depth < 2:
                continue
            r = claripy.replace(e, x, z)
        except Exception:  # noqa
            continue
        want = frozenset(v for a in r.args if isinstance(a, claripy.ast.Base) for v in a.variables)
        if isinstance(r, claripy.ast.Base) and r.depth > 1 and frozenset(r.variables) != want:
            bad.append(f"replace(x.{op}(y), x, z) = {r} reports variables {sorted(r.variables)}, its arguments have {sorted(want)}")
    return {"reproduced": bool(bad), "text": "; ".join(bad[:3]) or "replace() through every binary operation keeps the variables accurate"}
