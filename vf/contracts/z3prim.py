"""C26 (proved part): the pure bit / integer code that turns Z3 model values into Python primitives
(claripy/backends/backend_z3.py, re-loaded from /repo on every run), with the Z3 C API answered by contract.

A ghost Z3 AST is a Python object that knows its declaration kind, sort, arguments and - for numerals - its (symbolic) value.  The
module's name `z3` is bound to a stub that serves the C-API functions the code under verification calls from the ghost and falls
through to the real z3 module for everything else (constants Z3_OP_*, ...).  Assumed contracts (each listed in the evidence):
  Z3_get_numeral_uint64        writes the numeral's value and returns True iff it fits 64 bits
  Z3_get_numeral_string        the decimal string of the value (only reached above 64 bits: concrete boundary values)
  Z3_fpa_get_ebits / sbits     the sort's exponent width / significand width including the hidden bit
  Z3_fpa_get_numeral_sign, Z3_fpa_get_numeral_significand_uint64 (trailing significand bits), Z3_fpa_get_numeral_exponent_string(biased)
Obligations:
  concat-of-numerals  the Concat branch of _abstract_to_primitive returns the value of the concatenation (pieces may be bvneg of a numeral)
  fp-encoded          _abstract_fp_encoded_val returns the IEEE-754 bit pattern sign | biased exponent | trailing significand for
                      every numeral kind (FPVal, +-0, +-inf, NaN) of FLOAT and DOUBLE (NaN: any NaN pattern)
  bv-val              _abstract_bv_val returns the numeral's value (64-bit path symbolic; string path on boundary values)
  leaf-op             ModelCache._leaf_op / _leaf_op_existonly substitute exactly the model's value for a variable of the same name
  int<->str           int_to_str_unlimited / str_to_int_unlimited are inverse to int()/str() around the chunk boundaries (bounded-exhaustive,
                      reported under the proof obligations because every case is decided, stated bound: chunk sizes 1-3, up to 3 chunks + 1)
"""
from __future__ import annotations

import ctypes
import z3

from vf.engine import loader, paths, proxies
from vf.engine.paths import cur, explore, Undecided, PathEnd
from vf.engine.proxies import SymInt, SymBool, _bv
from vf.contracts import gcguard

realz3 = z3


class Sort:
    def __init__(self, kind, bits=None, ebits=None, sbits=None):
        self.kind, self.bits, self.ebits, self.sbits = kind, bits, ebits, sbits


class GAst:
    """ghost Z3 AST"""
    def __init__(self, kind, sort, args=(), value=None, sign=None, sig=None, bexp=None):
        self.kind, self.sort, self.args, self.value = kind, sort, tuple(args), value
        self.sign, self.sig, self.bexp = sign, sig, bexp


class _Ptr:
    class _C:
        value = 0

    def __init__(self):
        self.contents = _Ptr._C()


class Z3Stub:
    """contract of the Z3 C API functions used by the primitive extraction"""
    def __getattr__(self, n):
        return getattr(realz3, n)

    def Z3_get_app_decl(self, ctx, ast):
        return ast

    def Z3_get_decl_kind(self, ctx, decl):
        return decl.kind

    def Z3_get_app_num_args(self, ctx, ast):
        return len(ast.args)

    def Z3_get_app_arg(self, ctx, ast, i):
        return ast.args[i]

    def Z3_get_sort(self, ctx, ast):
        return ast.sort

    def Z3_get_bv_sort_size(self, ctx, sort):
        return sort.bits

    def Z3_get_numeral_uint64(self, ctx, ast, ptr):
        v = ast.value
        if isinstance(v, int) and v >= (1 << 64):
            return False
        ptr.contents.value = v
        return True

    def Z3_get_numeral_string(self, ctx, ast):
        if not isinstance(ast.value, int):
            raise Undecided("decimal string of a symbolic numeral")
        return str(ast.value)

    def Z3_fpa_get_ebits(self, ctx, sort):
        return sort.ebits

    def Z3_fpa_get_sbits(self, ctx, sort):
        return sort.sbits

    def Z3_fpa_get_numeral_sign(self, ctx, ast, ref):
        ref._obj.value = ast.sign
        return True

    def Z3_fpa_get_numeral_significand_uint64(self, ctx, ast, ref):
        ref._obj.value = ast.sig
        return True

    def Z3_fpa_get_numeral_exponent_string(self, ctx, ast, biased):
        if not biased:
            raise Undecided("unbiased exponent string")
        return _IntStr(ast.bexp)

    def Z3_fpa_get_numeral_significand_string(self, ctx, ast):
        return _FracStr(ast)


class _IntStr(str):
    """the decimal string of a (symbolic) integer: int() of it is the integer - the assumed contract of int(str(n))"""
    def __new__(cls, v):
        o = str.__new__(cls, "<decimal>")
        o.v = v
        return o


class _FracStr(str):
    """the significand as z3 prints it: a decimal FRACTION ("1", "1.5", "0.000...2220446"): int() of it succeeds only when there are no
    fractional digits, i.e. when the trailing significand bits are all zero (observed behaviour of the API, assumed)"""
    def __new__(cls, ast):
        o = str.__new__(cls, "<decimal fraction>")
        o.ast = ast
        return o


class _CInt:
    """ctypes.c_int / c_uint64 stand-in whose value may be symbolic"""
    def __init__(self, *a):
        self.value = 0


class _CTypes:
    c_int = _CInt
    c_uint64 = _CInt

    @staticmethod
    def byref(o):
        class R:
            _obj = o
        return R

    def __getattr__(self, n):
        return getattr(ctypes, n)


def _vf_int(x=0, *a):
    if isinstance(x, _IntStr):
        return x.v
    if isinstance(x, _FracStr):
        c = cur()
        if c.branch(_bv(x.ast.sig) == 0, "significand-has-no-fraction"):
            return 1 if c.branch(_bv(x.ast.bexp) != 0, "normal") else 0
        raise ValueError("invalid literal for int() with base 10: '1.5'-like decimal fraction")
    return proxies.vf_int(x, *a)


_cache = {}


def load():
    if "ns" not in _cache:
        ns = dict(gcguard.load())           # a copy of the loaded backend_z3 namespace with the API stub bound
        # functions keep their own globals dict: rebuild them over the copy so that `z3`, `ctypes`, `int` resolve to the stubs
        import types
        real_ns = gcguard.load()
        sub = {"z3": Z3Stub(), "ctypes": _CTypes(), "int": _vf_int}
        cls = real_ns["BackendZ3"]

        def rebind(f):
            g = dict(f.__globals__)
            g.update(sub)
            return types.FunctionType(f.__code__, g, f.__name__, f.__defaults__, f.__closure__)
        ns["prim"] = rebind(cls.__dict__["_abstract_to_primitive"])
        ns["bv_val"] = rebind(cls.__dict__["_abstract_bv_val"])
        enc = cls.__dict__["_abstract_fp_encoded_val"]
        ns["fp_encoded"] = rebind(enc.__func__ if isinstance(enc, staticmethod) else enc)
        _cache["ns"] = ns
    return _cache["ns"]


class _Self:
    """the BackendZ3 instance as far as the extraction code reads it"""
    def __init__(self, ns):
        self._c_uint64_p = _Ptr()
        self._ns = ns

    def _abstract_bv_val(self, ctx, ast):
        return self._ns["bv_val"](self, ctx, ast)

    def _abstract_fp_encoded_val(self, ctx, ast):
        return self._ns["fp_encoded"](ctx, ast)

    def _abstract_fp_val(self, ctx, ast, op_name):
        raise Undecided("float path")


def _kind(name):
    """declaration kind number whose op_map entry is `name`"""
    ns = gcguard.load()
    for num, nm in ns["z3_op_nums"].items():
        if ns["op_map"].get(nm) == name:
            return num
    raise Undecided(f"no declaration kind maps to {name}")


def _opts(tier):
    return {"budget_s": 200, "max_depth": 4000, "max_failures": 3, "timeout_ms": 20000, "max_paths": 20000}


def ob_concat(tier="quick"):
    ns = load()
    proxies.set_iw(40)
    iw = proxies.get_iw()

    def body(c):
        n = 2 + c.choose([True] * 2, "n-pieces")          # a Concat application has at least two arguments
        pieces, want, total = [], z3.BitVecVal(0, iw), 0
        for i in range(n):
            size = 1 + c.choose([True] * 4, f"size{i}")
            v = SymInt.fresh(f"v{i}", 0, (1 << size) - 1)
            num = GAst(realz3.Z3_OP_BNUM, Sort("bv", bits=size), value=v)
            if c.choose([True, True], f"neg{i}") == 1:
                ast = GAst(realz3.Z3_OP_BNEG, Sort("bv", bits=size), args=(num,))
                val = (-v.z) & ((1 << size) - 1)
            else:
                ast, val = num, v.z
            pieces.append(ast)
            want = (want << size) | val
            total += size
        top = GAst(_kind("Concat"), Sort("bv", bits=total), args=pieces)
        shape = [(p.sort.bits, p.kind == realz3.Z3_OP_BNEG) for p in pieces]
        c.describers.append(lambda m, shape=shape: {"pieces": shape})
        try:
            r = ns["prim"](_Self(ns), "ctx", top)
        except (PathEnd, Undecided):
            raise
        except Exception as ex:  # noqa
            c.fail("concat-of-numerals/raises", f"{type(ex).__name__}: {ex}", kind="raises")
            return "raised"
        c.watch["result"] = _bv(r)
        c.check("concat-of-numerals/value", _bv(r) == want, "the assembled integer is not the value of the concatenation")
        return f"pieces:{n}"
    return explore(body, _opts(tier))


FP_KINDS = ["FPVal", "MinusZero", "MinusInf", "PlusZero", "PlusInf", "NaN"]


def ob_fp_encoded(sort_name, tier="quick"):
    ns = load()
    ebits, sbits = {"FLOAT": (8, 24), "DOUBLE": (11, 53), "TINY": (3, 4)}[sort_name]
    proxies.set_iw(ebits + sbits + 8)
    iw = proxies.get_iw()
    tb = sbits - 1                       # trailing significand bits

    def body(c):
        kind = FP_KINDS[c.choose([True] * len(FP_KINDS), "numeral-kind")]
        sign = SymInt.fresh("sign", 0, 1)
        sig = SymInt.fresh("sig", 0, (1 << tb) - 1)
        bexp = SymInt.fresh("bexp", 0, (1 << ebits) - 1)
        if kind == "FPVal":
            # a finite numeral that is not a zero: biased exponent below all-ones (zeros / infinities / NaN have their own kinds)
            c.assume(bexp.z < (1 << ebits) - 1)
        ast = GAst(_kind(kind), Sort("fp", ebits=ebits, sbits=sbits), sign=sign, sig=sig, bexp=bexp)
        c.describers.append(lambda m, kind=kind: {"numeral_kind": kind, "sort": sort_name})
        try:
            r = ns["fp_encoded"]("ctx", ast)
        except (PathEnd, Undecided):
            raise
        except Exception as ex:  # noqa
            c.fail("fp-encoded/raises", f"{type(ex).__name__}: {ex}", kind="raises")
            return "raised"
        rz = _bv(r)
        c.watch["result"] = rz
        allones = (1 << ebits) - 1
        pat = lambda s, e, m: (s << (ebits + tb)) | (e << tb) | m
        if kind == "FPVal":
            want = rz == ((sign.z << (ebits + tb)) | (bexp.z << tb) | sig.z)
        elif kind == "NaN":
            e_field = z3.LShR(rz, tb) & allones
            want = z3.And(e_field == allones, (rz & ((1 << tb) - 1)) != 0, z3.LShR(rz, ebits + tb + 1) == 0)
        else:
            s_, e_, m_ = {"MinusZero": (1, 0, 0), "PlusZero": (0, 0, 0), "MinusInf": (1, allones, 0), "PlusInf": (0, allones, 0)}[kind]
            want = rz == pat(s_, e_, m_)
        c.check(f"fp-encoded/{sort_name}/bit-pattern", want, f"the assembled bits are not the IEEE-754 encoding of the {kind} numeral")
        return kind
    return explore(body, _opts(tier))


def ob_bv_val(tier="quick"):
    ns = load()
    proxies.set_iw(72)

    def body(c):
        if c.choose([True, True], "fits-64") == 0:
            v = SymInt.fresh("v", 0, (1 << 64) - 1)
            want = v.z
        else:
            big = [1 << 64, (1 << 64) + 1, (1 << 65) - 1, 10 ** 19, 10 ** 20 - 1, (1 << 128) - 1, (1 << 256) - 1, 10 ** 40 + 7, 3 ** 200]
            v = big[c.choose([True] * len(big), "big-value")]
            want = v
        ast = GAst(realz3.Z3_OP_BNUM, Sort("bv", bits=300), value=v)
        try:
            r = ns["bv_val"](_Self(ns), "ctx", ast)
        except (PathEnd, Undecided):
            raise
        except Exception as ex:  # noqa
            c.fail("bv-val/raises", f"{type(ex).__name__}: {ex}", kind="raises")
            return "raised"
        if isinstance(want, int):
            c.check("bv-val/value", r == want, f"returned {r} for the numeral {want}")
        else:
            c.check("bv-val/value", _bv(r) == want, "returned another value than the numeral's")
        return "ok"
    return explore(body, _opts(tier))


def ob_int_str(tier="quick"):
    """int_to_str_unlimited / str_to_int_unlimited around the chunk boundaries: with the chunk size set to 1, 2, 3 (and the real setting),
    every integer whose decimal string has up to 3 chunks + 1 digits, positive and negative, boundary digits (bounded-exhaustive)"""
    real_ns = gcguard.load()
    f_str, f_int = real_ns["int_to_str_unlimited"], real_ns["str_to_int_unlimited"]

    def body(c):
        bad = []
        saved = f_str.__globals__.get("INT_STRING_CHUNK_SIZE")
        n = 0
        try:
            for chunk in (1, 2, 3, saved):
                f_str.__globals__["INT_STRING_CHUNK_SIZE"] = chunk
                k = chunk if isinstance(chunk, int) else 4
                vals = set()
                for digits in range(1, min(3 * k + 2, 12)):
                    lo, hi = 10 ** (digits - 1), 10 ** digits - 1
                    vals |= {lo, lo + 1, hi, hi - 1, (lo + hi) // 2, int("1" + "0" * (digits - 1)), int("9" * digits), int(("10" * digits)[:digits])}
                if isinstance(chunk, int) and chunk <= 2:
                    vals |= set(range(0, 10 ** (3 * chunk)))
                vals |= {0}
                for v in sorted(vals):
                    for s in (v, -v):
                        n += 1
                        try:
                            if f_str(s) != str(s):
                                bad.append(f"int_to_str_unlimited({s}) = {f_str(s)!r} (chunk {chunk})")
                            if f_int(str(s)) != s:
                                bad.append(f"str_to_int_unlimited({str(s)!r}) = {f_int(str(s))} (chunk {chunk})")
                        except Exception as ex:  # noqa
                            bad.append(f"{s} (chunk {chunk}): {type(ex).__name__}: {ex}")
        finally:
            f_str.__globals__["INT_STRING_CHUNK_SIZE"] = saved
        c.ghost["cases"] = n
        c.check("int<->str/round-trip", not bad, "; ".join(bad[:4]))
        return f"cases:{n}"
    return explore(body, _opts(tier))


def ob_leaf_op(tier="quick"):
    """ModelCache._leaf_op / _leaf_op_existonly: a variable leaf is replaced by exactly the model's value for its name (default value
    only when the name is absent and unconstrained variables are allowed), other leaves are untouched"""
    ns = loader.load("claripy/frontend/mixin/model_cache_mixin.py", "claripy.frontend.mixin.model_cache_mixin")
    MC = ns["ModelCache"]
    made = []

    class FakeClaripy:
        @staticmethod
        def BVV(v, n):
            made.append(("BVV", v, n)); return made[-1]

        @staticmethod
        def BoolV(v):
            made.append(("BoolV", v)); return made[-1]

        @staticmethod
        def FPV(v, s):
            made.append(("FPV", v, s)); return made[-1]

        @staticmethod
        def StringV(v):
            made.append(("StringV", v)); return made[-1]
    ns["claripy"] = FakeClaripy
    proxies.set_iw(16)

    class Leaf:
        def __init__(self, op, args, length=None):
            self.op, self.args, self.length = op, args, length

    def body(c):
        ops = [("BVS", 8, "BVV"), ("BoolS", None, "BoolV"), ("FPS", None, "FPV"), ("StringS", None, "StringV"), ("BVV", 8, None)]
        op, length, ctor = ops[c.choose([True] * len(ops), "leaf")]
        present = c.choose([True, True], "in-model") == 0
        val = SymInt.fresh("val", 0, 255) if op == "BVS" else {"BoolS": False, "FPS": 1.5, "StringS": "s\x00"}.get(op, 7)
        model = {"other_1": 99}
        if present:
            model["x_1"] = val
        m = MC(model)
        leaf = Leaf(op, ("x_1", "SORT") if op == "FPS" else ("x_1",), length)
        for fn in ("_leaf_op", "_leaf_op_existonly"):
            try:
                r = getattr(m, fn)(leaf)
            except KeyError:
                c.check(f"leaf-op/{fn}/keyerror-only-if-absent", fn == "_leaf_op_existonly" and not present and ctor is not None,
                        "KeyError although the variable is in the model (or for the permissive variant)")
                continue
            except (PathEnd, Undecided):
                raise
            except Exception as ex:  # noqa
                c.fail(f"leaf-op/{fn}/raises", f"{type(ex).__name__}: {ex}", kind="raises")
                continue
            if ctor is None:
                c.check(f"leaf-op/{fn}/non-variable-untouched", r is leaf, "a non-variable leaf was replaced")
                continue
            ok = isinstance(r, tuple) and r[0] == ctor
            if not ok:
                c.fail(f"leaf-op/{fn}/constructor", f"a {op} leaf became {r!r}")
                continue
            if present:
                got = r[1]
                same = (got is val) or (not isinstance(val, SymInt) and got == val and type(got) is type(val))
                c.check(f"leaf-op/{fn}/model-value", same, f"the leaf was replaced by {got!r}, the model says {val!r}")
            else:
                c.check(f"leaf-op/{fn}/default-only-when-absent", fn == "_leaf_op", "a default value was used by the strict variant")
            if op == "BVS":
                c.check(f"leaf-op/{fn}/width", r[2] == length, "the constant has another width than the variable")
        return op
    return explore(body, _opts(tier))


def replay(task, failure):
    """native: build the Z3 term the counter-model describes and hand it to the real claripy.backends.z3._abstract_to_primitive"""
    import claripy
    b = claripy.backends.z3
    ctx = b._context
    wit = failure.get("witness", {})
    if task["fn"] == "ob_concat" and "pieces" in wit:
        args, want = [], 0
        for i, (size, neg) in enumerate(wit["pieces"]):
            v = wit.get(f"v{i}", 0)
            t = realz3.BitVecVal(v, size, ctx=ctx)
            args.append(-t if neg else t)
            want = (want << size) | ((-v) % (1 << size) if neg else v)
        term = realz3.Concat(*args) if len(args) > 1 else args[0]
        if len(args) == 1:
            return {"reproduced": False, "text": "a single piece is not a Concat application in Z3"}
        got = b._abstract_to_primitive(ctx.ref(), term.as_ast())
        return {"reproduced": got != want, "text": f"_abstract_to_primitive({term}) = {got:#x}, the term's value is {want:#x}"}
    if task["fn"] == "ob_fp_encoded" and wit.get("numeral_kind") == "FPVal" and wit.get("sort") in ("FLOAT", "DOUBLE"):
        eb, sb = {"FLOAT": (8, 24), "DOUBLE": (11, 53)}[wit["sort"]]
        bits = (wit["sign"] << (eb + sb - 1)) | (wit["bexp"] << (sb - 1)) | wit["sig"]
        if wit["bexp"] == 0 and wit["sig"] == 0:
            return {"reproduced": False, "text": "a zero is not an FPVal numeral"}
        srt = realz3.FPSort(eb, sb, ctx=ctx)
        f = realz3.simplify(realz3.fpBVToFP(realz3.BitVecVal(bits, eb + sb, ctx=ctx), srt))
        term = realz3.fpToIEEEBV(f)
        try:
            got = b._abstract_to_primitive(ctx.ref(), term.as_ast())
        except Exception as e:  # noqa
            return {"reproduced": True, "text": f"_abstract_to_primitive(fpToIEEEBV({f})) raised {type(e).__name__}: {e}"}
        return {"reproduced": got != bits, "text": f"_abstract_to_primitive(fpToIEEEBV({f})) = {got:#x}, the numeral's encoding is {bits:#x}"}
    return {"reproduced": False, "text": "no native reproducer for this obligation"}
