"""Reference semantics of claripy operations as SMT-LIB terms (DESIGN.md section 2).  Written from the
SMT-LIB theory definitions and the property statements; it does not call any claripy code.

sem(op, zargs, iargs, width) -> z3 term, or None when the operation has no SMT meaning modelled
here (VSA set operations, float/string operations in the BV engine) - such nodes are opaque."""
from __future__ import annotations

from functools import reduce
import z3


def _fold(f):
    return lambda *xs: reduce(f, xs)


def bv_reverse(x):
    n = x.size()
    assert n % 8 == 0
    parts = [z3.Extract(8 * i + 7, 8 * i, x) for i in range(n // 8)]
    return z3.Concat(*parts) if len(parts) > 1 else parts[0]


def shift_extract(x, lo, w):
    """bits [lo+w-1 : lo] of x for a symbolic lo (z3 BitVec of x's width or int)."""
    if isinstance(lo, int):
        return z3.Extract(lo + w - 1, lo, x)
    n = x.size()
    if lo.size() < n:
        lo = z3.ZeroExt(n - lo.size(), lo)
    elif lo.size() > n:
        lo = z3.Extract(n - 1, 0, lo)
    return z3.Extract(w - 1, 0, z3.LShR(x, lo))


BV_NARY = {"__add__": _fold(lambda a, b: a + b), "__sub__": _fold(lambda a, b: a - b),
           "__mul__": _fold(lambda a, b: a * b), "__and__": _fold(lambda a, b: a & b),
           "__or__": _fold(lambda a, b: a | b), "__xor__": _fold(lambda a, b: a ^ b)}
BV_BIN = {"__floordiv__": z3.UDiv, "__truediv__": z3.UDiv, "__mod__": z3.URem,
          "SDiv": lambda a, b: a / b, "SMod": z3.SRem,
          "__lshift__": lambda a, b: a << b, "__rshift__": lambda a, b: a >> b, "LShR": z3.LShR,
          "RotateLeft": lambda a, b: z3.RotateLeft(a, b), "RotateRight": lambda a, b: z3.RotateRight(a, b)}
BV_UN = {"__neg__": lambda a: -a, "__invert__": lambda a: ~a, "Reverse": bv_reverse}
BV_CMP = {"ULT": z3.ULT, "ULE": z3.ULE, "UGT": z3.UGT, "UGE": z3.UGE,
          "SLT": lambda a, b: a < b, "SLE": lambda a, b: a <= b, "SGT": lambda a, b: a > b, "SGE": lambda a, b: a >= b,
          "__lt__": z3.ULT, "__le__": z3.ULE, "__gt__": z3.UGT, "__ge__": z3.UGE}
BOOL_NARY = {"And": lambda *xs: z3.And(*xs), "Or": lambda *xs: z3.Or(*xs)}
OPAQUE_BV = {"union", "intersection", "widen"}


def sem(op, args):
    """args: list of z3 terms and Python ints (or z3 BitVec for symbolic integer arguments) in claripy
    argument order.  Returns the z3 term of the operation, or None (opaque)."""
    if op in BV_NARY:
        return BV_NARY[op](*args)
    if op in BV_BIN:
        return BV_BIN[op](*args)
    if op in BV_UN:
        return BV_UN[op](*args)
    if op in BV_CMP:
        return BV_CMP[op](*args)
    if op in BOOL_NARY:
        return BOOL_NARY[op](*args)
    if op == "Not":
        return z3.Not(args[0])
    if op == "__eq__":
        return args[0] == args[1]
    if op == "__ne__":
        return args[0] != args[1]
    if op == "If":
        return z3.If(args[0], args[1], args[2])
    if op == "Concat":
        return z3.Concat(*args) if len(args) > 1 else args[0]
    if op == "ZeroExt":
        return z3.ZeroExt(args[0], args[1]) if args[0] else args[1]
    if op == "SignExt":
        return z3.SignExt(args[0], args[1]) if args[0] else args[1]
    if op == "Extract":
        hi, lo, x = args
        if isinstance(hi, int) and isinstance(lo, int):
            return z3.Extract(hi, lo, x)
        raise ValueError("symbolic Extract bounds need shift_extract with a concrete width")
    return None
