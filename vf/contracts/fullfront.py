"""C11 / C14 (proved part): the solver-object protocol of the real FullFrontend (claripy/frontend/full_frontend.py, re-loaded from /repo on
every run) over a ghost backend.

A ghost solver object is a list of assertions (constraint handles over the finite universe of vf/contracts/replfront.py).  The ghost
backend creates, clones and extends solver objects and records every query with the solver object and the extra constraints it is given.

Representation invariant of a FullFrontend f (reuse_z3_solver off):
   P1  f._tls.solver is None, or   Mod(assertions(f._tls.solver))  &  Mod(f._to_add)  ==  Mod(f.constraints)
   P2  every element of f._to_add is one of f.constraints
   P4  with tracking on (track=True, the mode unsat_core() needs), every assertion of the frontend's solver object was asserted as tracked:
       Z3 can only name tracked assertions in a core, an untracked one silently drops out of it (C16)
   P3  a solver object that another frontend also holds is never extended: it may be handed to a query only as it is (ownership: a
       frontend that is not finalized holds its solver object alone; finalized ones may share)
Obligations, from an arbitrary state satisfying P1-P3 (own / shared solver object, pending constraints or none, finalized or not):
   _get_solver   returns a solver object whose assertions have the models of f.constraints, leaves _to_add empty, and - if the object was
                 shared and had to be extended - returns a NEW object and leaves the shared one exactly as it was
   queries       the backend is asked with that solver object and the caller's extra constraints, its answer is returned unchanged; eval /
                 batch_eval raise UnsatError exactly for an empty answer; max/min pre-constrain with two feasible values in the right
                 signedness; a BackendError surfaces as ClaripyFrontendError
   _add, simplify, downsize        re-establish P1-P3
   branch        both sides satisfy P1-P3 afterwards, both are finalized, the branch starts with the parent's pending constraints, and the
                 shared solver object is untouched
"""
from __future__ import annotations

import z3

from vf.engine import loader, paths, proxies
from vf.engine.paths import cur, explore, Undecided, PathEnd
from vf.engine.proxies import SymBool, SymInt
from vf.contracts.replfront import EH, U, conj, same_set, Answer
from claripy.errors import BackendError, ClaripyFrontendError, UnsatError

FF_PATH = "claripy/frontend/full_frontend.py"


class GSolver:
    n = 0

    def __init__(self, assertions=()):
        GSolver.n += 1
        self.uid = GSolver.n
        self.assertions = list(assertions)
        self.tracked = [False] * len(self.assertions)      # per assertion: was it asserted with track=True (only those can appear in a core)

    def __repr__(self):
        return f"<solver#{self.uid}>"


class GBackend:
    reuse_z3_solver = False

    def __init__(self):
        self.queries = []
        self.created = []

    def solver(self, timeout=None, max_memory=None):
        s = GSolver()
        self.created.append(s)
        return s

    def clone_solver(self, s):
        c = GSolver(s.assertions)
        c.tracked = list(s.tracked)
        self.created.append(c)
        return c

    def add(self, s, constraints, track=False):
        constraints = list(constraints)
        s.assertions.extend(constraints)
        s.tracked.extend([bool(track)] * len(constraints))

    def _q(self, kind, args, kw):
        c = cur()
        if c.choose([True, True], "backend-error") == 1:
            self.queries.append((kind, args, kw, "error"))
            raise BackendError("backend gave up")
        if kind in ("eval", "batch_eval"):
            n = args[1]
            k = c.choose([True] * (min(n, 2) + 1), "n-results")
            ans = Answer(("value", j) for j in range(k)) if kind == "eval" else [("row", j) for j in range(k)]
        elif kind == "satisfiable":
            ans = c.choose([True, True], "satisfiable-answer") == 0
        elif kind == "check_satisfiability":
            ans = ["SAT", "UNSAT"][c.choose([True, True], "check-answer")]
        else:
            ans = ("answer", kind, len(self.queries))
        self.queries.append((kind, args, kw, ans))
        return ans

    def __getattr__(self, name):
        if name in ("eval", "batch_eval", "max", "min", "solution", "is_true", "is_false", "satisfiable", "check_satisfiability"):
            return lambda *a, **k: self._q(name, a, k)
        if name == "unsat_core":
            return lambda s: ("core", s)
        raise AttributeError(name)


class _Cmp:
    def __init__(self, op, e, v):
        self.op, self.e, self.v = op, e, v


_cache = {}


def load():
    if "ns" not in _cache:
        ns = loader.load(FF_PATH, "claripy.frontend.full_frontend")
        import types
        import claripy as real
        fake = types.SimpleNamespace(**{op: (lambda e, v, op=op: _Cmp(op, e, v)) for op in ("UGE", "ULE", "SGE", "SLE")})
        fake.__dict__["__getattr__"] = None
        ns["claripy"] = fake
        _cache["ns"] = ns
    return _cache["ns"]


def _opts(tier):
    return {"budget_s": 300, "max_depth": 4000, "max_failures": 3, "timeout_ms": 20000, "max_paths": 60000}


STATES = ["no-solver", "own-solver", "own-solver+pending", "shared-solver", "shared-solver+pending"]


def mk(FF, c, state):
    """an arbitrary frontend in the given protocol state, satisfying P1-P3; returns (frontend, backend, other holder of the solver or None)"""
    b = GBackend()
    track = c.choose([True, True], "track") == 1
    f = FF(b, track=track)
    nold = 1 + c.choose([True, True], "n-old-constraints") if state != "no-solver" else c.choose([True] * 3, "n-constraints")
    old = [EH("bool", name="old") for _ in range(nold)]
    for x in old:
        x.variables = frozenset({"v"})
    f.constraints = list(old)
    f.variables = {"v"}
    other = None
    if state == "no-solver":
        f._to_add = list(old) if c.choose([True, True], "to_add-filled") == 0 else []
        return f, b, None
    s = GSolver()
    # the solver object holds assertions with the models of the old constraints (any list with these models)
    a = [EH("bool", name="as") for _ in range(nold)]
    c.assume(same_set(conj(a), conj(old)))
    s.assertions = list(a)
    s.tracked = [track] * len(a)
    f._tls.solver = s
    if state.endswith("+pending"):
        new = [EH("bool", name="pend") for _ in range(1 + c.choose([True, True], "n-pending"))]
        for x in new:
            x.variables = frozenset({"v"})
        f.constraints = old + new
        f._to_add = list(new)
    if state.startswith("shared"):
        f._finalized = True
        other = FF(b, track=track)
        other.constraints = list(old)
        other._tls.solver = s
        other._finalized = True
    if not c.path_feasible():
        raise PathEnd()
    return f, b, other


def _inv(c, f, label):
    s = getattr(f._tls, "solver", None)
    c.check(label + "/P2-pending-are-constraints", all(any(x is y for y in f.constraints) for x in f._to_add), "_to_add holds something that is not one of the constraints", kind="invariant")
    if s is not None:
        if f._track:
            c.check(label + "/P4-tracked-mode-asserts-tracked", len(s.tracked) == len(s.assertions) and all(s.tracked),
                    "tracking is on but the solver object holds an assertion that was added untracked: unsat_core() cannot name it", kind="invariant")
        have = [z3.And(a, b_) for a, b_ in zip(conj(s.assertions), conj(f._to_add))]
        c.check(label + "/P1-solver-plus-pending", same_set(have, conj(f.constraints)),
                "the solver object's assertions together with the pending constraints do not have the models of the constraints", kind="invariant")


METHODS = ["_get_solver", "_add", "branch", "simplify", "downsize", "satisfiable", "check_satisfiability", "eval", "batch_eval", "solution", "is_true", "is_false",
           "max", "min", "unsat_core"]


def ob_fullfront(method, tier="quick"):
    FF = load()["FullFrontend"]
    proxies.set_iw(16)

    def body(c):
        EH.n = 0
        GSolver.n = 0
        state = STATES[c.choose([True] * len(STATES), "state")]
        f, b, other = mk(FF, c, state)
        shared = other is not None
        s0 = getattr(f._tls, "solver", None)
        snap = list(s0.assertions) if s0 is not None else None
        label = f"FullFrontend.{method}"

        def shared_untouched():
            if shared:
                c.check(label + "/P3-shared-solver-untouched", len(s0.assertions) == len(snap) and all(x is y for x, y in zip(s0.assertions, snap)),
                        "a solver object that another frontend holds was extended")
                _inv(c, other, label + "[other-holder]")
        try:
            if method == "_get_solver":
                s = f._get_solver()
                c.check(label + "/solver-has-the-constraints", same_set(conj(s.assertions), conj(f.constraints)), "the solver object handed to the backend does not hold the constraints")
                c.check(label + "/tracked-if-tracking", not f._track or all(s.tracked), "tracking is on but the returned solver object holds an untracked assertion")
                c.check(label + "/nothing-pending", f._to_add == [], "_to_add is not empty afterwards")
                c.check(label + "/is-the-frontends-solver", f._tls.solver is s, "the returned solver object is not the one the frontend keeps")
                shared_untouched()
                _inv(c, f, label)
            elif method == "_add":
                new = [EH("bool", name="new") for _ in range(1 + c.choose([True, True], "n-added"))]
                for x in new:
                    x.variables = frozenset({"w"})
                before = list(f.constraints)
                added = f.add(new)
                c.check(label + "/constraints-extended", f.constraints[:len(before)] == before and [x for x in f.constraints[len(before):]] == list(added) == new,
                        "the constraints are not the old ones followed by the added ones")
                shared_untouched()
                _inv(c, f, label)
            elif method == "branch":
                pend = list(f._to_add)
                br = f.branch()
                c.check(label + "/same-tracking-mode", br._track == f._track, "the branch does not inherit the tracking mode")
                c.check(label + "/both-finalized", f._finalized and br._finalized, "a side of the branch is not finalized (it could extend the shared solver object in place)")
                c.check(label + "/same-constraints", br.constraints == f.constraints and br.constraints is not f.constraints, "the branch does not start with its own copy of the constraints")
                c.check(label + "/own-pending-list", br._to_add is not f._to_add, "the branch shares the pending list")
                if s0 is not None:
                    c.check(label + "/solver-untouched", len(s0.assertions) == len(snap) and all(x is y for x, y in zip(s0.assertions, snap)), "branch() extended the solver object both sides share")
                _inv(c, f, label + "[parent]")
                _inv(c, br, label + "[branch]")
                # and the branch is usable: its solver object after _get_solver holds the constraints, the parent's object is untouched
                snap2 = list(f._tls.solver.assertions) if getattr(f._tls, "solver", None) is not None else None
                s = br._get_solver()
                c.check(label + "/branch-solver-has-the-constraints", same_set(conj(s.assertions), conj(br.constraints)), "the branch's solver object does not hold its constraints")
                if snap2 is not None and pend:
                    c.check(label + "/parent-solver-untouched-by-branch", f._tls.solver is not s and len(f._tls.solver.assertions) == len(snap2),
                            "the branch extended the parent's solver object")
            elif method in ("simplify", "downsize"):
                if method == "simplify":
                    real_simplify = FF.__mro__[1].simplify
                    FF.__mro__[1].simplify = lambda self: self.constraints      # ConstrainedFrontend.simplify by contract (C09): same models
                    try:
                        f.simplify()
                    finally:
                        FF.__mro__[1].simplify = real_simplify
                else:
                    f.downsize()
                shared_untouched()
                _inv(c, f, label)
                s = f._get_solver()
                c.check(label + "/next-solver-has-the-constraints", same_set(conj(s.assertions), conj(f.constraints)), "after it, the next solver object does not hold the constraints")
            else:
                e = EH("bv", name="q")
                v = EH("bv", name="val", symbolic=False)
                x = (EH("bool", name="x"),) if c.choose([True, True], "n-extra") == 1 else ()
                signed = c.choose([True, True], "signed") == 1 if method in ("max", "min") else False
                raised = None
                n = 2 + c.choose([True, True], "n")
                try:
                    if method in ("eval", "batch_eval"):
                        r = getattr(f, method)(e if method == "eval" else [e], n, extra_constraints=x)
                    elif method in ("max", "min"):
                        r = getattr(f, method)(e, extra_constraints=x, signed=signed)
                    elif method == "solution":
                        r = f.solution(e, v, extra_constraints=x)
                    elif method in ("is_true", "is_false"):
                        try:
                            r = getattr(f, method)(e, extra_constraints=x)
                        except BackendError:
                            raise PathEnd()          # is_true / is_false let BackendError through (their callers catch it): not part of this obligation
                    elif method == "unsat_core":
                        r = f.unsat_core(extra_constraints=x)
                    else:
                        r = getattr(f, method)(extra_constraints=x)
                except (UnsatError, ClaripyFrontendError) as ex:
                    raised = ex
                qs = b.queries
                for (kind, args, kw, ans) in qs:
                    s = kw.get("solver")
                    if s is None and kind == "unsat_core":
                        continue
                    c.check(label + "/query-solver-has-the-constraints", isinstance(s, GSolver) and z3.is_true(z3.simplify(z3.BoolVal(True))) and True, "no solver object handed to the backend")
                    if isinstance(s, GSolver):
                        c.check(label + "/query-solver-models", same_set(conj(s.assertions), conj(f.constraints)), "the backend was asked on a solver object that does not hold the constraints")
                        c.check(label + "/query-solver-tracked", not f._track or all(s.tracked), "tracking is on but the backend was asked on a solver object with an untracked assertion")
                    if kind == method and method in ("eval", "batch_eval"):
                        c.check(label + "/same-n", args[1] == n and (args[0] is e if method == "eval" else list(args[0]) == [e]), "the backend was asked for another number of values or another expression")
                    if kind == method and method in ("max", "min"):
                        c.check(label + "/same-signedness", kw.get("signed", False) == signed and args[0] is e, "the backend was asked for the optimum in the other signedness or of another expression")
                    if kind == method and method == "solution":
                        c.check(label + "/same-question", args[0] is e and args[1] is v, "the backend was asked about another expression or value")
                    xs = tuple(kw.get("extra_constraints", ()))
                    plain = tuple(t for t in xs if not isinstance(t, _Cmp))
                    c.check(label + "/extra-constraints-passed", len(plain) == len(x) and all(p is q_ for p, q_ in zip(plain, x)), "the caller's extra constraints were not handed to the backend")
                    for t in xs:
                        if isinstance(t, _Cmp):
                            want = {("max", False): "UGE", ("max", True): "SGE", ("min", False): "ULE", ("min", True): "SLE"}.get((method, signed))
                            c.check(label + "/pre-constraint", t.op == want and t.e is e and isinstance(t.v, tuple) and t.v[0] == "value",
                                    f"a pre-constraint {t.op} that the optimum need not satisfy (wrong comparison, expression or a value eval did not return)")
                last = qs[-1] if qs else None
                if isinstance(raised, ClaripyFrontendError):
                    c.check(label + "/frontend-error-only-for-backend-error", last is not None and last[3] == "error", "ClaripyFrontendError without a BackendError underneath")
                elif isinstance(raised, UnsatError):
                    ok = last is not None and ((last[0] in ("eval", "batch_eval") and len(last[3]) == 0) or (last[0] == "satisfiable" and last[3] is False))
                    c.check(label + "/unsat-error-only-for-empty-answer", ok, "UnsatError although the backend produced an answer")
                else:
                    if method == "unsat_core":
                        sat_ans = [q for q in qs if q[0] == "satisfiable"]
                        c.check(label + "/core", (r == () and sat_ans and sat_ans[-1][3] is True) or (isinstance(r, tuple) and r and r[0] == "core"), "unexpected unsat core answer")
                    elif method in ("eval", "batch_eval"):
                        c.check(label + "/answer-unchanged", last is not None and last[0] == method and tuple(r) == tuple(last[3]) and len(r) > 0, "the backend's answer was changed or an empty answer returned")
                    elif method in ("max", "min"):
                        ok = last is not None and ((last[0] == method and r is last[3]) or (last[0] == "eval" and len(last[3]) == 1 and r == last[3][0]))
                        c.check(label + "/answer-unchanged", ok, "the result is neither the backend's optimum nor the only feasible value")
                    else:
                        c.check(label + "/answer-unchanged", last is not None and last[0] == method and r is last[3], "the backend's answer was changed")
                shared_untouched()
                _inv(c, f, label)
        except (PathEnd, Undecided):
            raise
        except Exception as exn:  # noqa
            import traceback
            c.fail(label + "/raises", f"{type(exn).__name__}: {exn} :: {traceback.format_exc()[-400:]}", kind="raises")
            return "raised"
        return state
    return explore(body, _opts(tier))
