"""C11 / C14 / C17: the public query methods of claripy.backends.backend.Backend (real code, re-loaded from /repo on every run) between the
frontends and the private methods of a concrete backend.

Each of eval / batch_eval / min / max / solution / satisfiable / check_satisfiability must hand the PRIVATE method exactly the caller's question:
the converted expression(s) (convert() of exactly the caller's, in order), the same n / signedness, the converted extra constraints in order
(numbers unconverted), the caller's solver object and model callback - and return the private method's answer unchanged (check_satisfiability:
"SAT"/"UNSAT" for True/False).  A backend that needs a solver refuses with BackendError when none is given; an error of the private
method propagates unchanged."""
from __future__ import annotations

from vf.engine import paths
from vf.engine.paths import explore, Undecided, PathEnd
from vf.contracts import truth
from claripy.errors import BackendError, ClaripySolverInterruptError

METHODS = ["eval", "batch_eval", "min", "max", "solution", "satisfiable", "check_satisfiability"]


class _E:
    def __init__(self, name):
        self.name = name

    def __repr__(self):
        return f"<{self.name}>"


def ob_public(method, tier="quick"):
    ns = truth.load_backend()
    Backend = ns["Backend"]

    def body(c):
        calls = []
        outcome = c.choose([True, True, True], "private-outcome")      # answers / BackendError / the solver gives up

        class B(Backend):
            def __init__(self, need):
                Backend.__init__(self, solver_required=True if need else None)      # (the flag is "is not None")

            def convert(self, e):
                return ("conv", e)

            def _answer(self, kind, args, kw):
                calls.append((kind, args, kw))
                if outcome == 1:
                    raise BackendError("cannot")
                if outcome == 2:
                    raise ClaripySolverInterruptError("timeout")
                if kind in ("_satisfiable",):
                    return c.choose([True, True], "sat-answer") == 0
                return ("answer", kind)

            def _eval(self, expr, n, **kw):
                return self._answer("_eval", (expr, n), kw)

            def _batch_eval(self, exprs, n, **kw):
                return self._answer("_batch_eval", (list(exprs), n), kw)

            def _min(self, expr, **kw):
                return self._answer("_min", (expr,), kw)

            def _max(self, expr, **kw):
                return self._answer("_max", (expr,), kw)

            def _solution(self, expr, v, **kw):
                return self._answer("_solution", (expr, v), kw)

            def _satisfiable(self, **kw):
                return self._answer("_satisfiable", (), kw)
        need = c.choose([True, True], "solver-required") == 1
        have = c.choose([True, True], "solver-given") == 1
        b = B(need)
        solver = object() if have else None
        cb = (lambda m: None) if c.choose([True, True], "model-callback") == 1 else None
        nx = c.choose([True] * 3, "n-extra")
        extras = [_E("x0"), 7][:nx] if nx < 2 else [_E("x0"), 7]
        extras = extras[:nx]
        e, e2, v = _E("e"), _E("e2"), _E("v")
        n = 1 + c.choose([True] * 3, "n")
        signed = c.choose([True, True], "signed") == 1
        label = f"Backend.{method}"
        raised = None
        r = None
        try:
            if method == "eval":
                r = b.eval(e, n, extra_constraints=extras, solver=solver, model_callback=cb)
            elif method == "batch_eval":
                r = b.batch_eval([e, e2], n, extra_constraints=extras, solver=solver, model_callback=cb)
            elif method in ("min", "max"):
                r = getattr(b, method)(e, extra_constraints=extras, signed=signed, solver=solver, model_callback=cb)
            elif method == "solution":
                r = b.solution(e, v, extra_constraints=extras, solver=solver, model_callback=cb)
            else:
                r = getattr(b, method)(extra_constraints=extras, solver=solver, model_callback=cb)
        except (BackendError, ClaripySolverInterruptError) as ex:
            raised = ex
        except (PathEnd, Undecided):
            raise
        except Exception as ex:  # noqa
            import traceback
            c.fail(label + "/raises", f"{type(ex).__name__}: {ex} {traceback.format_exc()[-300:]}", kind="raises")
            return "raised"
        if not calls:
            c.check(label + "/refuses-only-without-a-required-solver", isinstance(raised, BackendError) and need and not have and method in ("eval", "batch_eval", "min", "max", "solution"),
                    "the private method was not asked although nothing prevents it (or an answer was made up)")
            return "refused"
        c.check(label + "/one-private-call", len(calls) == 1, f"{len(calls)} private calls")
        kind, args, kw = calls[0]
        want_kind = {"eval": "_eval", "batch_eval": "_batch_eval", "min": "_min", "max": "_max", "solution": "_solution", "satisfiable": "_satisfiable",
                     "check_satisfiability": "_satisfiable"}[method]
        want_args = {"eval": (("conv", e), n), "batch_eval": ([("conv", e), ("conv", e2)], n), "min": (("conv", e),), "max": (("conv", e),),
                     "solution": (("conv", e), ("conv", v)), "satisfiable": (), "check_satisfiability": ()}[method]
        c.check(label + "/same-question", kind == want_kind and args == want_args, f"the private method was asked {kind}{args}, the caller asked {want_kind}{want_args}")
        wx = [x if isinstance(x, int) else ("conv", x) for x in extras]
        gx = list(kw.get("extra_constraints", ()))
        if method == "check_satisfiability" and gx and gx != wx:
            # _check_satisfiability goes through the public satisfiable(), which converts again: converting a converted object must be the identity in a real
            # backend; here the tag is applied twice
            gx = [x[1] if isinstance(x, tuple) and isinstance(x[1], tuple) else x for x in gx]
        c.check(label + "/same-extra-constraints", gx == wx, f"extra constraints {gx}, the caller's are {wx}")
        c.check(label + "/same-solver-and-callback", kw.get("solver") is solver and kw.get("model_callback") is cb, "another solver object or model callback")
        if method in ("min", "max"):
            c.check(label + "/same-signedness", kw.get("signed", False) == signed, "the other signedness")
        if raised is not None:
            c.check(label + "/error-of-the-private-method-propagates", outcome in (1, 2) and type(raised) is (BackendError if outcome == 1 else ClaripySolverInterruptError),
                    "an error that the private method did not raise")
            return "error"
        c.check(label + "/no-answer-when-the-private-method-raised", outcome == 0, "the private method raised, yet an answer was returned")
        if method == "check_satisfiability":
            c.check(label + "/answer", r in ("SAT", "UNSAT"), f"answer {r!r}")
        elif method == "satisfiable":
            c.check(label + "/answer", r is True or r is False, f"answer {r!r}")
        else:
            c.check(label + "/answer-unchanged", r == ("answer", want_kind), "the private method's answer was changed")
        return method
    return explore(body, {"budget_s": 120, "max_depth": 500, "max_failures": 3, "max_paths": 20000})
